import asyncio, sys, time, logging
sys.path.insert(0, '/repo')
import edzed
logging.basicConfig(level=logging.WARNING)
async def main(mode):
    edzed.reset_circuit(); c = edzed.get_circuit()
    log = []
    async def coro(value):
        log.append(('start', value, round(time.monotonic()-t0, 3)))
        try:
            await asyncio.sleep(0.3)
        except asyncio.CancelledError:
            log.append(('cancelled', value, round(time.monotonic()-t0, 3))); raise
        log.append(('end', value, round(time.monotonic()-t0, 3)))
    out = edzed.OutputAsync('out', coro=coro, mode=mode, stop_data={'value': 'STOP'}, on_error=None, stop_timeout=0.005)
    task = asyncio.create_task(c.run_forever())
    await c.wait_init()
    out.event('put', value=1)
    await asyncio.sleep(0.01)
    t1 = time.monotonic()
    await c.shutdown()
    print(mode, 'shutdown took', round(time.monotonic()-t1, 3), log)
t0 = time.monotonic()
for m in ('wait', 'cancel', 'start'):
    t0 = time.monotonic()
    asyncio.run(main(m))
