"""C07 - TimeDate/TimeSpan follow the wall clock: real blocks and cron under a virtual wall clock
(start/reconfig instants around boundaries, several days, clock jumps) vs coq/Model/TimeDate.v"""
from __future__ import annotations

import asyncio
import datetime as dt

import edzed

from . import common, vloop
from .common import clist, cbool, cz, cnat

IMPORTS = "From Verif Require Import Values Interval TimeDate."
US = 1_000_000
DAY = 86400 * US
EPOCH0 = dt.datetime(1970, 1, 1)


def to_dt(abs_us):
    return EPOCH0 + dt.timedelta(microseconds=abs_us)


def abs_of(d):
    delta = d - EPOCH0
    return (delta.days * 86400 + delta.seconds) * US + delta.microseconds


def reading_of(d):
    return dict(dt=[d.year, d.month, d.day, d.hour, d.minute, d.second, d.microsecond], wd=d.isoweekday())


def c_reading(r):
    return f"(Build_reading {clist([cz(v) for v in r['dt']])} {cz(r['wd'])})"


def c_ranges(rs):
    return clist([f"({clist([cz(v) for v in a])}, {clist([cz(v) for v in b])})" for a, b in rs])


def c_cfg(cfg):
    if cfg['t'] == 'ts':
        return f"(CTimeSpan {c_ranges(cfg['span'])})"

    def opt(x, f):
        return 'None' if x is None else f"(Some {f(x)})"
    return (f"(CTimeDate {opt(cfg['times'], c_ranges)} {opt(cfg['dates'], c_ranges)} "
            f"{opt(cfg['wds'], lambda w: clist([cz(v) for v in w]))})")


def norm_cfg(blk, kind):
    """the block's configuration in normal form, read back from the block (get_state)"""
    st = blk.get_state()
    if kind == 'ts':
        return dict(t='ts', span=[[list(a), list(b)] for a, b in st])
    return dict(t='td', times=None if st['times'] is None else [[list(a), list(b)] for a, b in st['times']],
                dates=None if st['dates'] is None else [[list(a), list(b)] for a, b in st['dates']],
                wds=None if st['weekdays'] is None else list(st['weekdays']))


def boundaries_near(cfg, abs_us):
    """wall-clock instants (us) of the block's boundaries within 10 s of abs_us"""
    out = []
    day0 = abs_us - abs_us % DAY
    if cfg['t'] == 'td':
        tods = [0]
        for a, b in (cfg['times'] or []):
            for ep in (a, b):
                tods.append(((ep[0] * 60 + ep[1]) * 60 + ep[2]) * US + ep[3])
        for t in tods:
            for base in (day0 - DAY, day0, day0 + DAY):
                if abs(base + t - abs_us) <= 10 * US:
                    out.append(base + t)
    else:
        for a, b in cfg['span']:
            for ep in (a, b):
                v = abs_of(dt.datetime(*ep))
                if abs(v - abs_us) <= 10 * US:
                    out.append(v)
    return sorted(set(out))


def run_one(case):
    obs = dict(cfgs=[], recalcs=[], cron={}, sched=[], samples=[], jumps=[], error=None, harness=None)
    cfg_index = {}

    def cfg_id(cfg):
        key = repr(cfg)
        if key not in cfg_index:
            cfg_index[key] = len(obs['cfgs'])
            obs['cfgs'].append(cfg)
        return cfg_index[key]

    lat = case.get('latency', [])
    lat_i = [0]

    def latency():
        if not lat:
            return 0
        lat_i[0] += 1
        return lat[lat_i[0] % len(lat)]

    async def main(loop):
        edzed.reset_circuit()
        circuit = edzed.get_circuit()
        blocks = []
        for i, bd in enumerate(case['blocks']):
            if bd['t'] == 'td':
                kw = {}
                if bd.get('link'):
                    # every change of this block's output reconfigures another block - from INSIDE the
                    # scheduler's alarm handling when the change happens at a boundary
                    new = bd['link']['cfg']
                    kw['on_output'] = edzed.Event(
                        f"b{bd['link']['to']}", 'reconfig',
                        efilter=(edzed.not_from_undef,
                                 lambda data, _n=new: dict(times=_n['times'], dates=_n['dates'], weekdays=_n['wds'])))
                blk = edzed.TimeDate(f"b{i}", times=bd['times'], dates=bd['dates'], weekdays=bd['wds'], utc=bd['utc'],
                                     **kw)
            else:
                blk = edzed.TimeSpan(f"b{i}", span=bd['span'], utc=bd['utc'])
            blocks.append(blk)
        current = [None] * len(blocks)
        for i, blk in enumerate(blocks):
            def mk(i, blk):
                orig = blk.recalc

                def wrecalc(now):
                    r = orig(now)
                    cfg = norm_cfg(blk, case['blocks'][i]['t'])
                    current[i] = cfg_id(cfg)
                    obs['recalcs'].append(dict(cfg=current[i], now=reading_of(now), out=blk.output, blk=i))
                    return r
                blk.recalc = wrecalc
            mk(i, blk)
        crons = [b for b in circuit.getblocks() if type(b).__name__ == 'Cron']
        for cr in crons:
            def mkc(cr):
                st = dict(last=None, fresh=True, alarms=[], pending=None)
                log = obs['cron'].setdefault(cr.name, [])
                cr.debug = True
                odt = cr.dtnow

                def wdtnow():
                    d = odt()
                    st['last'] = d
                    return d
                cr.dtnow = wdtnow

                def wlog(msg, *args, level, **kw):
                    if msg.startswith('time schedule reloaded'):
                        st['fresh'] = True
                        st['alarms'] = [[t.hour, t.minute, t.second, t.microsecond] for t in cr._alarms]
                    elif msg.startswith('Resetting due to'):
                        st['fresh'] = True
                    elif msg.startswith('wakeup time'):
                        w = args[0]
                        n = st['last']
                        st['pending'] = dict(fresh=st['fresh'], now=[n.hour, n.minute, n.second, n.microsecond],
                                             alarms=st['alarms'],
                                             wakeup=[w.hour, w.minute, w.second, w.microsecond])
                        st['fresh'] = False
                    elif msg.startswith('sleep until wakeup') and st['pending'] is not None:
                        st['pending']['sleep_us'] = round(args[0] * US)
                        if len(log) < 400:
                            log.append(st['pending'])
                        st['pending'] = None
                cr.log_msg = wlog
            mkc(cr)

        cfgtime = {}          # block -> (configuration id, reading) taken at ITS last (re)configuration

        def snapshot_sched(i):
            # the block that was just (re)configured: remember the reading it was configured with
            last = [r for r in obs['recalcs'] if r['blk'] == i][-1]
            cfgtime[i] = (last['cfg'], last['now'])
            # ... and check the registrations of EVERY block (a reconfiguration of one block must
            # not disturb the alarms of the others)
            for j, blk in enumerate(blocks):
                if j not in cfgtime or len(obs['sched']) >= 300:
                    continue
                regs = []
                for cr in crons:
                    for t, bs in cr._alarms.items():
                        if blk in bs:
                            regs.append([t.hour, t.minute, t.second, t.microsecond])
                obs['sched'].append(dict(regs=regs, cfg=cfgtime[j][0], now=cfgtime[j][1]))

        async def driver():
            await circuit.wait_init()
            for i in range(len(blocks)):
                snapshot_sched(i)
            for act in case['timeline']:
                target = case['start_us'] + act['at']
                now = loop.wall_us()
                if target > now:
                    await asyncio.sleep((target - now) / US)
                elif act['k'] == 'sample' and now - target > 1000:
                    continue            # overtaken by a clock jump
                if act['k'] == 'sample':
                    a = loop.wall_us()
                    rd = reading_of(to_dt(a))
                    for i, blk in enumerate(blocks):
                        if len(obs['samples']) >= 1200:
                            break
                        cfg = obs['cfgs'][current[i]]
                        obs['samples'].append(dict(abs=a, now=rd, cfg=current[i], bounds=boundaries_near(cfg, a),
                                                   out=blk.output, blk=i))
                elif act['k'] == 'reconfig':
                    bd = act['cfg']
                    i = act['blk']
                    try:
                        if bd['t'] == 'td':
                            blocks[i].event('reconfig', times=bd['times'], dates=bd['dates'], weekdays=bd['wds'])
                        else:
                            blocks[i].event('reconfig', span=bd['span'])
                    except Exception as err:      # noqa
                        obs['harness'] = 'reconfig failed: ' + repr(err)
                        return
                    snapshot_sched(i)
                elif act['k'] == 'jump':
                    loop.jump_wall(act['delta'])
                    obs['jumps'].append(loop.wall_us())
                elif act['k'] == 'stall':
                    # the process is held up (GC pause, swapping ...): both clocks move on, nothing runs
                    loop.vt_us += act['us']

        try:
            await edzed.run(driver(), catch_sigterm=False)
        except BaseException as err:     # noqa
            obs['error'] = repr(err)[:300]
        if obs['error'] is None and not isinstance(circuit.error, asyncio.CancelledError):
            obs['error'] = repr(circuit.error)[:300]

    try:
        vloop.run_virtual(main, epoch=case['start_us'] // US, read_cost_us=case.get('read_cost', 1), latency=latency, wall_limit_s=15.0)
    except vloop.HarnessTimeout:
        obs['harness'] = 'timeout'
    except BaseException as err:       # noqa
        obs['harness'] = repr(err)[:300]
    finally:
        edzed.reset_circuit()
    return obs


class C07(common.Spec):
    imports = IMPORTS
    case_type = 'wcase'
    verdict_fn = 'w_verdict'
    shard = 8

    def run_impl(self, cases):
        return [run_one(c) for c in cases]

    def emit(self, case, obs):
        if obs['harness'] is not None:
            raise common.HarnessProblem(f"C07 harness problem: {obs['harness']} on {str(case)[:600]}")
        recalcs = clist([f"(Build_recalc_obs {cnat(r['cfg'])} {c_reading(r['now'])} {cbool(bool(r['out']))})"
                         for r in obs['recalcs'][:1500]])

        def tod(t):
            return clist([cz(v) for v in t])
        crons = clist([clist([f"(Build_citer {cbool(it['fresh'])} {tod(it['now'])} {clist([tod(a) for a in it['alarms']])} "
                              f"{tod(it['wakeup'])} {cz(it['sleep_us'])})" for it in log])
                       for _, log in sorted(obs['cron'].items())])
        sched = clist([f"({clist([tod(t) for t in s['regs']])}, ({cnat(s['cfg'])}, {c_reading(s['now'])}))"
                       for s in obs['sched']])
        samples = clist([f"(Build_sample {cz(s['abs'])} {c_reading(s['now'])} {cnat(s['cfg'])} "
                         f"{clist([cz(b) for b in s['bounds']])} {cbool(bool(s['out']))})" for s in obs['samples']])
        return (f"(Build_wcase {clist([c_cfg(c) for c in obs['cfgs']])} {recalcs} {crons} {sched} {samples} "
                f"{clist([cz(j) for j in obs['jumps']])} {cbool(obs['error'] is not None)})")

    def nontrivial(self, case, obs):
        outs = {(s['blk'], bool(s['out'])) for s in obs['samples']}
        return any((b, True) in outs and (b, False) in outs for b in range(len(case['blocks'])))

    def shrink(self, case):
        tl = case['timeline']
        nons = [i for i, a in enumerate(tl) if a['k'] != 'sample']
        for i in nons:
            yield dict(case, timeline=tl[:i] + tl[i + 1:])
        if len(case['blocks']) > 1:
            for i in range(len(case['blocks'])):
                if any(a['k'] == 'reconfig' and a['blk'] >= i for a in tl):
                    continue
                yield dict(case, blocks=case['blocks'][:i] + case['blocks'][i + 1:])
        if case.get('latency'):
            yield dict(case, latency=[])
        if case.get('read_cost', 1) != 1:
            yield dict(case, read_cost=1)
        # keep only the second half / first half of the samples
        samples = [i for i, a in enumerate(tl) if a['k'] == 'sample']
        if len(samples) > 8:
            half = set(samples[len(samples) // 2:])
            yield dict(case, timeline=[a for i, a in enumerate(tl) if i not in half])
            half = set(samples[:len(samples) // 2])
            yield dict(case, timeline=[a for i, a in enumerate(tl) if i not in half])

    def neighbours(self, case, rng):
        return []

    def _bad_samples(self, obs):
        from . import c07ref
        return c07ref.bad_samples(obs)

    def clause(self, case, obs):
        if obs['error'] is not None:
            return 'simulation_error:' + obs['error'].split('(')[0][:40]
        bad = self._bad_samples(obs)
        if bad:
            jumps = bool(obs['jumps'])
            recon = any(a['k'] == 'reconfig' for a in case['timeline'])
            return 'wrong_output' + ('_after_jump' if jumps else '') + ('_after_reconfig' if recon and not jumps else '')
        return 'cron_model'

    def describe(self, case, obs):
        bad = self._bad_samples(obs)[:3]
        txt = '; '.join(f"block b{s['blk']} at {to_dt(s['abs'])} output {s['out']} but configuration "
                        f"{obs['cfgs'][s['cfg']]} says {not s['out']}" for s in bad)
        return (f"start {to_dt(case['start_us'])}, blocks {case['blocks']}, actions "
                f"{[a for a in case['timeline'] if a['k'] != 'sample']}, jumps at {[str(to_dt(j)) for j in obs['jumps']]}: "
                f"error={obs['error']}; wrong samples: {txt or 'none'}")


# ---------- generators ----------
STARTS = [dt.datetime(2023, 12, 31, 23, 40), dt.datetime(2024, 2, 28, 23, 50), dt.datetime(2024, 2, 29, 11, 0),
          dt.datetime(2024, 6, 15, 9, 58), dt.datetime(2024, 6, 15, 22, 57), dt.datetime(2025, 3, 1, 0, 0, 0),
          dt.datetime(2024, 10, 5, 23, 15), dt.datetime(2024, 4, 30, 21, 30)]
OFFS = [-2000, -1000, -500, -100, -10, -1, 0, 1, 10, 100, 500, 1000, 2000]      # us around a boundary


def tod_list(us):
    us %= DAY
    return [us // (3600 * US), us // (60 * US) % 60, us // US % 60, us % US]


def gen_times(rng, start_tod_us):
    """1..2 ranges with endpoints in the hours after the start"""
    rs = []
    for _ in range(rng.choice([1, 1, 2])):
        a = start_tod_us + rng.choice([5, 20, 45, 90, 200, 600]) * 60 * US + rng.choice([0, 0, 0, 30 * US, 123456, 999999])
        if rng.random() < 0.2:
            a = rng.choice([0, 0, 3600 * US * ((start_tod_us // (3600 * US) + 1) % 24)])    # midnight or the next full hour
        kind = rng.random()
        if kind < 0.15:
            b = a                                            # whole day
        elif kind < 0.4:
            b = a - rng.choice([10, 60, 300]) * 60 * US      # wraps
        else:
            b = a + rng.choice([1, 10, 30, 120, 400]) * 60 * US + rng.choice([0, 0, 500000, 1])
        rs.append([tod_list(a), tod_list(b)])
    return rs


def gen_dates(rng, start):
    d0 = start.date()
    a = d0 + dt.timedelta(days=rng.choice([-3, -1, 0, 0, 1, 2]))
    b = a + dt.timedelta(days=rng.choice([0, 1, 3, 40, 364]))
    if rng.random() < 0.2:
        a, b = b, a
    return [[[a.month, a.day], [b.month, b.day]]]


def gen_cfg(rng, start, kind=None):
    kind = kind or rng.choice(['td', 'td', 'td', 'ts'])
    stod = abs_of(start) % DAY
    if kind == 'td':
        times = gen_times(rng, stod) if rng.random() < 0.85 else None
        dates = gen_dates(rng, start) if rng.random() < 0.35 else None
        wds = None
        if rng.random() < 0.35:
            wds = sorted(set(rng.randrange(1, 8) for _ in range(rng.randrange(0, 6))))
        if rng.random() < 0.05:
            times = []
        return dict(t='td', times=times, dates=dates, wds=wds)
    span = []
    for _ in range(rng.choice([1, 1, 2])):
        a = start + dt.timedelta(minutes=rng.choice([-600, -30, 5, 30, 90, 400, 1500]), microseconds=rng.choice([0, 0, 250000]))
        b = a + dt.timedelta(minutes=rng.choice([1, 20, 90, 700, 1500, -5]))
        span.append([[a.year, a.month, a.day, a.hour, a.minute, a.second, a.microsecond],
                     [b.year, b.month, b.day, b.hour, b.minute, b.second, b.microsecond]])
    return dict(t='ts', span=span)


def block_boundaries(cfg, start_us, dur_us):
    """wall offsets (us from start) of all boundaries of cfg within the run"""
    out = []
    if cfg['t'] == 'td':
        tods = [0]
        for a, b in (cfg['times'] or []):
            for ep in (a, b):
                tods.append(((ep[0] * 60 + ep[1]) * 60 + ep[2]) * US + ep[3])
        day0 = start_us - start_us % DAY
        for k in range(0, dur_us // DAY + 2):
            for t in tods:
                off = day0 + k * DAY + t - start_us
                if 0 < off < dur_us:
                    out.append(off)
    else:
        for a, b in cfg['span']:
            for ep in (a, b):
                off = abs_of(dt.datetime(*ep)) - start_us
                if 0 < off < dur_us:
                    out.append(off)
    return sorted(set(out))


def gen_case(rng, tier):
    start = rng.choice(STARTS) + dt.timedelta(seconds=rng.choice([0, 0, 17, 1800]))
    start_us = abs_of(start)
    dur_us = rng.choice([3, 8, 26, 26, 50]) * 3600 * US
    nb = rng.choice([1, 1, 2, 3, 5])
    utc_all = rng.choice([None, None, True, False])
    blocks = []
    for _ in range(nb):
        cfg = gen_cfg(rng, start)
        cfg['utc'] = rng.random() < 0.5 if utc_all is None else utc_all
        blocks.append(cfg)
    timeline = []
    cfgs_over_time = [[(0, dict(b))] for b in blocks]
    bounds = sorted({o for b in blocks for o in block_boundaries(b, start_us, dur_us)})
    # reconfig events around boundaries of the same or another block
    for _ in range(rng.choice([0, 0, 1, 2, 3])):
        i = rng.randrange(nb)
        new = gen_cfg(rng, start, blocks[i]['t'])
        if bounds and rng.random() < 0.8:
            at = rng.choice(bounds) + rng.choice(OFFS)
        else:
            at = rng.randrange(1, dur_us)
        if at <= 0:
            at = 1
        if rng.random() < 0.45:
            # the new configuration has a boundary a few microseconds after the reconfiguration itself
            delta = rng.choice([1, 2, 5, 15, 40, 150, 600])
            b_abs = start_us + at + delta
            if new['t'] == 'td':
                a = tod_list(b_abs)
                other = tod_list(b_abs + rng.choice([-7200, -60, 60, 1800, 7200]) * US)
                new['times'] = [[a, other] if rng.random() < 0.5 else [other, a]]
            else:
                d0 = to_dt(b_abs)
                d1 = d0 + dt.timedelta(minutes=rng.choice([30, 600]))
                d2 = d0 - dt.timedelta(minutes=rng.choice([30, 600]))
                f = lambda d: [d.year, d.month, d.day, d.hour, d.minute, d.second, d.microsecond]
                new['span'] = [[f(d0), f(d1)] if rng.random() < 0.5 else [f(d2), f(d0)]]
        timeline.append(dict(k='reconfig', at=at, blk=i, cfg=new))
        bounds = sorted(set(bounds) | set(block_boundaries(new, start_us, dur_us)))
    # forward clock jumps
    for _ in range(rng.choice([0, 0, 0, 1, 1, 2])):
        at = rng.choice(bounds) + rng.choice([-70 * US, -5 * US, 3 * US, 200 * US]) if bounds and rng.random() < 0.5 \
            else rng.randrange(1, dur_us)
        timeline.append(dict(k='jump', at=max(at, 1), delta=rng.choice([30, 31, 90, 600, 1799, 2700, 3599, 3600]) * US))
    # a stall of 20..60 ms that makes an hourly wake-up late (never within 2 s of a boundary: the
    # property says nothing about outputs while the process does not run)
    if rng.random() < 0.35:
        allb = sorted(set(bounds))
        for _ in range(rng.choice([1, 1, 2])):
            hrs = [h for h in range(1, dur_us // (3600 * US))]
            if not hrs:
                break
            # offset of a full hour of the wall clock from the start
            first_hour = (3600 * US - start_us % (3600 * US)) % (3600 * US)
            at = first_hour + rng.choice(hrs) * 3600 * US - 10_000
            if 0 < at < dur_us and all(abs(at - b) > 2 * US for b in allb):
                timeline.append(dict(k='stall', at=at, us=rng.choice([20_000, 40_000, 60_000])))
    # samples: around every boundary, every 10 minutes, random
    pts = set()
    for b in bounds:
        pts.update([b - 20_000, b - 1, b + 8_000, b + 60 * US])
    step = 600 * US if tier != 'quick' else 1800 * US
    pts.update(range(step, dur_us, step))
    pts = sorted(p for p in pts if 0 < p < dur_us)
    if len(pts) > 220:
        pts = sorted(rng.sample(pts, 220))
    timeline += [dict(k='sample', at=p) for p in pts]
    timeline.sort(key=lambda a: (a['at'], a['k'] != 'sample'))
    latency = rng.choice([[], [0, 0, 50, 0, 300], [0, 120, 0, 0, 1500, 0, 10], [900]])
    return dict(start_us=start_us, blocks=blocks, timeline=timeline, latency=latency,
                read_cost=rng.choice([1, 1, 3, 20, 100]))


def _tl(start_us, blocks, actions, dur_h, step_min=10):
    dur_us = dur_h * 3600 * US
    bounds = sorted({o for b in blocks + [a['cfg'] for a in actions if a['k'] == 'reconfig']
                     for o in block_boundaries(b, start_us, dur_us)})
    pts = set()
    for b in bounds:
        pts.update([b - 20_000, b - 1, b + 8_000, b + 60 * US])
    pts.update(range(step_min * 60 * US, dur_us, step_min * 60 * US))
    tl = list(actions) + [dict(k='sample', at=p) for p in sorted(pts) if 0 < p < dur_us]
    tl.sort(key=lambda a: (a['at'], a['k'] != 'sample'))
    return tl


def _td(times=None, dates=None, wds=None, utc=False):
    return dict(t='td', times=times, dates=dates, wds=wds, utc=utc)


def directed():
    """shapes of earlier findings and of seeded changes; they run first"""
    out = []
    # forward jump over midnight while cron sleeps towards an alarm in the 23rd hour
    st = abs_of(dt.datetime(2024, 6, 15, 22, 57, 17))
    b = [_td(times=[[[23, 17, 47, 0], [23, 47, 47, 0]]])]
    out.append(dict(start_us=st, blocks=b, latency=[], read_cost=1,
                    timeline=_tl(st, b, [dict(k='jump', at=2695 * US, delta=3600 * US)], 8)))
    out.append(dict(start_us=st, blocks=b, latency=[0, 300], read_cost=1,
                    timeline=_tl(st, b, [dict(k='jump', at=3750 * US, delta=30 * US)], 8)))
    st2 = abs_of(dt.datetime(2024, 12, 31, 23, 40, 0))
    b2 = [_td(times=[[[23, 59, 50, 0], [0, 10, 0, 0]]], dates=[[[12, 31], [1, 1]]]), _td(wds=[1, 2, 3])]
    out.append(dict(start_us=st2, blocks=b2, latency=[], read_cost=1,
                    timeline=_tl(st2, b2, [dict(k='jump', at=(19 * 60 + 49) * US + 800000, delta=30 * US)], 30)))
    # a scheduler without alarms and a clock jump
    st3 = abs_of(dt.datetime(2025, 3, 1, 0, 0, 0))
    b3 = [dict(t='ts', span=[[[2025, 2, 28, 23, 30, 0, 0], [2025, 2, 28, 23, 55, 0, 0]]], utc=True)]
    out.append(dict(start_us=st3, blocks=b3, latency=[], read_cost=1,
                    timeline=_tl(st3, b3, [dict(k='jump', at=7000 * US, delta=3600 * US)], 6)))
    # reconfiguration a few microseconds before a boundary of the new configuration
    st4 = abs_of(dt.datetime(2024, 2, 29, 0, 20, 0))
    b4 = [_td(times=[[[0, 25, 30, 0], [19, 25, 30, 0]]])]
    for delta, cost in ((15, 20), (2, 1), (150, 100)):
        at = 7499_999_000
        new = _td(times=[[[4, 24, 59, 999000 + delta], [2, 24, 59, 999000 + delta]]])
        out.append(dict(start_us=st4, blocks=b4, latency=[], read_cost=cost,
                        timeline=_tl(st4, b4, [dict(k='reconfig', at=at, blk=0, cfg=new)], 6)))
    # a block that had midnight as an end point is reconfigured to dates/weekdays only
    st5 = abs_of(dt.datetime(2024, 12, 31, 21, 0, 0))
    b5 = [_td(times=[[[0, 0, 0, 0], [6, 0, 0, 0]]]), _td(times=[[[22, 0, 0, 0], [0, 0, 0, 0]]])]
    acts = [dict(k='reconfig', at=600 * US, blk=0, cfg=_td(dates=[[[1, 1], [1, 1]]])),
            dict(k='reconfig', at=900 * US, blk=1, cfg=_td(wds=[3, 4]))]
    out.append(dict(start_us=st5, blocks=b5, latency=[], read_cost=1, timeline=_tl(st5, b5, acts, 30)))
    # a TimeSpan whose range began at midnight of the day before (an end point that is not registered) shares the scheduler with a single TimeDate;
    # reconfiguring the span must not remove the TimeDate's midnight alarm
    st6 = abs_of(dt.datetime(2024, 5, 10, 20, 0, 0))
    b6 = [dict(t='ts', span=[[[2024, 5, 9, 0, 0, 0, 0], [2024, 5, 10, 22, 0, 0, 0]]], utc=False),
          _td(dates=[[[5, 11], [5, 11]]])]
    acts6 = [dict(k='reconfig', at=1800 * US, blk=0,
                  cfg=dict(t='ts', span=[[[2024, 5, 10, 21, 0, 0, 0], [2024, 5, 10, 23, 0, 0, 0]]]))]
    out.append(dict(start_us=st6, blocks=b6, latency=[], read_cost=1, timeline=_tl(st6, b6, acts6, 8)))
    # a TimeSpan reconfigured to a span that keeps one of its end points (only the start / only the end is
    # moved; the time of day of the kept end point must stay registered)
    st8 = abs_of(dt.datetime(2024, 5, 10, 20, 0, 0))
    for new_span in ([[[2024, 5, 10, 21, 30, 0, 0], [2024, 5, 10, 22, 0, 0, 0]]],
                     [[[2024, 5, 10, 21, 0, 0, 0], [2024, 5, 10, 22, 30, 0, 0]]],
                     [[[2024, 5, 10, 22, 0, 0, 0], [2024, 5, 10, 23, 0, 0, 0]]],
                     [[[2024, 5, 10, 21, 0, 0, 0], [2024, 5, 10, 22, 0, 0, 0]],
                      [[2024, 5, 11, 21, 0, 0, 0], [2024, 5, 11, 0, 30, 0, 0]]]):
        b8 = [dict(t='ts', span=[[[2024, 5, 10, 21, 0, 0, 0], [2024, 5, 10, 22, 0, 0, 0]]], utc=False)]
        acts8 = [dict(k='reconfig', at=1800 * US, blk=0, cfg=dict(t='ts', span=new_span))]
        out.append(dict(start_us=st8, blocks=b8, latency=[], read_cost=1, timeline=_tl(st8, b8, acts8, 6)))
    # a 40 ms stall makes one hourly wake-up late; the boundaries of the following hours must still be
    # served within a few milliseconds
    st7 = abs_of(dt.datetime(2024, 6, 15, 9, 30, 0))
    b7 = [_td(times=[[[11, 15, 0, 0], [12, 15, 0, 0]], [[13, 15, 0, 0], [14, 15, 0, 0]], [[15, 15, 0, 0], [16, 15, 0, 0]],
                     [[17, 15, 0, 0], [18, 15, 0, 0]]])]
    out.append(dict(start_us=st7, blocks=b7, latency=[], read_cost=1,
                    timeline=_tl(st7, b7, [dict(k='stall', at=1800 * US - 10_000, us=40_000)], 11)))
    # end points of two blocks 1 us apart: the next alarm point is already over when the first one has
    # been served (the sleep time towards it is negative)
    st8 = abs_of(dt.datetime(2024, 6, 15, 9, 59, 0))
    b8 = [_td(times=[[[10, 0, 0, 1], [10, 0, 0, 3]], [[10, 30, 0, 0], [10, 30, 0, 1]]]),
          _td(times=[[[10, 0, 0, 2], [10, 0, 0, 4]]])]
    for cost in (1, 5, 40):
        out.append(dict(start_us=st8, blocks=b8, latency=[], read_cost=cost, timeline=_tl(st8, b8, [], 2)))
    # block 0 reconfigures block 1 whenever its output changes, i.e. while the scheduler is serving the
    # alarm point 10:00 that both blocks share; the new configuration of block 1 no longer has 10:00
    st9 = abs_of(dt.datetime(2024, 6, 15, 9, 59, 0))
    b9 = [dict(_td(times=[[[10, 0, 0, 0], [11, 0, 0, 0]]]),
               link=dict(to=1, cfg=_td(times=[[[10, 30, 0, 0], [12, 0, 0, 0]]]))),
          _td(times=[[[10, 0, 0, 0], [12, 0, 0, 0]]]), _td(times=[[[10, 0, 0, 0], [10, 15, 0, 0]]])]
    out.append(dict(start_us=st9, blocks=b9, latency=[], read_cost=1, timeline=_tl(st9, b9, [], 3)))
    b10 = [_td(times=[[[10, 0, 0, 0], [12, 0, 0, 0]]]),
           dict(_td(times=[[[10, 0, 0, 0], [11, 0, 0, 0]]]),
                link=dict(to=0, cfg=_td(times=[[[9, 0, 0, 0], [11, 30, 0, 0]]], wds=[1, 2, 3, 4, 5, 6, 7])))]
    out.append(dict(start_us=st9, blocks=b10, latency=[0, 200], read_cost=2, timeline=_tl(st9, b10, [], 3)))
    return out


def check(run):
    spec = C07()
    run.rule = ("1..5 TimeDate/TimeSpan blocks (local and UTC scheduler) with random interval sets placed in the "
                "hours after the start (wrapping and non-wrapping time ranges, equal endpoints, microsecond "
                "endpoints, dates, weekdays, empty sets, nothing configured), start instants incl. Dec 31 "
                "23:40, Feb 28/29 2024 and 22:57; runs of 3..50 virtual hours; 0..3 'reconfig' events placed "
                "-2000..+2000 us around a boundary of the same or of another block; 0..2 forward clock jumps "
                "of 30 s..1 h, half of them next to a boundary; clock-read cost 1 us and wake-up latency "
                "patterns up to 1.5 ms. Observed: every recalc(now) with the resulting output, every "
                "scheduler iteration (reading, reloaded/reset, wake-up, sleep time from the debug log), the "
                "block's registered alarm times after each (re)configuration, outputs sampled 20 ms and 1 us "
                "before, 8 ms and 60 s after every boundary and on a 10/30-minute grid, Circuit.error. "
                "Non-trivial = a block was seen both True and False.")
    run.assumptions = ["the process runs with TZ=UTC: local and UTC mode read the same clock, DST is not modelled",
                       "datetime field extraction (year..microsecond, isoweekday) is trusted Python",
                       "wake-up latency and clock-read cost are inputs of the scenario, at most 1.5 ms",
                       "the wall-clock instants of the boundaries near a sample are computed by the harness"]
    n = 40 if run.tier == 'quick' else 1200
    cases = directed() + [gen_case(run.rng, run.tier) for _ in range(n)]
    for c in cases:
        run.count('blocks_%d' % len(c['blocks']))
        run.count('reconfigs_%d' % sum(1 for a in c['timeline'] if a['k'] == 'reconfig'))
        run.count('jumps_%d' % sum(1 for a in c['timeline'] if a['k'] == 'jump'))
    res = common.standard_flow(run, spec, cases)
    for c, o, ch in res:
        run.count('samples', len(o['samples']))
        run.count('recalcs', len(o['recalcs']))
        run.count('cron_iterations', sum(len(v) for v in o['cron'].values()))


def replay(run, path):
    return common.std_replay(run, C07(), path)
