"""C12 - OutputAsync on the virtual clock vs the acceptor coq/Model/OutputAsync.v"""
from __future__ import annotations

import asyncio

import edzed

from . import common, vloop
from .common import clist, cz, cnat

IMPORTS = "From Verif Require Import Values OutputAsync."
STOP_ID = 999
LATE_ID = 998
AFTER_ID = 997
REPUT_ID = 996


class C12(common.Spec):
    imports = IMPORTS
    case_type = 'ocase'
    verdict_fn = 'o_verdict'
    shard = 120

    def run_impl(self, cases):
        return [self._run_one(c) for c in cases]

    def _run_one(self, case):
        log = []
        obs = dict(log=log, final_output=None, harness=None)
        script = {int(k): v for k, v in case['script'].items()}

        async def main(loop):
            edzed.reset_circuit()
            circuit = edzed.get_circuit()

            async def coro(value):
                ident = value
                log.append(['start', loop.vt_us, ident])
                dur, how = script.get(ident, [100_000, 'ok'])
                try:
                    await asyncio.sleep(dur / 1e6)
                except asyncio.CancelledError:
                    log.append(['end', loop.vt_us, ident, 'cancelled'])
                    raise
                if how == 'fail':
                    log.append(['end', loop.vt_us, ident, 'error'])
                    raise RuntimeError('output failed')
                if how == 'selfcancel':
                    # the coroutine ends with a CancelledError of its own (e.g. a helper task it awaited
                    # was cancelled): nobody cancelled the run
                    log.append(['end', loop.vt_us, ident, 'cancelled'])
                    raise asyncio.CancelledError('cancelled inside the coroutine')
                log.append(['end', loop.vt_us, ident, 'success'])
                return ident

            def coro_entry(value):
                # OutputAsync calls this plain function and awaits what it returns; for some events the
                # call itself fails (before there is anything to await)
                if script.get(value, [0, 'ok'])[1] == 'fail_sync':
                    log.append(['start', loop.vt_us, value])
                    log.append(['end', loop.vt_us, value, 'error'])
                    raise RuntimeError('output failed in the call')
                return coro(value)

            class Dest(edzed.SBlock):
                def init_regular(self):
                    self.set_output(0)

                def _event(self, etype, data):
                    if etype == 'out':
                        if data['previous'] is not edzed.UNDEF:
                            log.append(['out', loop.vt_us, data['value']])
                    else:
                        log.append(['result', loop.vt_us, etype, data['put'].get('value')])
                        if etype == 'cancel' and case.get('reput') and not state['reput'] and not state['stopped']:
                            # the recipient of a cancellation report answers with a new event at once
                            # (from inside the block's control task)
                            state['reput'] = True
                            log.append(['put', loop.vt_us, REPUT_ID])
                            try:
                                out.event('put', value=REPUT_ID)
                            except Exception as err:       # noqa
                                obs['harness'] = 're-put: ' + repr(err)
            state = dict(reput=False, stopped=False)
            dest = Dest('dest')
            kw = {}
            if case['stop_data']:
                kw['stop_data'] = {'value': STOP_ID}
            out = edzed.OutputAsync(
                'out', coro=coro_entry, mode=case['mode'][0] if case.get('abbrev') else case['mode'],
                guard_time=case['guard_us'] / 1e6 if case['guard_us'] else None,
                on_success=edzed.Event(dest, 'success'), on_error=edzed.Event(dest, 'error'),
                on_cancel=edzed.Event(dest, 'cancel'), on_output=edzed.Event(dest, 'out'),
                stop_timeout=60, debug=len(case['puts']) % 2 == 1, **kw)    # debugging messages on/off
            orig_stop = out.stop

            def stop_wrapper():
                state['stopped'] = True
                if case.get('put_at_stop'):
                    # an event sent by another block's clean-up reaches the block in the same loop
                    # pass as its own stop(): it is still accepted and must be completed
                    log.append(['put', loop.vt_us, LATE_ID])
                    try:
                        out.event('put', value=LATE_ID)
                    except Exception as err:       # noqa
                        obs['harness'] = 'late put: ' + repr(err)
                # the moment the block is really stopped (stop_data is queued here)
                log.append(['stop', loop.vt_us])
                if case['stop_data']:
                    log.append(['put', loop.vt_us, STOP_ID])
                r = orig_stop()
                if case.get('put_after_stop'):
                    # an event that arrives when stop() has been called is too late: nothing may run for it,
                    # in particular not after the stop_data
                    try:
                        out.event('put', value=AFTER_ID)
                    except Exception:       # noqa
                        pass
                return r
            out.stop = stop_wrapper
            task = asyncio.create_task(circuit.run_forever())
            await circuit.wait_init()
            for t_us, ident in case['puts']:
                delay = t_us / 1e6 - loop.time()
                if delay > 0:
                    await asyncio.sleep(delay)
                log.append(['put', loop.vt_us, ident])
                edzed.ExtEvent(out).send(ident)
            delay = case['stop_us'] / 1e6 - loop.time()
            if delay > 0:
                await asyncio.sleep(delay)
            try:
                await circuit.shutdown()
            except BaseException as err:
                obs['harness'] = 'shutdown: ' + repr(err)
            obs['final_output'] = out.output
            await asyncio.sleep(30)         # nothing may happen afterwards
            obs['error'] = None if isinstance(circuit.error, asyncio.CancelledError) else repr(circuit.error)

        try:
            vloop.run_virtual(main, wall_limit_s=8.0)
        except vloop.HarnessTimeout:
            obs['harness'] = 'HANG'
        except Exception as err:
            obs['harness'] = repr(err)
        finally:
            edzed.reset_circuit()
        return obs

    def emit(self, case, obs):
        mode = {'wait': 'MWait', 'cancel': 'MCancel', 'start': 'MStart'}[case['mode']]
        steps = []
        outc = {'success': 'OSuccess', 'error': 'OError', 'cancelled': 'OCancelled', 'cancel': 'OCancelled'}
        if obs['harness'] is not None or obs.get('error') is not None:
            steps = ['OStart 0 0%nat']            # never accepted
        else:
            for e in obs['log'][:500]:
                k = e[0]
                if k == 'put':
                    steps.append(f"OPut {cz(e[1])} {cnat(e[2])}")
                elif k == 'start':
                    steps.append(f"OStart {cz(e[1])} {cnat(e[2])}")
                elif k == 'end':
                    steps.append(f"OEnd {cz(e[1])} {cnat(e[2])} {outc[e[3]]}")
                elif k == 'result':
                    steps.append(f"OResult {cz(e[1])} {cnat(e[3] if isinstance(e[3], int) else 4000)} {outc[e[2]]}")
                elif k == 'out':
                    steps.append(f"OOut {cz(e[1])} {cnat(min(int(e[2]), 4000))}")
                elif k == 'stop':
                    steps.append(f"OStop {cz(e[1])}")
        fo = obs['final_output'] if isinstance(obs['final_output'], int) else -1
        sc = [int(k) for k, v in case['script'].items() if v[1] == 'selfcancel']
        return ("{| oc_cfg := {| o_mode := %s; o_guard := %s; o_selfcancel := %s |};\n oc_steps := %s;\n"
                " oc_final_output := %s; oc_stopid := %s |}") % (
                    mode, cz(case['guard_us']), clist(sc, cnat), clist(steps), cz(fo),
                    f"Some {cnat(STOP_ID)}" if case['stop_data'] else 'None')

    def nontrivial(self, case, obs):
        return sum(1 for e in obs['log'] if e[0] == 'start') >= 2

    def shrink(self, case):
        ps = case['puts']
        for i in range(len(ps)):
            yield dict(case, puts=ps[:i] + ps[i + 1:])
        if case['stop_data']:
            yield dict(case, stop_data=False)
        if case.get('put_at_stop'):
            yield dict(case, put_at_stop=False)
        if case.get('put_after_stop'):
            yield dict(case, put_after_stop=False)
        if case['guard_us']:
            yield dict(case, guard_us=0)

    def clause(self, case, obs):
        return 'mode:' + case['mode']

    def describe(self, case, obs):
        return f"{case}: observed {str(obs)[:2500]}"


def gen_case(rng):
    mode = rng.choice(['wait', 'cancel', 'start'])
    guard = rng.choice([0, 0, 100_000])
    grid = [k * 50_000 for k in range(0, 13)]
    times = sorted(rng.choice(grid) for _ in range(rng.randrange(1, 5)))
    puts = [[t, i + 1] for i, t in enumerate(times)]
    script = {str(i + 1): [rng.choice([50_000, 100_000, 150_000, 300_000]),
                          rng.choice(['fail', 'fail', 'selfcancel', 'fail_sync']) if rng.random() < 0.3 else 'ok']
              for i in range(len(puts))}
    script[str(STOP_ID)] = [rng.choice([50_000, 100_000]), 'ok']
    script[str(LATE_ID)] = [rng.choice([50_000, 100_000]), 'ok']
    script[str(AFTER_ID)] = [50_000, 'ok']
    script[str(REPUT_ID)] = [50_000, 'ok']
    stop = rng.choice([times[-1], times[-1] + 50_000, times[-1] + 100_000, times[-1] + 1_000_000])
    return dict(mode=mode, abbrev=len(puts) % 3 == 0, reput=(mode == 'cancel' and len(puts) >= 2 and puts[0][0] % 100_000 == 0), guard_us=guard, puts=puts, script=script, stop_us=stop,
                stop_data=rng.random() < 0.5, put_at_stop=rng.random() < 0.25,
                put_after_stop=rng.random() < 0.25)


def check(run):
    spec = C12()
    run.rule = ("arrival patterns of 1..4 puts on a 50 ms grid (simultaneous arrivals, arrivals during a "
                "run and during guard time) x run durations 50..300 ms x failing runs x stop instant "
                "(with the last put, shortly after, long after) x mode cancel/wait/start x guard_time "
                "{none, 100 ms} x stop_data present/absent. Observed in one ordered log: accepted "
                "puts, coroutine start/end/cancellation, on_success/on_error/on_cancel events with "
                "their put item, output changes, the stop, final output; 30 s of silence afterwards. "
                "Non-trivial = >= 2 runs.")
    run.assumptions = ["asyncio ordering inside one instant and shield_cancel (the guard sleep cannot be "
                       "interrupted) are not modelled: the observed interleaving is the acceptor's input",
                       "stop_timeout is long enough for the pending work (the documented precondition)"]
    cases = [gen_case(run.rng) for _ in range(500 if run.tier == 'quick' else 18000)]
    for c in cases:
        run.count('mode_' + c['mode'])
        run.count('guard' if c['guard_us'] else 'noguard')
    res = common.standard_flow(run, spec, cases)
    check_stopped_before_init(run)
    check_output_after_crashed_run(run)
    check_empty_put(run)
    for c, o, ch in res:
        for e in o['log']:
            run.count('log_' + e[0] + (('_' + str(e[3])) if e[0] == 'end' else ''))


def check_stopped_before_init(run, only=None):
    """A circuit that is terminated while another block is still being initialised: the OutputAsync
    block was started but never initialised; stop_data must still run, be reported once and be the
    last run, and the output must come back to 0 (the acceptor's rule 'output = number of active runs')."""
    for mode in ('wait', 'cancel', 'start'):
        if only is not None and mode != only:
            continue
        obs = dict(calls=[], results=[], output=None, error=None, harness=None)

        async def main(loop, mode=mode, obs=obs):
            edzed.reset_circuit()
            circuit = edzed.get_circuit()

            class Slow(edzed.AddonAsync, edzed.SBlock):
                async def init_async(self):
                    await asyncio.sleep(1.0)
                    self.set_output(0)

            class Sink(edzed.SBlock):
                def init_regular(self):
                    self.set_output(0)

                def _event(self, etype, data):
                    obs['results'].append([etype, data.get('put', {}).get('value')])

            async def coro(value):
                obs['calls'].append(value)
                await asyncio.sleep(0.05)
                return value
            Slow('slow', init_timeout=5)
            sink = Sink('sink')
            out = edzed.OutputAsync('out', coro=coro, mode=mode, stop_data={'value': STOP_ID},
                                    on_success=edzed.Event(sink, 'success'), on_error=edzed.Event(sink, 'error'),
                                    on_cancel=edzed.Event(sink, 'cancel'), stop_timeout=10)
            task = asyncio.create_task(circuit.run_forever())
            await asyncio.sleep(0.2)              # 'slow' is still initialising
            try:
                await circuit.shutdown()
            except BaseException as err:      # noqa
                obs['error'] = repr(err)[:200]
            await asyncio.sleep(1)
            obs['output'] = out.output
        try:
            vloop.run_virtual(main, wall_limit_s=10.0)
        except BaseException as err:          # noqa
            obs['harness'] = repr(err)[:200]
        finally:
            edzed.reset_circuit()
        run.add_case(dict(stopped_before_init=mode), True)
        run.count('stopped_before_init')
        ok = (obs['harness'] is None and obs['calls'] == [STOP_ID] and obs['results'] == [['success', STOP_ID]]
              and obs['output'] == 0)
        if not ok:
            run.violation('monitor', dict(case=dict(stopped_before_init=mode), observed=obs),
                          f"OutputAsync(mode={mode}, stop_data) in a circuit terminated during the initialisation "
                          f"of another block: coroutine calls {obs['calls']}, result events {obs['results']}, final "
                          f"output {obs['output']!r} (expected: one run with the stop_data, one 'success', output 0); "
                          f"harness: {obs['harness']}", clause='stopped_before_init:' + mode, concrete=True)


def check_empty_put(run, only=None):
    """Events without any data item (a coroutine that takes no arguments, 'put' events sent by
    blk.event('put')): every accepted put still gets its run and exactly one result."""
    for mode in ('wait', 'cancel', 'start'):
        if only is not None and mode != only:
            continue
        obs = dict(runs=0, results=[], output=None, error=None, harness=None)

        async def main(loop, mode=mode, obs=obs):
            edzed.reset_circuit()
            circuit = edzed.get_circuit()

            class Sink(edzed.SBlock):
                def init_regular(self):
                    self.set_output(0)

                def _event(self, etype, data):
                    obs['results'].append([etype, dict(data.get('put', {'?': 1}))])

            async def coro():
                obs['runs'] += 1
                await asyncio.sleep(0.02)
            sink = Sink('sink')
            out = edzed.OutputAsync('out', coro=coro, mode=mode, f_args=(), on_success=edzed.Event(sink, 'success'),
                                    on_error=edzed.Event(sink, 'error'), on_cancel=edzed.Event(sink, 'cancel'),
                                    stop_timeout=10)
            task = asyncio.create_task(circuit.run_forever())
            await circuit.wait_init()
            for _ in range(3):
                out.event('put')                 # no data at all
                await asyncio.sleep(0.1)
            obs['output'] = out.output
            obs['error'] = None if circuit.error is None else repr(circuit.error)[:200]
            try:
                await circuit.shutdown()
            except BaseException:                # noqa
                pass
        try:
            vloop.run_virtual(main, wall_limit_s=10.0)
        except BaseException as err:             # noqa
            obs['harness'] = repr(err)[:200]
        finally:
            edzed.reset_circuit()
        run.add_case(dict(empty_put=mode), True)
        run.count('empty_put')
        ok = (obs['harness'] is None and obs['runs'] == 3 and obs['results'] == [['success', {}]] * 3
              and obs['output'] == 0 and obs['error'] is None)
        run.add_obligation(ok)
        if not ok:
            run.violation('monitor', dict(case=dict(empty_put=mode), observed=obs),
                          f"OutputAsync(mode={mode}, f_args=()): three 'put' events without data, 100 ms apart: "
                          f"{obs['runs']} runs, results {obs['results']}, output {obs['output']!r}, Circuit.error="
                          f"{obs['error']} (expected 3 runs, 3 x success, output 0); harness: {obs['harness']}",
                          clause='empty_put:' + mode, concrete=True)


def check_output_after_crashed_run(run, only=None):
    """'The block's output always equals the number of active runs and returns to 0 when idle' - also
    when a run ends before the coroutine could be called at all (event data without an item listed
    in f_args/f_kwargs; 'start' and 'cancel' mode, where such a run does not stop the simulation).
    Only the output clause is decided here: the result-event clause is about well-formed events."""
    for mode in ('cancel', 'start'):
        if only is not None and mode != only:
            continue
        obs = dict(seen=[], outputs=[], error=None, harness=None)

        async def main(loop, mode=mode, obs=obs):
            edzed.reset_circuit()
            circuit = edzed.get_circuit()

            async def coro(value, *, level):
                obs['seen'].append([value, level, out.output])
                await asyncio.sleep(0.03)
            out = edzed.OutputAsync('out', coro=coro, mode=mode, f_args=('value',), f_kwargs=('level',),
                                    on_error=None, stop_timeout=10)
            task = asyncio.create_task(circuit.run_forever())
            await circuit.wait_init()
            put = edzed.ExtEvent(out, 'put').send
            obs['outputs'].append(out.output)
            put('A')                               # no 'level': the run ends with a KeyError
            await asyncio.sleep(0.02)
            obs['outputs'].append(out.output)      # idle
            put('B', level=1)
            await asyncio.sleep(0.01)
            obs['outputs'].append(out.output)      # one run
            await asyncio.sleep(0.05)
            obs['outputs'].append(out.output)      # idle
            obs['error'] = None if circuit.error is None else repr(circuit.error)[:200]
            try:
                await circuit.shutdown()
            except BaseException:                  # noqa
                pass
            obs['outputs'].append(out.output)
        try:
            vloop.run_virtual(main, wall_limit_s=10.0)
        except BaseException as err:               # noqa
            obs['harness'] = repr(err)[:200]
        finally:
            edzed.reset_circuit()
        run.add_case(dict(crashed_run=mode), True)
        run.count('crashed_run')
        ok = (obs['harness'] is None and obs['outputs'] == [0, 0, 1, 0, 0] and obs['seen'] == [['B', 1, 1]])
        if not ok:
            run.violation('monitor', dict(case=dict(crashed_run=mode), observed=obs),
                          f"OutputAsync(mode={mode}): a run that ended before the coroutine was called (event data "
                          f"without the 'level' item), then a well-formed event: outputs at [start, idle, one run, "
                          f"idle, stopped] = {obs['outputs']} (expected [0, 0, 1, 0, 0]), runs seen (value, level, "
                          f"output) = {obs['seen']}; Circuit.error={obs['error']}; harness: {obs['harness']}",
                          clause='output_after_crashed_run:' + mode, concrete=True)


def replay(run, path):
    _, case = common.load_replay_case(path)
    if isinstance(case, dict) and 'stopped_before_init' in case:
        return common.directed_replay(run, path, lambda: check_stopped_before_init(run, case['stopped_before_init']))
    if isinstance(case, dict) and 'empty_put' in case:
        return common.directed_replay(run, path, lambda: check_empty_put(run, case['empty_put']))
    if isinstance(case, dict) and 'crashed_run' in case:
        return common.directed_replay(run, path, lambda: check_output_after_crashed_run(run, case['crashed_run']))
    return common.std_replay(run, C12(), path)
