"""C06 - persistence: storage snapshots of a running circuit and restarts from them vs coq/Model/Persist.v"""
from __future__ import annotations

import asyncio
import copy

import edzed

from . import common, vloop
from .common import clist, cbool, cpair, cstr, cz, cnat, copt

IMPORTS = "From Verif Require Import Values Persist.\nOpen Scope string_scope."
EPOCH = vloop.EPOCH_DEFAULT
EXP = {'none': (None, None), 'zero': (0, 0), 'short': (3.0, 3_000_000), 'long': (1000, 1_000_000_000)}


class Store(dict):
    """An in-memory storage that, like a real persistent back-end, keeps a COPY of what is written."""

    def __setitem__(self, key, value):
        super().__setitem__(key, copy.deepcopy(value))


def ms(us):
    return int(round(us / 1000.0)) * 1000


def to_bst(kind, value):
    """get_state() value or stored value -> (repr, expiry wall us or None)"""
    if kind in ('timer', 'inputexp', 'vetofsm'):
        state, exp, sdata = value[0], value[1], value[2] if len(value) > 2 else {}
        rep = f"{state}|{sorted((k, repr(v)) for k, v in sdata.items())}"
        return [rep, None if exp is None else ms(exp * 1e6)]
    return [repr(value), None]


def c_bst(b):
    return "{| b_repr := %s; b_expiry := %s |}" % (cstr(b[0].replace('"', "'")), copt(b[1], cz))


class VetoFSM(edzed.FSM):
    """a timed state whose timed event can be vetoed by a condition: after a refused expiry the
    FSM stays in the timed state without a timer"""
    STATES = ['open', 'closing']
    EVENTS = [['close', ['open'], 'closing'], ['done', ['closing'], 'open']]
    TIMERS = {'closing': (2.0, 'done')}

    def cond_done(self):
        return not self.sdata.get('veto', False)

    def _event_setveto(self, *, value=True, **_data):
        self.sdata['veto'] = bool(value)


class TaintProbe(edzed.AddonPersistence, edzed.SBlock):
    """a block whose 'taint' handler changes the internal state and then fails"""
    def get_state(self):
        return self.output

    def _restore_state(self, state):
        self.set_output(state)

    def init_regular(self):
        if not self.is_initialized():
            self.set_output(0)

    def _event_put(self, *, value, **_data):
        self.set_output(value)

    def _event_taint(self, **_data):
        self.set_output(666)
        raise RuntimeError('handler failed after changing the state')


def make_block(spec, dest=None):
    kind = spec['kind']
    kw = dict(persistent=spec['persistent'], sync_state=spec['sync'], expiration=EXP[spec['exp']][0])
    name = spec['name']
    if kind == 'input':
        return edzed.Input(name, initdef=0, **kw)
    if kind == 'counter':
        return edzed.Counter(name, modulo=7, initdef=1, **kw)
    if kind == 'timer':
        return edzed.Timer(name, t_on=spec.get('t_on', 10), t_off=spec.get('t_off'),
                           on_enter_on=edzed.Event(dest, 'entered'), on_enter_off=edzed.Event(dest, 'entered'),
                           **kw)
    if kind == 'inputexp':
        # the 'expired' value is the default None for some blocks: an output that is None is a
        # legitimate output, not "no output"
        xkw = {} if spec.get('expired_none') else {'expired': 'EXP'}
        return edzed.InputExp(name, duration=spec.get('duration', 8), **xkw,
                              on_enter_valid=edzed.Event(dest, 'entered'),
                              on_enter_expired=edzed.Event(dest, 'entered'), **kw)
    if kind == 'timedate':
        return edzed.TimeDate(name, times='1:00-2:00', utc=True, **kw)
    if kind == 'tprobe':
        return TaintProbe(name, **kw)
    if kind == 'vetofsm':
        return VetoFSM(name, on_enter_open=edzed.Event(dest, 'entered'),
                       on_enter_closing=edzed.Event(dest, 'entered'), **kw)
    raise ValueError(kind)


def key_of(spec):
    cls = {'input': 'Input', 'counter': 'Counter', 'timer': 'Timer', 'inputexp': 'InputExp',
           'timedate': 'TimeDate', 'vetofsm': 'VetoFSM', 'tprobe': 'TaintProbe'}[spec['kind']]
    return f"<{cls} '{spec['name']}'>"


class C06(common.Spec):
    imports = IMPORTS
    case_type = 'pcase'
    verdict_fn = 'p_verdict'
    shard = 60

    def run_impl(self, cases):
        return [self._run_one(c) for c in cases]

    def _snap(self, case, storage):
        store = {}
        extra = []
        ts = None
        keys = {key_of(b): b for b in case['blocks']}
        for k, v in storage.items():
            if k == 'edzed-stop-time':
                ts = ms(v * 1e6)
            elif k in keys:
                store[k] = to_bst(keys[k]['kind'], v)
            else:
                extra.append(k)
        return dict(store=store, ts=ts, extra=sorted(extra))

    def _run_one(self, case):
        obs = dict(steps=[], restarts=[], harness=None, init=None)
        storage = Store(case['initial_extra'])
        raw_snaps = []          # (label, wall_us, deepcopy of storage, states)
        fresh = {}

        async def run_a(loop):
            edzed.reset_circuit()
            circuit = edzed.get_circuit()
            circuit.set_persistent_data(storage)

            class Dest(edzed.SBlock):
                def init_regular(self):
                    self.set_output(0)

                def _event(self, etype, data):
                    pass

            class BadStart(edzed.SBlock):
                def init_regular(self):
                    self.set_output(0)

                def start(self):
                    super().start()
                    raise RuntimeError('start failed')
            class BadTask(edzed.AddonMainTask, edzed.SBlock):
                def init_regular(self):
                    self.set_output(0)

                async def _maintask(self):
                    raise RuntimeError('task failed at once')
            dest = Dest('dest')
            blocks = [make_block(b, dest) for b in case['blocks']]
            if case['failed_start'] == 'start':
                BadStart('zz_bad')
            elif case['failed_start'] == 'task':
                BadTask('zz_bad')
            obs['init'] = self._snap(case, storage)
            task = asyncio.create_task(circuit.run_forever())
            try:
                await circuit.wait_init()
            except Exception:
                try:
                    await task
                except BaseException:
                    pass
                obs['steps'].append(dict(step=['failed_start'], snap=self._snap(case, storage), t=loop.wall_us()))
                return

            def states():
                out = []
                for b, spec in zip(blocks, case['blocks']):
                    try:
                        out.append(to_bst(spec['kind'], b.get_state()))
                    except Exception:
                        out.append(['?', None])
                return out
            st0 = states()
            for spec, s in zip(case['blocks'], st0):
                fresh[spec['name']] = s
            obs['steps'].append(dict(step=['init', st0], snap=self._snap(case, storage), t=loop.wall_us()))
            raw_snaps.append(('init', loop.wall_us(), copy.deepcopy(storage), st0))
            # every top-level event a block handles - external or its own timer - is a step
            depth = [0]

            def instrument(bi, blk):
                orig = blk.event

                def wrapped(etype, /, **data):
                    depth[0] += 1
                    ok = True
                    try:
                        return orig(etype, **data)
                    except Exception:
                        ok = False
                        raise
                    finally:
                        depth[0] -= 1
                        if depth[0] == 0:
                            stx = states()
                            obs['steps'].append(dict(step=['event', bi, ok or circuit.error is None, stx[bi]],
                                                     snap=self._snap(case, storage), t=loop.wall_us()))
                            raw_snaps.append(('event', loop.wall_us(), copy.deepcopy(dict(storage)), stx))
                blk.event = wrapped
            for bi, blk in enumerate(blocks):
                instrument(bi, blk)
            for t_us, bi, etype, data in case['events']:
                delay = t_us / 1e6 - loop.time()
                if circuit.error is not None and delay > 0:
                    break                # the simulation has failed; events of the SAME instant still arrive
                if delay > 0:
                    await asyncio.sleep(delay)
                if circuit.error is not None and delay > 0:
                    break
                try:
                    blocks[bi].event(etype, **data)
                except Exception:
                    pass
            for _ in range(5):          # let everything due at this instant happen first
                await asyncio.sleep(0)
            aborted = circuit.error is not None
            # after a failure the simulation has already run its stop sequence: the states that were
            # saved are those right after the failing event
            st = raw_snaps[-1][3] if aborted else states()
            t_stop = loop.wall_us()
            if circuit.error is None:
                try:
                    await circuit.shutdown()
                except BaseException:
                    pass
            else:
                try:
                    await task
                except BaseException:
                    pass
            sn = self._snap(case, storage)
            if aborted and sn['ts'] is not None:
                t_stop = sn['ts']       # the simulation stopped by itself right after the failure
            obs['steps'].append(dict(step=['stop', ms(t_stop), st], snap=sn, t=ms(t_stop)))
            raw_snaps.append(('stop', loop.wall_us(), copy.deepcopy(storage), st))

        try:
            vloop.run_virtual(run_a, wall_limit_s=8.0)
        except vloop.HarnessTimeout:
            obs['harness'] = 'HANG'
            return obs
        except Exception as err:
            obs['harness'] = repr(err)
            return obs
        finally:
            edzed.reset_circuit()
        # restarts from chosen snapshots
        for idx, downtime_us in case['restarts']:
            if not raw_snaps:
                break
            label, wall_us, snap, sts = raw_snaps[idx % len(raw_snaps)]
            now_us = wall_us + downtime_us
            stB = Store(copy.deepcopy(snap))
            before = self._snap(case, stB)
            result = {}
            entered = []

            async def run_b(loop):
                edzed.reset_circuit()
                circuit = edzed.get_circuit()
                circuit.set_persistent_data(stB)

                class Dest(edzed.SBlock):
                    def init_regular(self):
                        self.set_output(0)

                    def _event(self, etype, data):
                        entered.append(data.get('source'))
                dest = Dest('dest')
                blocks = [make_block(b, dest) for b in case['blocks']]
                task = asyncio.create_task(circuit.run_forever())
                await circuit.wait_init()
                for b, spec in zip(blocks, case['blocks']):
                    result[spec['name']] = to_bst(spec['kind'], b.get_state())
                task.cancel()
                try:
                    await task
                except BaseException:
                    pass
            try:
                vloop.run_virtual(run_b, epoch=0, wall_limit_s=8.0, **{})
            except Exception as err:
                obs['harness'] = 'restart: ' + repr(err)
                return obs
            finally:
                edzed.reset_circuit()
            # run_b ran with epoch 0: redo with the right epoch (exact microseconds)
            obs['restarts'].append(dict(now=now_us, before=before, result=None, entered=None,
                                        label=label))
            result.clear()
            del entered[:]
            stB2 = Store(copy.deepcopy(snap))

            async def run_b2(loop):
                loop.wall_offset_us = now_us
                edzed.reset_circuit()
                circuit = edzed.get_circuit()
                circuit.set_persistent_data(stB2)

                class Dest(edzed.SBlock):
                    def init_regular(self):
                        self.set_output(0)

                    def _event(self, etype, data):
                        entered.append(data.get('source'))
                dest = Dest('dest')
                blocks = [make_block(b, dest) for b in case['blocks']]
                task = asyncio.create_task(circuit.run_forever())
                await circuit.wait_init()
                for b, spec in zip(blocks, case['blocks']):
                    result[spec['name']] = to_bst(spec['kind'], b.get_state())
                task.cancel()
                try:
                    await task
                except BaseException:
                    pass
            try:
                vloop.run_virtual(run_b2, wall_limit_s=8.0)
            except Exception as err:
                obs['harness'] = 'restart: ' + repr(err)
                return obs
            finally:
                edzed.reset_circuit()
            obs['restarts'][-1]['result'] = dict(result)
            obs['restarts'][-1]['entered'] = list(entered)
        obs['fresh'] = fresh
        return obs

    # ------------------------------------------------------------------ Coq side
    def emit(self, case, obs):
        def cfg(b):
            return "{| p_key := %s; p_persistent := %s; p_sync := %s; p_exp := %s |}" % (
                cstr(key_of(b).replace('"', "'")), cbool(b['persistent']), cbool(b['sync']),
                copt(EXP[b['exp']][1], cz))

        def snap(s):
            return "{| sn_store := %s; sn_stop_ts := %s; sn_extra := %s |}" % (
                clist(sorted(s['store'].items()), lambda kv: cpair(cstr(kv[0]), c_bst(kv[1]))),
                copt(s['ts'], cz), clist(s['extra'], cstr))
        if obs['harness'] is not None or obs['init'] is None:
            return ("{| pc_cfgs := []; pc_init := {| sn_store := []; sn_stop_ts := None; sn_extra := [] |}; "
                    "pc_init_states_present := false; pc_steps := [(PFailedStart, {| sn_store := []; "
                    "sn_stop_ts := Some 1%Z; sn_extra := [] |})]; pc_restarts := []; pc_times := [] |}")
        steps = []
        for s in obs['steps']:
            st = s['step']
            if st[0] == 'init':
                x = f"PInit {clist(st[1], c_bst)}"
            elif st[0] == 'event':
                x = f"PEvent {cnat(st[1])} {cbool(st[2])} {c_bst(st[3])}"
            elif st[0] == 'stop':
                x = f"PStop {cz(st[1])} {clist(st[2], c_bst)}"
            else:
                x = "PFailedStart"
            steps.append(cpair(x, snap(s['snap'])))
        restarts = []
        for r in obs['restarts']:
            if r['result'] is None:
                continue
            for b in case['blocks']:
                saved = r['before']['store'].get(key_of(b))
                got = r['result'][b['name']]
                ent = b['name'] in r['entered']
                restarts.append(
                    "{| rs_cfg := %s; rs_saved := %s; rs_stop_ts := %s; rs_now := %s; rs_fresh := %s; "
                    "rs_observed := %s; rs_entered := %s |}" % (
                        cfg(b), copt(saved, c_bst), copt(r['before']['ts'], cz), cz(r['now']),
                        c_bst(obs['fresh'].get(b['name'], ['?', None])), c_bst(got), cbool(ent)))
        return ("{| pc_cfgs := %s;\n pc_init := %s; pc_init_states_present := true;\n pc_steps := %s;\n"
                " pc_restarts := %s; pc_times := %s |}") % (
                    clist(case['blocks'], cfg), snap(obs['init']), clist(steps), clist(restarts),
                    clist([cz(s_.get('t', 0)) for s_ in obs['steps']]))

    def nontrivial(self, case, obs):
        return len(obs['steps']) >= 3 and len(obs['restarts']) >= 1

    def shrink(self, case):
        evs = case['events']
        for i in range(len(evs)):
            yield dict(case, events=evs[:i] + evs[i + 1:])
        rs = case['restarts']
        for i in range(len(rs)):
            yield dict(case, restarts=rs[:i] + rs[i + 1:])

    def clause(self, case, obs):
        if case['failed_start']:
            return 'failed_start'
        return 'persistence'

    def describe(self, case, obs):
        return f"{case}: observed {str(obs)[:2500]}"


def gen_case(rng):
    kinds = ['input', 'counter', 'timer', 'inputexp', 'timedate', 'vetofsm', 'tprobe', 'tprobe']
    blocks = []
    for i in range(rng.randrange(1, 5)):
        kind = rng.choice(kinds)
        b = dict(name=f"b{i}", kind=kind, persistent=rng.random() < 0.8, sync=rng.random() < 0.75,
                 exp=rng.choice(['none', 'none', 'zero', 'short', 'long']))
        if kind == 'timer':
            b['t_on'] = rng.choice([2, 10, 50])
            b['t_off'] = rng.choice([None, None, 6])
        if kind == 'inputexp':
            b['duration'] = rng.choice([2, 8, 40])
            if rng.random() < 0.5:
                b['expired_none'] = True
        blocks.append(b)
    events = []
    t = 0
    for _ in range(rng.randrange(0, 7)):
        t += rng.choice([0, 500_003, 1_000_007, 3_000_011])      # never a whole timer duration apart
        bi = rng.randrange(len(blocks))
        kind = blocks[bi]['kind']
        if kind == 'input':
            ev = ['put', {'value': rng.choice([1, 2, 'x', None, 3.5])}]
        elif kind == 'counter':
            ev = rng.choice([['inc', {}], ['dec', {}], ['put', {'value': rng.randrange(20)}], ['reset', {}],
                             ['put', {'value': 'boom'}] if rng.random() < 0.3 else ['inc', {'amount': 3}]])
        elif kind == 'timer':
            ev = rng.choice([['start', {}], ['stop', {}], ['toggle', {}], ['start', {'duration': 4}]])
        elif kind == 'inputexp':
            ev = ['put', {'value': rng.choice([5, 'v', 2.5]), **({'duration': 3} if rng.random() < 0.3 else {})}]
        elif kind == 'vetofsm':
            ev = rng.choice([['close', {}], ['close', {}], ['setveto', {'value': True}], ['setveto', {'value': True}],
                             ['setveto', {'value': False}], ['done', {}]])
        elif kind == 'tprobe':
            ev = rng.choice([['put', {'value': rng.randrange(1, 9)}], ['put', {'value': rng.randrange(1, 9)}],
                             ['taint', {}]])
        else:
            ev = ['reconfig', rng.choice([{'times': '3:00-4:00'}, {'weekdays': '135'}, {}])]
        events.append([t, bi, ev[0], ev[1]])
        if (ev[0] == 'taint' or ev[1].get('value') == 'boom') and rng.random() < 0.6:
            # a second handler failure in the same instant, while the simulation is already stopping
            others = [j for j, b in enumerate(blocks) if j != bi and b['kind'] in ('tprobe', 'counter')]
            if others:
                bj = rng.choice(others)
                events.append([t, bj, 'taint', {}] if blocks[bj]['kind'] == 'tprobe'
                              else [t, bj, 'put', {'value': 'boom'}])
    extra = {}
    if rng.random() < 0.5:
        extra["<Input 'gone'>"] = 5
    if rng.random() < 0.5:
        extra['edzed-custom'] = 'keep me'
    if rng.random() < 0.3:
        extra['edzed-stop-time'] = float(EPOCH - 100)
    restarts = [[rng.randrange(0, 12), rng.choice([137, 1_000_137, 5_000_137, 100_000_137, 2_000_000_137])]
                for _ in range(rng.randrange(1, 4))]
    failed = rng.choice(['start', 'task']) if rng.random() < 0.12 else False
    if failed:
        # saved states of a previous run are in the storage: a failed start must not touch them
        for b in blocks:
            if b['kind'] == 'input' and b['persistent']:
                extra[key_of(b)] = 42
            if b['kind'] == 'counter' and b['persistent']:
                extra[key_of(b)] = 3
    return dict(blocks=blocks, events=events, initial_extra=extra, restarts=restarts,
                failed_start=failed)


def check(run):
    spec = C06()
    run.rule = ("circuits of 1..4 persistent/non-persistent blocks (Input, Counter with modulo, Timer, "
                "InputExp, TimeDate) with sync_state on/off and expiration in {None, 0, 3 s, 1000 s}; "
                "histories of 0..6 events on the virtual clock incl. a handler failure (Counter put of "
                "a non-number) and failing start(); initial storage with entries of vanished blocks, "
                "reserved edzed-* entries and an old time stamp; deep copies of the storage after "
                "init, after every event and after the stop; for 1..3 of these crash points a second "
                "circuit is started from the copy after a downtime in {0, 1 s, 5 s, 100 s, 2000 s}. "
                "Observed: storage contents (states rendered canonically, FSM expirations as absolute "
                "times), get_state() of every block after each step and after the restart, on_enter "
                "events during the restart. Non-trivial = >= 3 steps and >= 1 restart.")
    run.assumptions = ["the storage is an in-memory mapping (durability of a backend is out of scope)",
                       "FSM expiration times are compared at millisecond granularity (the conversion "
                       "between loop and wall clock reads the clock three times)",
                       "external events never coincide with the expiry of a timer started by an earlier event "
                       "(event distances are not whole seconds); "
                       "a restart never happens exactly (to the microsecond) at an expiration instant: the "
                       "down times end in ...137 us (the clock reads of the restart cost microseconds)"]
    cases = [gen_case(run.rng) for _ in range(300 if run.tier == 'quick' else 10000)]
    for c in cases:
        for b in c['blocks']:
            run.count('kind_' + b['kind'])
    res = common.standard_flow(run, spec, cases)
    for c, o, ch in res:
        run.count('steps', len(o['steps']))
        run.count('restarts', len(o['restarts']))
        if o['harness']:
            run.count('harness_' + str(o['harness'])[:40])
    check_refused_write(run)
    check_interrupted_stop(run)
    check_restored_block_with_async_init(run)
    check_restored_source_sends_event(run)
    check_timer_transition_saved(run)
    check_restored_state_data(run)


def check_interrupted_stop(run):
    """'at a regular stop all persistent blocks are saved together with a stop timestamp' - the states
    and the time stamp are written BEFORE the blocks are stopped, so a stop whose (slow, asynchronous)
    clean-up phase is cut short - shutdown() under a timeout - leaves a complete storage behind: a
    restart must not judge the fresh states by the time stamp of an older run."""
    obs = dict(storage=None, ts_fresh=None, harness=None)
    store = {}

    async def main(loop):
        edzed.reset_circuit()
        circuit = edzed.get_circuit()

        class SlowStop(edzed.AddonAsync, edzed.SBlock):
            def init_regular(self):
                self.set_output(0)

            async def stop_async(self):
                await asyncio.sleep(0.4)
        inp = edzed.Input('inp', initdef=0, persistent=True, expiration=10)
        cnt = edzed.Counter('cnt', initdef=3, persistent=True, sync_state=False)
        store.update({inp.key: 1, 'edzed-stop-time': (loop.wall_us() / 1e6) - 100.0})
        SlowStop('slow', stop_timeout=5.0)
        circuit.set_persistent_data(store)
        task = asyncio.create_task(circuit.run_forever())
        await circuit.wait_init()
        inp.event('put', value=5)
        cnt.event('inc')
        t_stop = (loop.wall_us() / 1e6)
        try:
            await asyncio.wait_for(circuit.shutdown(), timeout=0.1)
        except (asyncio.TimeoutError, asyncio.CancelledError):
            pass
        await asyncio.wait([task], timeout=2.0)
        obs['storage'] = {k: v for k, v in store.items() if k != 'edzed-stop-time'}
        ts = store.get('edzed-stop-time')
        obs['ts_fresh'] = ts is not None and abs(ts - t_stop) < 1.0
    try:
        vloop.run_virtual(main, wall_limit_s=10.0)
    except BaseException as err:                          # noqa
        obs['harness'] = repr(err)[:200]
    finally:
        edzed.reset_circuit()
    run.add_case(dict(interrupted_stop=True), True)
    run.count('interrupted_stop')
    ok = (obs['harness'] is None and obs['ts_fresh'] is True
          and obs['storage'] == {"<Input 'inp'>": 5, "<Counter 'cnt'>": 4})
    run.add_obligation(ok)
    if not ok:
        run.violation('monitor', dict(case=dict(interrupted_stop=True), observed=obs),
                      f"shutdown() under a timeout shorter than a block's stop_async: storage {obs['storage']} "
                      f"(expected both states: Input 5, Counter 4), fresh stop time stamp: {obs['ts_fresh']}; harness: "
                      f"{obs['harness']}", clause='interrupted_stop_incomplete_storage', concrete=True)


def check_restored_block_with_async_init(run):
    """'restarting restores each block to that state and the corresponding output ... after
    initialisation the storage holds exactly that state' - also for a persistent block that has an
    asynchronous initialisation routine as well (e.g. one that would measure a fresh value): the
    restored state wins, the routine is not run for a block that is initialised already."""
    obs = dict(first=None, second=None, async_runs=0, storage=None, harness=None)
    store = {}

    def one_run(phase):
        async def main(loop):
            edzed.reset_circuit()
            circuit = edzed.get_circuit()

            class Measured(edzed.AddonPersistence, edzed.AddonAsync, edzed.SBlock):
                def get_state(self):
                    return self.output

                def _restore_state(self, state):
                    self.set_output(state)

                async def init_async(self):
                    obs['async_runs'] += 1
                    await asyncio.sleep(0.01)
                    self.set_output('measured')

                def _event_put(self, *, value, **_data):
                    self.set_output(value)
            blk = Measured('m', persistent=True, init_timeout=1.0)
            circuit.set_persistent_data(store)
            task = asyncio.create_task(circuit.run_forever())
            await circuit.wait_init()
            obs[phase] = blk.output
            if phase == 'first':
                blk.event('put', value='B')
            else:
                obs['storage'] = store.get(blk.key)
            await circuit.shutdown()
            await asyncio.wait([task], timeout=2.0)
        vloop.run_virtual(main, wall_limit_s=10.0)
    try:
        one_run('first')
        one_run('second')
    except BaseException as err:                          # noqa
        obs['harness'] = repr(err)[:200]
    finally:
        edzed.reset_circuit()
    run.add_case(dict(restored_block_with_async_init=True), True)
    run.count('restored_block_with_async_init')
    ok = (obs['harness'] is None and obs['first'] == 'measured' and obs['second'] == 'B'
          and obs['storage'] == 'B' and obs['async_runs'] == 1)
    run.add_obligation(ok)
    if not ok:
        run.violation('monitor', dict(case=dict(restored_block_with_async_init=True), observed=obs),
                      f"persistent block with an init_async routine: first run initialised by the routine "
                      f"({obs['first']!r}), put 'B', regular stop; after the restart the output is {obs['second']!r} "
                      f"and the storage holds {obs['storage']!r} (expected 'B' twice), init_async ran "
                      f"{obs['async_runs']} time(s) in total (expected 1); harness: {obs['harness']}",
                      clause='restored_state_overwritten_by_async_init', concrete=True)


def check_restored_source_sends_event(run):
    """'restarting restores each block to that state and the corresponding output' - also when a
    restored block (created first) announces its restored output to another persistent block that has
    not been restored yet: the destination is restored first, then it handles the event."""
    obs = dict(first=None, second=None, storage=None, error=None, harness=None)
    store = {}

    def one_run(phase):
        async def main(loop):
            edzed.reset_circuit()
            circuit = edzed.get_circuit()
            src = edzed.Input('src', initdef=0, persistent=True, on_output=edzed.Event('cnt', 'inc'))
            cnt = edzed.Counter('cnt', initdef=10, persistent=True)
            circuit.set_persistent_data(store)
            task = asyncio.create_task(circuit.run_forever())
            try:
                await circuit.wait_init()
            except Exception as err:                      # noqa
                obs['error'] = repr(circuit.error or err)[:200]
                return
            if phase == 'first':
                src.event('put', value=5)
            obs[phase] = [src.output, cnt.output]
            await circuit.shutdown()
            await asyncio.wait([task], timeout=2.0)
            obs['storage'] = {k: v for k, v in store.items() if k != 'edzed-stop-time'}
        vloop.run_virtual(main, wall_limit_s=10.0)
    try:
        one_run('first')
        one_run('second')
    except BaseException as err:                          # noqa
        obs['harness'] = repr(err)[:200]
    finally:
        edzed.reset_circuit()
    run.add_case(dict(restored_source_sends_event=True), True)
    run.count('restored_source_sends_event')
    # first run: initdef 0 -> 'inc' (11), put 5 -> 'inc' (12); restart: cnt restored to 12, then the
    # restored src (UNDEF -> 5) sends 'inc' -> 13
    ok = (obs['harness'] is None and obs['error'] is None and obs['first'] == [5, 12] and obs['second'] == [5, 13]
          and obs['storage'] == {"<Input 'src'>": 5, "<Counter 'cnt'>": 13})
    run.add_obligation(ok)
    if not ok:
        run.violation('monitor', dict(case=dict(restored_source_sends_event=True), observed=obs),
                      f"persistent Input 'src' (on_output -> 'inc' of the persistent Counter 'cnt' created after it): "
                      f"first run [src, cnt] = {obs['first']} (expected [5, 12]); after the restart {obs['second']} "
                      f"(expected [5, 13]: cnt restored to 12, then the event of the restored src), storage "
                      f"{obs['storage']}, error {obs['error']}; harness: {obs['harness']}",
                      clause='restored_source_sends_event', concrete=True)


def check_timer_transition_saved(run, only=None):
    """'after every event the storage holds exactly the current state' - the events an FSM sends to
    itself when its timer goes off included: a crash right after the expiry must find the new state in
    the storage, not the old timed state with a time stamp that has passed."""
    for kind in ('timer', 'inputexp'):
        if only is not None and kind != only:
            continue
        obs = dict(before=None, after=None, state=None, harness=None)
        store = {}

        async def main(loop, kind=kind, obs=obs, store=store):
            edzed.reset_circuit()
            circuit = edzed.get_circuit()
            if kind == 'timer':
                blk = edzed.Timer('blk', t_on=0.05, persistent=True)
            else:
                blk = edzed.InputExp('blk', duration=0.05, expired='EXP', initdef='INIT', persistent=True)
            circuit.set_persistent_data(store)
            task = asyncio.create_task(circuit.run_forever())
            await circuit.wait_init()
            if kind == 'timer':
                blk.event('start')
            else:
                blk.event('put', value='V')
            obs['before'] = copy.deepcopy(store.get(blk.key))
            await asyncio.sleep(0.2)                  # the timer goes off meanwhile
            obs['state'] = blk.state
            obs['after'] = copy.deepcopy(store.get(blk.key))      # what a crash at this moment leaves behind
            obs['current'] = copy.deepcopy(blk.get_state())
            await circuit.shutdown()
            await asyncio.wait([task], timeout=2.0)
            obs['saved'] = copy.deepcopy(store.get(blk.key))

        async def restart(loop, kind=kind, obs=obs, store=store):
            # the same circuit again: the restored internal state is exactly the saved one (the state
            # data an FSM's constructor prepares - InputExp's initial value - is replaced, not merged)
            edzed.reset_circuit()
            circuit = edzed.get_circuit()
            if kind == 'timer':
                blk = edzed.Timer('blk', t_on=0.05, persistent=True)
            else:
                blk = edzed.InputExp('blk', duration=0.05, expired='EXP', initdef='INIT', persistent=True)
            circuit.set_persistent_data(store)
            task = asyncio.create_task(circuit.run_forever())
            await circuit.wait_init()
            obs['restored'] = copy.deepcopy(blk.get_state())
            obs['restored_output'] = blk.output
            await circuit.shutdown()
            await asyncio.wait([task], timeout=2.0)
        try:
            vloop.run_virtual(main, wall_limit_s=10.0)
            vloop.run_virtual(restart, wall_limit_s=10.0)
        except BaseException as err:                          # noqa
            obs['harness'] = repr(err)[:200]
        finally:
            edzed.reset_circuit()
        if obs['harness'] is None and (list(obs.get('restored') or []) != list(obs.get('saved') or [])
                                       or obs.get('restored_output') != (False if kind == 'timer' else 'EXP')):
            obs['harness'] = None
            obs['state'] = f"restart: saved {obs.get('saved')} but restored {obs.get('restored')}, output {obs.get('restored_output')!r}"
        run.add_case(dict(timer_transition_saved=kind), True)
        run.count('timer_transition_saved')
        want_state = 'off' if kind == 'timer' else 'expired'
        ok = (obs['harness'] is None and obs['state'] == want_state and obs['after'] is not None
              and list(obs['after'])[0] == want_state and list(obs['after']) == list(obs['current'])
              and obs['before'] is not None and list(obs['before'])[0] != want_state)
        run.add_obligation(ok)
        if not ok:
            run.violation('monitor', dict(case=dict(timer_transition_saved=kind), observed=obs),
                          f"persistent {kind} (sync_state on) whose 50 ms timer went off: state {obs['state']!r}, the "
                          f"storage holds {obs['after']} (before the expiry: {obs['before']}), get_state() = "
                          f"{obs.get('current')} - expected the storage to hold the current state "
                          f"('{want_state}'); harness: {obs['harness']}",
                          clause='timer_transition_not_saved:' + kind, concrete=True)


def check_restored_state_data(run):
    """'restarting from the storage restores each block to that state': the state data of an FSM are
    REPLACED by the saved ones - an item that the constructor prepares and that an event removed before
    the stop is not there after the restart either."""
    obs = dict(saved=None, restored=None, harness=None)
    store = {}

    def one_run(phase):
        async def main(loop):
            edzed.reset_circuit()
            circuit = edzed.get_circuit()

            class Lock(edzed.FSM):
                STATES = ['held', 'free']
                EVENTS = [['take', 'free', 'held'], ['release', 'held', 'free']]

                def __init__(self, *args, **kwargs):
                    super().__init__(*args, **kwargs)
                    self.sdata['holder'] = 'admin'

                def enter_free(self):
                    self.sdata.pop('holder', None)
            blk = Lock('lock', persistent=True)
            circuit.set_persistent_data(store)
            task = asyncio.create_task(circuit.run_forever())
            await circuit.wait_init()
            if phase == 'first':
                blk.event('release')
            else:
                obs['restored'] = copy.deepcopy(list(blk.get_state()))
            await circuit.shutdown()
            await asyncio.wait([task], timeout=2.0)
            if phase == 'first':
                obs['saved'] = copy.deepcopy(list(store.get(blk.key)))
        vloop.run_virtual(main, wall_limit_s=10.0)
    try:
        one_run('first')
        one_run('second')
    except BaseException as err:                          # noqa
        obs['harness'] = repr(err)[:200]
    finally:
        edzed.reset_circuit()
    run.add_case(dict(restored_state_data=True), True)
    run.count('restored_state_data')
    ok = obs['harness'] is None and obs['saved'] == ['free', None, {}] and obs['restored'] == obs['saved']
    run.add_obligation(ok)
    if not ok:
        run.violation('monitor', dict(case=dict(restored_state_data=True), observed=obs),
                      f"persistent FSM whose constructor prepares the state data item 'holder' and whose state 'free' "
                      f"removes it: saved at the stop {obs['saved']} (expected ['free', None, {{}}]), internal state "
                      f"after the restart {obs['restored']} (expected the same); harness: {obs['harness']}",
                      clause='restored_state_data_merged', concrete=True)


def check_refused_write(run, only=None):
    """A storage that refuses ONE write (a value it cannot serialise, a transient I/O error): the
    storage can then not hold the current state, but it must not go on holding an OUTDATED one - a
    restart from it would restore a state the block has left (the entry is removed; the next
    successful save brings it back)."""
    for kind in ('input', 'counter'):
        if only is not None and kind != only:
            continue
        obs = dict(snaps=[], harness=None)

        class Flaky(dict):
            fail_next = False

            def __setitem__(self, key, value):
                if key.startswith('<') and self.fail_next:
                    self.fail_next = False
                    raise OSError('storage is busy')
                super().__setitem__(key, value)
        store = Flaky()

        async def main(loop, kind=kind, obs=obs, store=store):
            edzed.reset_circuit()
            circuit = edzed.get_circuit()
            circuit.set_persistent_data(store)
            blk = (edzed.Input('blk', initdef=1, persistent=True) if kind == 'input'
                   else edzed.Counter('blk', initdef=1, persistent=True))
            task = asyncio.create_task(circuit.run_forever())
            await circuit.wait_init()
            snap = lambda: [blk.output, store.get(blk.key, 'ABSENT')]
            obs['snaps'].append(snap())                       # after init: saved
            blk.event('put', value=2)
            obs['snaps'].append(snap())                       # saved
            store.fail_next = True
            blk.event('put', value=3)                         # this write is refused
            obs['snaps'].append(snap())
            blk.event('put', value=4)
            obs['snaps'].append(snap())                       # saved again
            try:
                await circuit.shutdown()
            except BaseException:                             # noqa
                pass
            obs['snaps'].append(snap())
        try:
            vloop.run_virtual(main, wall_limit_s=10.0)
        except BaseException as err:                          # noqa
            obs['harness'] = repr(err)[:200]
        finally:
            edzed.reset_circuit()
        run.add_case(dict(refused_write=kind), True)
        run.count('refused_write')
        ok = obs['harness'] is None and obs['snaps'] == [[1, 1], [2, 2], [3, 'ABSENT'], [4, 4], [4, 4]]
        run.add_obligation(ok)
        if not ok:
            run.violation('monitor', dict(case=dict(refused_write=kind), observed=obs),
                          f"{kind}: [output, stored state] after init / put 2 / put 3 with the write refused / put 4 / "
                          f"stop = {obs['snaps']} (expected [[1, 1], [2, 2], [3, 'ABSENT'], [4, 4], [4, 4]]: no "
                          f"outdated state is kept); harness: {obs['harness']}",
                          clause='stale_state_after_refused_write', concrete=True)


def replay(run, path):
    _, case = common.load_replay_case(path)
    if isinstance(case, dict) and 'interrupted_stop' in case:
        return common.directed_replay(run, path, lambda: check_interrupted_stop(run))
    if isinstance(case, dict) and 'restored_block_with_async_init' in case:
        return common.directed_replay(run, path, lambda: check_restored_block_with_async_init(run))
    if isinstance(case, dict) and 'restored_state_data' in case:
        return common.directed_replay(run, path, lambda: check_restored_state_data(run))
    if isinstance(case, dict) and 'timer_transition_saved' in case:
        return common.directed_replay(run, path,
                                      lambda: check_timer_transition_saved(run, case['timer_transition_saved']))
    if isinstance(case, dict) and 'restored_source_sends_event' in case:
        return common.directed_replay(run, path, lambda: check_restored_source_sends_event(run))
    if isinstance(case, dict) and 'refused_write' in case:
        return common.directed_replay(run, path, lambda: check_refused_write(run, case['refused_write']))
    return common.std_replay(run, C06(), path)
