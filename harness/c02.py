"""C02 - output events: correspondence of set_output/eval_block + Event.send with coq/Model/Events.v"""
from __future__ import annotations

import edzed

from . import common, drive
from .common import clist, cbool, cpair, cstr, cnat
from .vals import dec, enc, cj, cjdata
from .c16 import C16

IMPORTS = "From Verif Require Import Values Filters Events.\nOpen Scope string_scope."
POOL = [["i", 0], ["b", False], ["f", "0/1"], ["i", 1], ["b", True], ["f", "1/1"], ["none"],
        ["t", []], ["t", [1]], ["s", ""], ["s", "x"], ["i", 2], ["f", "5/2"], ["t", [1, 2]],
        ["m", []], ["m", [["k", 1]]]]
_c16 = C16()


def rand_filters(rng):
    fs = []
    for _ in range(rng.choice([0, 0, 0, 1, 1, 2])):
        r = rng.random()
        if r < 0.35:
            fs.append(['edge', [rng.random() < .6, rng.random() < .6, rng.choice([None, True, False]),
                                rng.random() < .5]])
        elif r < 0.5:
            fs.append(['not_from_undef'])
        elif r < 0.7:
            fs.append(['key', rng.choice(['value', 'previous', 'nokey'])])
        elif r < 0.85:
            fs.append(['const', rng.random() < 0.8])
        else:
            fs.append(['truthy_nonmapping'])
    if rng.random() < 0.45:
        op = rng.choice([
            ['add', [['extra', ["i", 7]]]], ['add', [['value', ["s", "over"]]]],
            ['add', [['etype', ["s", "x"]]]], ['copy', 'value', 'etype'],
            ['setdefault', [['value', ["i", 9]], ['z', ["i", 1]]]], ['delete', ['previous']],
            ['permit', ['value', 'source']], ['permit', []], ['rename', 'value', 'v'],
            ['copy', 'value', 'copy'], ['modify', 'value', 'succ'],
            ['modify', 'value', 'reject_falsy'], ['modify', 'previous', 'delete_truthy']])
        fs.append(['dataedit', rng.choice(['class', 'instance', 'instance', 'chainmap', 'userdict', 'inplace']), [op]])
    return fs


def as_arg(events, form):
    """the on_* argument in one of the accepted forms"""
    if not events:
        return None if form != 'list' else []
    if len(events) == 1 and form == 'single':
        return events[0]
    return list(events) if form == 'list' else tuple(events)


class C02(common.Spec):
    imports = IMPORTS
    case_type = 'c2case'
    verdict_fn = 'c2_verdict'

    def run_impl(self, cases):
        return [self._run_one(c) for c in cases]

    def _run_one(self, case):
        log = []
        raw = []        # (dest, data-with-objects) for the identity check
        values = [dec(v) for v in case['values']]
        sender = []

        class Dest(edzed.AddonPersistence, edzed.SBlock):
            # (a destination with the persistence add-on, as Input, Counter and every FSM have it: the
            # event passes through AddonPersistence.event() first)
            def init_regular(self):
                self.set_output(0)

            def _restore_state(self, state):
                pass

            def _event(self, etype, data):
                log.append(('D', int(self.name[1:]), etype, {k: enc(v) for k, v in data.items()}))
                # what the sender's output is WHILE the event is delivered ("value = the new output")
                raw.append((int(self.name[1:]), dict(data), sender[0].output if sender else edzed.UNDEF))

        class Setter(edzed.SBlock):
            def init_regular(self):
                self.set_output(values[0])

            def _event_set(self, *, value, **_data):
                self.set_output(value)

            def stop(self):
                # a last assignment made while the circuit is being stopped (a block switching itself
                # 'off'): an assignment like any other
                if len(values) % 2 == 0:
                    self.set_output(values[0])

        def build():
            dests = [Dest(f"d{i}") for i in range(4)]
            def mk(cfgs):
                objs = []
                for e in cfgs:
                    if e.get('same_as') is not None and e['same_as'] < len(objs):
                        objs.append(objs[e['same_as']])      # the very same Event object listed again
                    else:
                        # every second configuration uses a conditional event type (both branches name
                        # the same type: whatever 'value' is - or if the filters removed it - the event
                        # is delivered as 'ev')
                        objs.append(edzed.Event(dests[e['dest']],
                                                edzed.EventCond('ev', 'ev') if len(e['filters']) % 2 else 'ev',
                                                efilter=[_c16._mk_filter(f, None) for f in e['filters']]
                                                if e['filters'] else None))
                return objs
            on_out, on_every = mk(case['on_output']), mk(case['on_every'])
            kw = dict(on_output=as_arg(on_out, case['form']))
            kind = case['sender']
            if kind == 'cblock':
                drv = edzed.Input('drv', initdef=values[0])
                snd = edzed.FuncBlock('snd', func=lambda x: x, **kw).connect(drv)
            else:
                kw['on_every_output'] = as_arg(on_every, case['form'])
                if kind == 'input':
                    snd = edzed.Input('snd', initdef=values[0], **kw)
                elif kind == 'inputexp':
                    # a sender built on the FSM: every accepted 'put' re-enters the state 'valid' and
                    # assigns the output, changed or not
                    snd = edzed.InputExp('snd', initdef=values[0], duration=1000.0, expired='EXP', **kw)
                else:
                    snd = Setter('snd', **kw)
                drv = snd
            # brackets: wrap (never replace) the assignment entry point of this instance
            if kind == 'cblock':
                orig_calc, orig_eval = snd.calc_output, snd.eval_block
                last = []

                def calc():
                    v = orig_calc()
                    last[:] = [v]
                    return v

                def evalb():
                    log.append(('B', None))
                    try:
                        return orig_eval()
                    finally:
                        log[[i for i, e in enumerate(log) if e[0] == 'B'][-1]] = ('B', enc(last[0]))
                        log.append(('E',))
                snd.calc_output, snd.eval_block = calc, evalb
            else:
                orig_set = snd.set_output

                def seto(value):
                    log.append(('B', enc(value)))
                    try:
                        orig_set(value)
                    finally:
                        log.append(('E',))
                snd.set_output = seto
            sender[:] = [snd]
            return snd, drv

        async def driver(ctx, circuit, loop):
            snd, drv = ctx
            await drive.settle()
            for v in values[1:]:
                et = 'set' if case['sender'] == 'probe' else 'put'
                edzed.ExtEvent(drv, et).send(v)
                await drive.settle()
            return enc(snd.output)

        res = drive.run_circuit(build, driver)
        for exc in (res.driver_exc, res.init_exc):
            if exc is not None:
                return dict(error=repr(exc))
        # group deliveries by bracket
        assigns, groups, stray, cur = [], [], 0, None
        for e in log:
            if e[0] == 'B':
                cur = []
                assigns.append(e[1])
            elif e[0] == 'E':
                groups.append(cur)
                cur = None
            elif cur is None:
                stray += 1
            else:
                cur.append([e[1], e[3]])
        # identity chain on the dedicated unfiltered on_output event (destination 3)
        ident, prev_val = True, edzed.UNDEF
        for dest, data, out_then in raw:
            if dest == 3:
                if data['previous'] is not prev_val:
                    ident = False
                if out_then is not data['value']:
                    ident = False       # delivered before the sender's output was the new value
                prev_val = data['value']
        if case['sender'] != 'cblock' and len(assigns) < len(values):
            # every value given to a sequential sender is an output assignment ("changed or not")
            stray += len(values) - len(assigns)
        final = enc(sender[0].output) if sender else res.value     # (after the stop)
        return dict(assigns=assigns, groups=groups, stray=stray, final=final, identity=ident)

    def emit(self, case, obs):
        def cfg(e):
            return "{| ev_filters := %s; ev_dest := %s |}" % (
                clist(e['filters'], lambda f: _c16._cfilt(f, 'run')), cnat(e['dest']))
        if 'error' in obs:
            return ('{| c2_src := "snd"; c2_on_output := []; c2_on_every := []; c2_assign := []; '
                    'c2_obs := []; c2_stray := 1%nat; c2_final := VUndef; c2_identity_ok := false |}')
        try:
            groups = clist(obs['groups'], lambda g: clist(g, lambda d: cpair(cnat(d[0]), cjdata(d[1]))))
            assigns = clist(obs['assigns'], cj)
            final = cj(obs['final'])
        except common.Unrepresentable:
            groups, assigns, final = '[]', '[VUndef]', 'VUndef'
        on_every = [] if case['sender'] == 'cblock' else case['on_every']
        return ("{| c2_src := %s; c2_on_output := %s; c2_on_every := %s; c2_assign := %s;\n"
                "   c2_obs := %s; c2_stray := %s; c2_final := %s; c2_identity_ok := %s |}") % (
            cstr('snd'), clist(case['on_output'], cfg), clist(on_every, cfg), assigns, groups,
            cnat(min(obs['stray'], 100)), final, cbool(obs['identity']))

    def nontrivial(self, case, obs):
        return len(case['values']) >= 3 and (case['on_output'] or case['on_every'])

    def shrink(self, case):
        vs = case['values']
        for i in range(1, len(vs)):
            yield dict(case, values=vs[:i] + vs[i + 1:])
        for key in ('on_output', 'on_every'):
            es = case[key]
            for i in range(len(es) - (1 if key == 'on_output' else 0)):
                yield dict(case, **{key: es[:i] + es[i + 1:]})
            for i, e in enumerate(es):
                if e['filters']:
                    yield dict(case, **{key: es[:i] + [dict(e, filters=[])] + es[i + 1:]})

    def clause(self, case, obs):
        return 'sender:' + case['sender']

    def describe(self, case, obs):
        return f"{case}: observed {obs}"


def gen_cases(run):
    rng = run.rng
    cases = []
    n = 700 if run.tier == 'quick' else 18000
    for _ in range(n):
        sender = rng.choice(['input', 'probe', 'cblock', 'inputexp'])
        values = [rng.choice(POOL) for _ in range(rng.choice([1, 2, 3, 5, 8, 12, 20]))]
        if rng.random() < 0.5:      # runs of equal-but-not-identical values
            grp = rng.choice([POOL[0:3], POOL[3:6]])
            values = [rng.choice(grp + [rng.choice(POOL)]) for _ in values]
        mk = lambda: dict(filters=rand_filters(rng), dest=rng.randrange(3))
        on_output = [mk() for _ in range(rng.choice([0, 1, 2, 3]))]
        on_every = [mk() for _ in range(rng.choice([0, 0, 1, 2, 3]))]
        for lst in (on_output, on_every):
            if lst and rng.random() < 0.25:
                # an event configured twice for the same trigger (the same Event object): sent twice
                i = rng.randrange(len(lst))
                lst.append(dict(lst[i], same_as=i))
        on_output.append(dict(filters=[], dest=3))
        if any(v[0] == 'm' for v in values):
            # a data.get(k) filter would return the dict-valued item, which then REPLACES the event data
            # (C16 covers that); the filters behind it would run on data without the standard items
            for e in on_output + on_every:
                e['filters'] = [['const', True] if f[0] == 'key' else f for f in e['filters']]
        cases.append(dict(sender=sender, values=values, on_output=on_output, on_every=on_every,
                          form=rng.choice(['single', 'list', 'tuple'])))
    return cases


def check(run):
    spec = C02()
    run.rule = ("histories of 1..20 assignments over a 16-value pool (incl. dicts {} and {'k': 1}, fresh objects each time) with equal-but-not-identical "
                "members (0/False/0.0, 1/True/1.0, None, (), (1,), '', ...) incl. runs of equal values; "
                "senders: Input (put), an SBlock calling set_output directly, a FuncBlock inside the "
                "simulator loop; fan-out 0..3 events per trigger (+1 unfiltered on_output event for "
                "the identity chain) with 0..3 filters each (Edge, not_from_undef, key tests, "
                "constants, one DataEdit op), on_* arguments given as None/single/list/tuple. "
                "Observed: every delivery (destination, data) grouped by Begin/End brackets written by "
                "a wrapper around this instance's set_output/eval_block, deliveries outside brackets, "
                "object identity previous(k+1) is value(k), final output. "
                "Non-trivial = >= 3 assignments and at least one event; distinct by JSON.")
    cases = gen_cases(run)
    for c in cases:
        run.count('sender_' + c['sender'])
        run.count('nvalues=%d' % min(len(c['values']), 20))
        run.count('fanout=%d+%d' % (len(c['on_output']), len(c['on_every'])))
    res = common.standard_flow(run, spec, cases)
    check_reentrant_assignment(run)
    for c, o, ch in res:
        if 'groups' in o:
            run.count('deliveries', sum(len(g) for g in o['groups']))
            run.count('assignments', len(o['assigns']))


def check_reentrant_assignment(run):
    """'each configured event is sent once per trigger' - also when the handler of an earlier
    destination makes the sender assign its output once more (a feedback that does not pass through the
    sender's event handler): every destination of the fan-out gets one event for each of the two
    changes, the on_every_output destination one for each assignment."""
    import asyncio
    from . import vloop
    obs = dict(received=None, final=None, error=None, harness=None)

    async def main(loop):
        edzed.reset_circuit()
        circuit = edzed.get_circuit()
        got = {0: [], 1: [], 2: [], 3: []}

        class Setter(edzed.SBlock):
            def init_regular(self):
                self.set_output(0)

            def _event_set(self, *, value, **_data):
                self.set_output(value)

        class Dest(edzed.SBlock):
            def init_regular(self):
                self.set_output(0)

            def _event(self, etype, data):
                n = int(self.name[1:])
                got[n].append([data.get('previous') if data.get('previous') is not edzed.UNDEF else 'UNDEF',
                               data['value']])
                if n == 0 and data['value'] == 1:
                    snd.set_output(2)          # the feedback: the sender's output is assigned again
        dests = [Dest(f"d{i}") for i in range(4)]
        # (d0 itself only wants the value 1: the nested change is filtered out for it - an event to a block
        # that is still handling one is refused)
        snd = Setter('snd', on_output=[edzed.Event(dests[0], 'ev', efilter=lambda data: data['value'] == 1)]
                     + [edzed.Event(d, 'ev', efilter=edzed.not_from_undef) for d in dests[1:3]],
                     on_every_output=edzed.Event(dests[3], 'ev', efilter=edzed.not_from_undef))
        task = asyncio.create_task(circuit.run_forever())
        await circuit.wait_init()
        try:
            snd.event('set', value=1)
        except Exception as err:                 # noqa
            obs['error'] = repr(err)[:200]
        obs['received'] = {str(k): sorted(v, key=repr) for k, v in got.items()}
        obs['final'] = snd.output
        try:
            await circuit.shutdown()
        except BaseException:                    # noqa
            pass
    try:
        vloop.run_virtual(main, wall_limit_s=10.0)
    except BaseException as err:                 # noqa
        obs['harness'] = repr(err)[:200]
    finally:
        edzed.reset_circuit()
    run.add_case(dict(reentrant_assignment=True), True)
    run.count('reentrant_assignment')
    both = sorted([[0, 1], [1, 2]], key=repr)
    want = {'0': [[0, 1]], '1': both, '2': both, '3': both}
    ok = obs['harness'] is None and obs['error'] is None and obs['received'] == want and obs['final'] == 2
    run.add_obligation(ok)
    if not ok:
        run.violation('monitor', dict(case=dict(reentrant_assignment=True), observed=obs),
                      f"sender with on_output -> d0, d1, d2 and on_every_output -> d3; 'set' 1, and d0's handler makes the "
                      f"sender assign 2: [previous, value] pairs received per destination {obs['received']} (expected "
                      f"{want}: one event per change for everybody), final output {obs['final']!r}, error "
                      f"{obs['error']}; harness: {obs['harness']}", clause='reentrant_assignment', concrete=True)


def replay(run, path):
    _, case = common.load_replay_case(path)
    if isinstance(case, dict) and 'reentrant_assignment' in case:
        return common.directed_replay(run, path, lambda: check_reentrant_assignment(run))
    return common.std_replay(run, C02(), path)
