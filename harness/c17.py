"""C17 - Input validators: correspondence of Input / InputExp with coq/Model/Validate.v"""
from __future__ import annotations

import itertools
import edzed

from . import common, drive
from .common import clist, cbool, cpair, copt
from .vals import dec, enc, cj, strict_eq

IMPORTS = "From Verif Require Import Values Validate."
DOM = [["i", 0], ["i", 1], ["b", True], ["b", False], ["f", "1/1"], ["i", 2], ["s", "a"], ["none"],
       ["t", [1]]]


# values offered to the blocks (puts, initdef, expired, restored): the domain plus an unhashable one
VALS = DOM + [["m", [["k", 1]]]]


class SubInput(edzed.Input):
    """a trivial subclass, as an application would write it to add a method or a default"""


class MidInputExp(edzed.InputExp):
    """ditto"""


class SubInputExp(MidInputExp):
    """... and a subclass of that one: what the library class defines is inherited through every level"""


def mk_validators(t):
    kw = {}
    if t['allowed'] is not None:
        kw['allowed'] = [dec(x) for x in t['allowed']]
    if t['check'] is not None:
        acc = [dec(x) for x in t['check']]
        if t.get('check_style') == 'objects':
            # a check that answers with true / false VALUES that are not the bool singletons
            calls = itertools.count()
            kw['check'] = lambda v: ((1, 'yes', [0], 2.5) if any(strict_eq(v, x) for x in acc)
                                     else (None, 0, '', (), 0.0))[next(calls) % 4]
        else:
            kw['check'] = lambda v: any(strict_eq(v, x) for x in acc)
    if t['schema'] is not None:
        tbl = [(dec(k), r) for k, r in t['schema']]

        def schema(v):
            for k, r in tbl:
                if strict_eq(v, k):
                    if r == 'raise':
                        raise RuntimeError('schema says no')
                    return dec(r)
            raise KeyError(v)
        kw['schema'] = schema
    return kw


class C17(common.Spec):
    imports = IMPORTS
    case_type = 'vcase'
    verdict_fn = 'vverdict'

    def run_impl(self, cases):
        obs = [None] * len(cases)
        # 1. constructor outcome, each in a throw-away circuit (a block whose constructor
        #    raised stays registered in its circuit, so such a circuit is not used further)
        idx = []
        for i, c in enumerate(cases):
            edzed.reset_circuit()
            try:
                self._construct(0, c)
                idx.append(i)
            except Exception as err:
                obs[i] = dict(created=common.exc_enum(err), started=False, start=["undef"],
                              steps=[])
        edzed.reset_circuit()
        # 2. the successfully constructible ones, batched
        for k in range(0, len(idx), 30):
            grp = idx[k:k + 30]
            res = self._batch([cases[i] for i in grp])
            if res is None:         # some block of the batch prevented the start: run singly
                for i in grp:
                    r1 = self._batch([cases[i]])
                    obs[i] = r1[0] if r1 is not None else dict(created='ok', started=False,
                                                                start=["undef"], steps=[])
            else:
                for i, o in zip(grp, res):
                    obs[i] = o
        return obs

    @staticmethod
    def _construct(n, c):
        kw = mk_validators(c['tables'])
        if c['initdef'] != ["undef"]:
            kw['initdef'] = dec(c['initdef'])
        # an application's own subclass of the block is still an Input / InputExp
        cls_in, cls_exp = (SubInput, SubInputExp) if c.get('subclass') else (edzed.Input, edzed.InputExp)
        # 'allowed' is given as a list, as a set or as the key view of a dict; the application goes on
        # using (and changing) its own container afterwards: the block keeps the values it was given
        mutable = None
        if 'allowed' in kw and n % 3:
            try:
                if n % 3 == 1:
                    mutable = set(kw['allowed'])
                    kw['allowed'] = mutable
                else:
                    mutable = dict.fromkeys(kw['allowed'])
                    kw['allowed'] = mutable.keys()
            except TypeError:          # an unhashable value
                mutable = None
        try:
            if c['kind'] == 'input':
                if c['restored'] is not None:
                    kw['persistent'] = True
                return cls_in(f"b{n}", **kw)
            if c.get('restored') is not None:
                kw['persistent'] = True
            return cls_exp(f"b{n}", duration=100000, expired=dec(c['expired']), **kw)
        finally:
            if mutable is not None:
                everything = [dec(x) for x in DOM if x[0] != 't']
                mutable.clear()
                if isinstance(mutable, set):
                    mutable.update(everything)
                else:
                    mutable.update(dict.fromkeys(everything))

    def _batch(self, cases):
        obs = [None] * len(cases)
        storage = {'edzed-stop-time': 1.0}
        for n, c in enumerate(cases):
            if c['kind'] == 'input' and c['restored'] is not None:
                storage[f"<{'SubInput' if c.get('subclass') else 'Input'} 'b{n}'>"] = dec(c['restored'])
            if c['kind'] == 'inputexp' and c.get('restored') is not None:
                storage[f"<{'SubInputExp' if c.get('subclass') else 'InputExp'} 'b{n}'>"] = (
                    'valid', None, {'input': dec(c['restored'])})

        def build():
            blocks = [self._construct(n, c) for n, c in enumerate(cases)]
            edzed.Input('keepalive', initdef=0)
            return blocks

        async def driver(blocks, circuit, loop):
            for n, (blk, c) in enumerate(zip(blocks, cases)):
                if blk is None:
                    continue
                o = dict(created='ok', started=True, start=enc(blk.output), steps=[])
                for v in c['puts']:
                    try:
                        ret = edzed.ExtEvent(blk, 'put').send(dec(v))
                        ret = ret if isinstance(ret, bool) else ['other', repr(ret)]
                    except Exception as err:
                        ret = ['err', common.exc_enum(err, aborted=circuit.error is not None)]
                    o['steps'].append([ret, enc(blk.output)])
                obs[n] = o

        res = drive.run_circuit(build, driver, storage=storage)
        if res.driver_exc is not None:
            raise res.driver_exc
        if res.init_exc is not None:
            return None
        return obs

    def emit(self, case, obs):
        t = case['tables']
        tabs = "{| t_allowed := %s; t_check := %s; t_schema := %s |}" % (
            copt(t['allowed'], lambda l: clist(l, cj)), copt(t['check'], lambda l: clist(l, cj)),
            copt(t['schema'], lambda l: clist(l, lambda kr: cpair(
                cj(kr[0]), 'None' if kr[1] == 'raise' else f"(Some {cj(kr[1])})"))))
        created = 'CreatedOk' if obs['created'] == 'ok' else f"(CreateErr {obs['created']})"
        puts = case['puts'] if obs['started'] else []

        def step(s):
            ret, out = s
            if not isinstance(ret, bool):
                # an exception or a non-bool return value: cannot agree with any model step
                return cpair('false', 'VUndef')
            return cpair(cbool(ret), cj(out))
        try:
            start = cj(obs['start'])
            steps = clist(obs['steps'], step)
        except common.Unrepresentable:
            start, steps = 'VUndef', '[(false, VUndef)]'
        if case['kind'] == 'input':
            return ("VI {| i_tables := %s; i_initdef := %s; i_restored := %s; i_created := %s; "
                    "i_start := %s; i_puts := %s; i_obs := %s |}") % (
                tabs, cj(case['initdef']), copt(case['restored'], cj), created, start,
                clist(puts, cj), steps)
        return ("VE {| e_tables := %s; e_initdef := %s; e_expired := %s; e_restored := %s; "
                "e_created := %s; e_start := %s; e_puts := %s; e_obs := %s |}") % (
            tabs, cj(case['initdef']), cj(case['expired']), copt(case.get('restored'), cj), created,
            start, clist(puts, cj), steps)

    def nontrivial(self, case, obs):
        t = case['tables']
        return obs['created'] == 'ok' and len(case['puts']) >= 2 and any(
            t[k] is not None for k in ('allowed', 'check', 'schema'))

    def shrink(self, case):
        ps = case['puts']
        for i in range(len(ps)):
            yield dict(case, puts=ps[:i] + ps[i + 1:])
        for k in ('allowed', 'check', 'schema'):
            if case['tables'][k] is not None:
                yield dict(case, tables=dict(case['tables'], **{k: None}))
        if case.get('restored') is not None:
            yield dict(case, restored=None)

    def clause(self, case, obs):
        if obs['created'] != 'ok':
            return case['kind'] + ':constructor'
        return case['kind'] + (':restore' if case.get('restored') is not None else ':put')

    def describe(self, case, obs):
        return f"{case['kind']} tables={case['tables']} initdef={case['initdef']} " \
               f"restored={case.get('restored')} expired={case.get('expired')} puts={case['puts']}: " \
               f"observed {obs}"


def rand_tables(rng):
    t = dict(allowed=None, check=None, schema=None)
    if rng.random() < 0.55:
        t['allowed'] = rng.sample(DOM, rng.choice([0, 1, 2, 3, 5, 7]))
    if rng.random() < 0.5:
        t['check'] = rng.sample(DOM, rng.choice([1, 3, 5, 8]))
        if rng.random() < 0.5:
            t['check_style'] = 'objects'

    if rng.random() < 0.5:
        sch = []
        for v in DOM:
            r = rng.random()
            if r < 0.2:
                sch.append([v, 'raise'])
            elif r < 0.6:
                sch.append([v, v])
            else:
                sch.append([v, rng.choice(DOM + [["i", 7], ["s", "conv"]])])
        t['schema'] = sch
    return t


def gen_cases(run):
    rng = run.rng
    cases = []
    n = 2500 if run.tier == 'quick' else 60000
    for _ in range(n):
        t = rand_tables(rng)
        puts = [rng.choice(VALS) for _ in range(rng.choice([0, 1, 2, 3, 4, 6]))]
        if rng.random() < 0.7:
            initdef = rng.choice(VALS) if rng.random() < 0.75 else ["undef"]
            restored = rng.choice(VALS) if rng.random() < 0.4 else None
            cases.append(dict(kind='input', tables=t, initdef=initdef, restored=restored, puts=puts))
        else:
            cases.append(dict(kind='inputexp', tables=t,
                              initdef=rng.choice(VALS) if rng.random() < 0.6 else ["undef"],
                              expired=rng.choice(VALS), puts=puts,
                              restored=rng.choice(VALS) if rng.random() < 0.3 else None))
    # every presence combination of the three validators x every single put (exhaustive)
    for mask in range(8):
        t = dict(allowed=[["i", 1], ["i", 0], ["s", "a"]] if mask & 1 else None,
                 check=[["i", 1], ["b", True], ["s", "a"], ["none"]] if mask & 2 else None,
                 schema=[[v, 'raise' if v in (["b", True], ["none"]) else
                          (["i", 7] if v == ["i", 1] else v)] for v in DOM] if mask & 4 else None)
        for v in DOM:
            cases.append(dict(kind='input', tables=t, initdef=["i", 1], restored=None, puts=[v]))
            cases.append(dict(kind='input', tables=t, initdef=v, restored=None, puts=[]))
            cases.append(dict(kind='input', tables=t, initdef=["i", 1], restored=v, puts=[]))
            cases.append(dict(kind='inputexp', tables=t, initdef=["i", 1], expired=v, puts=[],
                              restored=None))
            cases.append(dict(kind='inputexp', tables=t, initdef=["i", 1], expired=["i", 1], puts=[],
                              restored=v))
    for c in cases:
        if rng.random() < 0.25:
            c['subclass'] = True
    return cases


def check(run):
    spec = C17()
    run.rule = ("random validator tables over a 9-value domain with equal-but-not-identical members "
                "(0/False, 1/True/1.0): allowed as a collection (membership by ==), check and schema "
                "as functions keyed by type and value, schema raising on some values; every presence "
                "combination x every single put / initdef / restored / expired value (exhaustive); "
                "random put sequences up to length 6 for Input (with persistent restore) and InputExp. "
                "Non-trivial = block created, >= 2 puts and at least one validator; distinct by JSON.")
    run.assumptions = ["validators are pure total functions (a validator with side effects is outside the model)",
                       "outputs are compared with Python's == (set_output keeps the old object when the new value compares equal)"]
    cases = gen_cases(run)
    for c in cases:
        run.count('kind_' + c['kind'])
        run.count('validators=' + ''.join(k[0] for k in ('allowed', 'check', 'schema')
                                          if c['tables'][k] is not None))
    res = common.standard_flow(run, spec, cases)
    for c, o, ch in res:
        run.count('created_' + str(o['created']))
        for s in o['steps']:
            run.count('put_' + str(s[0] if isinstance(s[0], bool) else 'other'))
    check_downstream_error(run)


def check_downstream_error(run, only=None):
    """'accepted -> the output becomes schema(value) and the event returns True; otherwise it returns
    False and the output stays unchanged': a ValueError raised DOWNSTREAM of an accepted put (by a filter
    of the block's own on_output event) is not a validation failure - the put was accepted, the output has
    changed, and the error is an error of the handler (it reaches the caller and stops the simulation)."""
    import asyncio
    from . import vloop
    for variant in ('plain', 'validators'):
        if only is not None and variant != only:
            continue
        obs = dict(ret=None, output=None, error=None, harness=None)

        async def main(loop, variant=variant, obs=obs):
            edzed.reset_circuit()
            circuit = edzed.get_circuit()
            sink = edzed.Input('sink', initdef=0.0)
            kw = {} if variant == 'plain' else dict(allowed=['abc', 'x', 1], check=lambda v: True, schema=lambda v: v)
            inp = edzed.Input('inp', initdef=1, on_output=edzed.Event(
                sink, 'put', efilter=(edzed.not_from_undef, lambda data: {'value': float(data['value'])})), **kw)
            task = asyncio.create_task(circuit.run_forever())
            await circuit.wait_init()
            try:
                obs['ret'] = ['returned', inp.event('put', value='abc')]
            except Exception as err:         # noqa
                obs['ret'] = ['raised', type(err).__name__]
            obs['output'] = inp.output
            await asyncio.sleep(0)
            obs['error'] = None if circuit.error is None else type(circuit.error).__name__
            try:
                await circuit.shutdown()
            except BaseException:            # noqa
                pass
        try:
            vloop.run_virtual(main, wall_limit_s=10.0)
        except BaseException as err:         # noqa
            obs['harness'] = repr(err)[:200]
        finally:
            edzed.reset_circuit()
        run.add_case(dict(downstream_error=variant), True)
        run.count('downstream_error')
        ok = (obs['harness'] is None and obs['ret'] == ['raised', 'ValueError'] and obs['output'] == 'abc'
              and obs['error'] is not None)
        run.add_obligation(ok)
        if not ok:
            run.violation('monitor', dict(case=dict(downstream_error=variant), observed=obs),
                          f"Input ({variant}) put 'abc' - a valid value - whose on_output event has a filter raising "
                          f"ValueError: event() -> {obs['ret']} (expected the ValueError), output {obs['output']!r} "
                          f"(expected 'abc'), Circuit.error={obs['error']} (expected an error: a failing handler stops "
                          f"the simulation); harness: {obs['harness']}", clause='downstream_error:' + variant,
                          concrete=True)


def replay(run, path):
    _, case = common.load_replay_case(path)
    if isinstance(case, dict) and 'downstream_error' in case:
        return common.directed_replay(run, path, lambda: check_downstream_error(run, case['downstream_error']))
    return common.std_replay(run, C17(), path)
