"""C03 - FSM engine: dynamically created FSM classes vs coq/Model/Fsm.v"""
from __future__ import annotations

import itertools

import edzed

from . import common, drive
from .common import clist, cbool, cpair, cstr, copt, cz
from .vals import enc, cj

IMPORTS = "From Verif Require Import Values Fsm.\nOpen Scope string_scope."


class ScriptError(Exception):
    pass


def enum_of(err):
    if isinstance(err, ScriptError):
        return 'EHandler'
    if isinstance(err, AssertionError):
        return 'EOther'
    return common.exc_enum(err)


def fresh(s):
    """a string equal to s that is not the same object (names that come from a file or a message)"""
    return ''.join(list(s)) if len(s) > 1 else (s + '_')[:1]


def mk_etype(e):
    return edzed.Goto(fresh(e[1])) if e[0] == 'goto' else fresh(e[1])


def c_etype(e):
    return f"(EvGoto {cstr(e[1])})" if e[0] == 'goto' else f"(EvName {cstr(e[1])})"


def c_tag(t):
    return copt(t, cz)


class C03(common.Spec):
    imports = IMPORTS
    case_type = 'c3case'
    verdict_fn = 'c3_verdict'
    shard = 100

    def run_impl(self, cases):
        return [self._run_one(c) for c in cases]

    def _run_one(self, case):
        log = []
        d, ins = case['def'], case['inst']

        writable = []

        def tagnow():
            data = edzed.fsm_event_data.get()
            try:                       # "the READ-ONLY data of the event that caused that action"
                data['scribble'] = 1
            except TypeError:
                pass
            else:
                writable.append(True)
                data.pop('scribble', None)
            return data.get('tag')

        def mk_cond(ev, result, inst):
            if ins.get('cond_objects'):
                # conditions answering with true / false VALUES that are not the bool singletons
                result = (1 if inst else 'yes') if result else (None if inst else '')
            if inst:
                def fn():
                    log.append(['cond', ev, True, tagnow()])
                    return result
            else:
                def fn(self):
                    log.append(['cond', ev, False, tagnow()])
                    return result
            return fn

        def play(fsm, script):
            for act in script:
                if act[0] == 'fail':
                    raise ScriptError('scripted')
                fsm.event(mk_etype(act[1]), **({} if act[2] is None else {'tag': act[2]}))

        holder = {}

        def mk_enter(st, script, inst):
            if inst:
                def fn():
                    log.append(['enter', st, True, tagnow()])
                    play(holder['fsm'], script)
            else:
                def fn(self):
                    log.append(['enter', st, False, tagnow()])
                    play(self, script)
            return fn

        def mk_exit(st, what, inst):
            def body(fsm):
                if what == 'fail':
                    raise ScriptError('scripted')
                if what == 'self':
                    fsm.event(d['events'][0][0], tag=-1)
            if inst:
                def fn():
                    log.append(['exit', st, True, tagnow()])
                    body(holder['fsm'])
            else:
                def fn(self):
                    log.append(['exit', st, False, tagnow()])
                    body(self)
            return fn

        ns = {'STATES': list(d['states']),
              'EVENTS': [[ev, frm, nxt] for ev, frm, nxt in d['events']],
              'TIMERS': {st: ({'none': None, 'zero': 0, 'inf': float('inf'), 'pos': 5.0}[du], mk_etype(tev))
                         for st, du, tev in d['timed']}}
        for ev, r in ins['cond_meth']:
            ns['cond_' + ev] = mk_cond(ev, r, False)
        for st, sc in ins['enter_meth']:
            ns['enter_' + st] = mk_enter(st, sc, False)
        for st, f in ins['exit_meth']:
            ns['exit_' + st] = mk_exit(st, f, False)
        keep = frozenset(ins.get('keep', ()))
        if keep:
            # calc_output() returning UNDEF = "leave the output unchanged"
            def calc_output(self):
                return edzed.UNDEF if self.state in keep else self.state
            ns['calc_output'] = calc_output
        try:
            if ins.get('subclass'):
                # the application derives its own class from the FSM class: tables, conditions and
                # actions are inherited, and what the derived class redefines wins (every second
                # callback lives in the derived class, the base class has a decoy of the same name)
                names = sorted(k for k in ns if k.split('_', 1)[0] in ('cond', 'enter', 'exit'))
                over = names[::2]
                base_ns = dict(ns)
                for k in over:
                    def decoy(self, _k=k):
                        log.append(['enter', 'DECOY_' + _k, False, None])
                        return True
                    base_ns[k] = decoy
                cls = type('GenFSM', (edzed.FSM,), base_ns)
                if len(names) % 2:
                    cls = type('MidFSM', (cls,), {})      # sometimes one more (empty) level in between
                cls = type('SubFSM', (cls,), {k: ns[k] for k in over})
            else:
                cls = type('GenFSM', (edzed.FSM,), ns)
        except Exception as err:
            return dict(class_ok=False, class_err=enum_of(err), events=[])

        class Dest(edzed.SBlock):
            def init_regular(self):
                self.set_output(0)

            def _event(self, etype, data):
                if etype == 'on_output':
                    log.append(['out', enc(data['previous']), enc(data['value'])])
                elif etype == 'on_notrans':
                    log.append(['notrans', data['event'], data['state']])
                else:
                    log.append([etype, data['state'], enc(data['value'])])

        obs = dict(class_ok=True, events=[], writable=writable)
        persistent = len(case['events']) % 3 == 0

        def build():
            dest = Dest('dest')
            stranger = edzed.Input('stranger', initdef=0)
            kw = {}
            for ev, r in ins['cond_inst']:
                kw['cond_' + ev] = mk_cond(ev, r, True)
            for st, sc in ins['enter_inst']:
                kw['enter_' + st] = mk_enter(st, sc, True)
            for st, f in ins['exit_inst']:
                kw['exit_' + st] = mk_exit(st, f, True)
            for st in ins['on_enter']:
                kw['on_enter_' + st] = edzed.Event(dest, 'onenter')
            for st in ins['on_exit']:
                kw['on_exit_' + st] = edzed.Event(dest, 'onexit')
            for st in ins.get('on_exit_bad', []):
                # a further on_exit event to a destination that does not know the event type
                bad = edzed.Event(stranger, 'nosuch')
                kw['on_exit_' + st] = (kw['on_exit_' + st], bad) if 'on_exit_' + st in kw else bad
            if ins['on_notrans']:
                kw['on_notrans'] = edzed.Event(dest, 'on_notrans')
            if persistent:
                # the state is saved after every event (sync_state): event() answers as without persistence
                kw['persistent'] = True
            fsm = cls('fsm', on_output=edzed.Event(dest, 'on_output'), **kw)
            holder['fsm'] = fsm
            return fsm

        def snapshot(fsm, circuit, res):
            st = fsm.state
            o = dict(res=res, state=None if st is edzed.UNDEF else st, out=enc(fsm.output),
                     aborted=circuit.error is not None, log=list(log))
            del log[:]
            return o

        async def driver(fsm, circuit, loop):
            obs['events'].append(snapshot(fsm, circuit, ['ok', True]))
            for e, tag in case['events']:
                if circuit.error is not None:
                    break
                try:
                    r = fsm.event(mk_etype(e), **({} if tag is None else {'tag': tag}))
                    res = ['ok', bool(r)] if isinstance(r, bool) else ['err', 'EOther']
                except Exception as err:
                    res = ['err', enum_of(err)]
                obs['events'].append(snapshot(fsm, circuit, res))

        try:
            res = drive.run_circuit(build, driver, storage={} if persistent else None)
        except Exception as err:      # constructor error of the instance
            return dict(class_ok=False, class_err=enum_of(err), events=[])
        if res.driver_exc is not None:
            raise res.driver_exc
        if res.init_exc is not None:
            err = res.error if res.error is not None else res.init_exc
            while isinstance(err, edzed.EdzedCircuitError) and 'during handling of event' in str(err) \
                    and err.__cause__ is not None:
                err = err.__cause__
            fsm = holder['fsm']
            st = fsm.state
            en = enum_of(err)
            # the start failed; the model's 'aborted' is about Circuit.abort() being called by
            # the event dispatcher, which does not happen for an unknown event type
            obs['events'] = [dict(res=['err', en], state=None if st is edzed.UNDEF else st,
                                  out=enc(fsm.output), aborted=(en != 'EUnknownEvent'), log=list(log))]
        return obs

    # ------------------------------------------------------------------ Coq side
    def emit(self, case, obs):
        d, ins = case['def'], case['inst']

        def raw_event(e):
            ev, frm, nxt = e
            if frm is None:
                f = 'None'
            else:
                lst = [x.strip() for x in frm.split('|')] if isinstance(frm, str) else list(frm)
                f = f"(Some {clist(lst, cstr)})"
            return f"({cstr(ev)}, {f}, {copt(nxt, cstr)})"

        def act(a):
            if a[0] == 'fail':
                return 'AFail'
            return f"ASelf {c_etype(a[1])} {c_tag(a[2])}"
        raw = "{| rd_states := %s; rd_timed := %s; rd_events := %s |}" % (
            clist(d['states'], cstr),
            clist(d['timed'], lambda x: cpair(cstr(x[0]), c_etype(x[2]))),
            clist(d['events'], raw_event))
        dur = {'none': 'DNone', 'zero': 'DZero', 'inf': 'DInf', 'pos': 'DPos'}
        xact = {'log': 'XLog', 'fail': 'XFail', 'self': 'XSelf'}
        inst = ("{| i_cond_inst := %s; i_cond_meth := %s; i_enter_inst := %s; i_enter_meth := %s;\n"
                "   i_exit_inst := %s; i_exit_meth := %s; i_on_enter := %s; i_on_exit := %s;\n"
                "   i_on_notrans := %s; i_dur := %s; i_keep := %s; i_on_exit_bad := %s |}") % (
            clist(ins['cond_inst'], lambda x: cpair(cstr(x[0]), cbool(x[1]))),
            clist(ins['cond_meth'], lambda x: cpair(cstr(x[0]), cbool(x[1]))),
            clist(ins['enter_inst'], lambda x: cpair(cstr(x[0]), clist(x[1], act))),
            clist(ins['enter_meth'], lambda x: cpair(cstr(x[0]), clist(x[1], act))),
            clist(ins['exit_inst'], lambda x: cpair(cstr(x[0]), xact[x[1]])),
            clist(ins['exit_meth'], lambda x: cpair(cstr(x[0]), xact[x[1]])),
            clist(ins['on_enter'], cstr), clist(ins['on_exit'], cstr), cbool(ins['on_notrans']),
            clist(d['timed'], lambda x: cpair(cstr(x[0]), dur[x[1]])),
            clist(ins.get('keep', []), cstr), clist(ins.get('on_exit_bad', []), cstr))

        def logent(e):
            k = e[0]
            if k == 'cond':
                return f"LCond {cstr(e[1])} {cbool(e[2])} {c_tag(e[3])}"
            if k == 'enter':
                return f"LEnter {cstr(e[1])} {cbool(e[2])} {c_tag(e[3])}"
            if k == 'exit':
                return f"LExit {cstr(e[1])} {cbool(e[2])} {c_tag(e[3])}"
            if k == 'onenter':
                return f"LOnEnter {cstr(e[1])} {cj(e[2])}"
            if k == 'onexit':
                return f"LOnExit {cstr(e[1])} {cj(e[2])}"
            if k == 'notrans':
                return f"LNoTrans {cstr(e[1])} {cstr(e[2])}"
            return f"LOut {cj(e[1])} {cj(e[2])}"

        def eob(o):
            r = f"Ok {cbool(o['res'][1])}" if o['res'][0] == 'ok' else f"Err {o['res'][1]}"
            return ("{| eo_res := %s; eo_state := %s; eo_out := %s; eo_aborted := %s; eo_log := %s |}"
                    % (r, copt(o['state'], cstr), cj(o['out']), cbool(o['aborted']),
                       clist(o['log'], logent)))
        default = d['states'][0] if d['states'] else (d['timed'][0][0] if d['timed'] else 'A')
        events = [[['goto', default], None]] + case['events']
        events = events[:max(1, len(obs['events']))] if obs['class_ok'] else events
        return ("{| c3_raw := %s;\n c3_inst := %s;\n c3_class_ok := %s;\n c3_events := %s;\n"
                " c3_obs := %s |}") % (
            raw, inst, cbool(obs['class_ok']),
            clist(events, lambda x: cpair(c_etype(x[0]), c_tag(x[1]))),
            clist(obs['events'], eob))

    def nontrivial(self, case, obs):
        return obs['class_ok'] and sum(len(o['log']) for o in obs['events']) >= 4

    def shrink(self, case):
        evs = case['events']
        for i in range(len(evs)):
            yield dict(case, events=evs[:i] + evs[i + 1:])
        ins = case['inst']
        for key in ('cond_inst', 'cond_meth', 'enter_inst', 'enter_meth', 'exit_inst', 'exit_meth',
                    'on_enter', 'on_exit', 'keep', 'on_exit_bad'):
            for i in range(len(ins.get(key, []))):
                yield dict(case, inst=dict(ins, **{key: ins[key][:i] + ins[key][i + 1:]}))

    def clause(self, case, obs):
        if not obs['class_ok']:
            return 'class_definition'
        for o in obs['events']:
            for e in o['log']:
                if e[0] in ('enter', 'exit') and e[3] is None and False:
                    return 'x'
        return 'engine'

    def describe(self, case, obs):
        return f"{case}: observed {obs}"


def gen_case(rng, nstates=None):
    states = ['A', 'B', 'C'][:nstates or rng.randrange(1, 4)]
    evnames = ['e', 'f'][:rng.randrange(1, 3)]
    events = []
    for ev in evnames:
        if rng.random() < 0.5:
            events.append([ev, None, rng.choice(states + [None])])
        spec = {}
        for st in states:
            if rng.random() < 0.45:
                spec[st] = rng.choice(states + [None] if rng.random() < 0.3 else states)
        # group the specific rules by target, written as 'A|B' or as a list
        by_tgt = {}
        for st, tgt in spec.items():
            by_tgt.setdefault(tgt, []).append(st)
        for tgt, froms in by_tgt.items():
            frm = ' | '.join(froms) if rng.random() < 0.5 else list(froms)
            events.append([ev, frm, tgt])
    if not events:
        events.append(['e', None, states[0]])
    timed = []
    for st in states:
        if rng.random() < 0.3:
            du = rng.choice(['zero', 'zero', 'inf', 'pos', 'none'])
            tev = ['goto', rng.choice(states)] if rng.random() < 0.5 else ['name', rng.choice(evnames)]
            if tev[0] == 'name' and tev[1] not in [e[0] for e in events]:
                tev = ['goto', states[0]]
            timed.append([st, du, tev])
    evpool = ([['name', e] for e in evnames] * 3 + [['name', 'zz']] + [['goto', s] for s in states]
              + [['goto', 'Q']])
    tagc = itertools.count(100)

    def script():
        r = rng.random()
        if r < 0.55:
            return []
        if r < 0.62:
            return [['fail']]
        if r < 0.92:
            return [['self', rng.choice(evpool[:-2] if rng.random() < 0.9 else evpool), next(tagc)]]
        return [['self', rng.choice(evpool[:-2]), next(tagc)], ['self', rng.choice(evpool[:-2]), next(tagc)]]
    used = sorted({e[0] for e in events})
    inst = dict(
        cond_inst=[[e, rng.random() < 0.7] for e in used if rng.random() < 0.3],
        cond_meth=[[e, rng.random() < 0.7] for e in used if rng.random() < 0.3],
        enter_inst=[[s, script()] for s in states if rng.random() < 0.35],
        enter_meth=[[s, script()] for s in states if rng.random() < 0.35],
        exit_inst=[[s, rng.choice(['log'] * 10 + ['fail', 'self'])] for s in states if rng.random() < 0.3],
        exit_meth=[[s, rng.choice(['log'] * 10 + ['fail', 'self'])] for s in states if rng.random() < 0.3],
        on_enter=[s for s in states if rng.random() < 0.5],
        on_exit=[s for s in states if rng.random() < 0.5],
        on_notrans=rng.random() < 0.6,
        cond_objects=rng.random() < 0.4,
        subclass=rng.random() < 0.2,
        on_exit_bad=[s for s in states if rng.random() < 0.3] if rng.random() < 0.25 else [],
        # never the initial state: the FSM must get an output at all
        keep=[s for s in states[1:] if rng.random() < 0.5] if rng.random() < 0.3 else [])
    if any(st == states[0] and sc for st, sc in inst['enter_inst'] + inst['enter_meth']) \
            or any(t[0] == states[0] and t[1] == 'zero' for t in timed):
        inst['keep'] = []      # the initialization could end in a state that leaves the output UNDEF
    seq = [[rng.choice(evpool), next(tagc)] for _ in range(rng.randrange(1, 6))]
    return dict({'def': dict(states=states, events=events, timed=timed)}, inst=inst, events=seq)


def gen_bad_class(rng):
    c = gen_case(rng)
    kind = rng.choice(['dup', 'unknown_from', 'unknown_to', 'timed_undefined'])
    d = c['def']
    if kind == 'dup':
        d['events'] = d['events'] + [list(d['events'][0])]
    elif kind == 'unknown_from':
        d['events'].append(['e', ['Z'], d['states'][0]])
    elif kind == 'unknown_to':
        d['events'].append(['e', None, 'Z']) if not any(e[0] == 'e' and e[1] is None for e in d['events']) \
            else d['events'].append(['g', None, 'Z'])
    else:
        d['timed'] = [[d['states'][0], 'inf', ['name', 'undefined_ev']]]
    return c


def check(run):
    spec = C03()
    run.rule = ("FSM classes created dynamically over 1..3 states and 1..2 events with every mix of "
                "specific ('A|B' strings or lists), any-state and forbidden rules, timed states with "
                "zero / infinite / positive / missing durations and named or Goto timed events, cond/"
                "enter/exit callbacks as methods, instance callbacks, both or none (entry actions "
                "requesting chained transitions, two of them, or raising), on_enter/on_exit/on_notrans/"
                "on_output events to a probe; event sequences of 1..5 incl. unknown events, Goto and "
                "Goto to an unknown state, every event with its own data tag; plus invalid class "
                "definitions. Observed per event: return value or exception class, state, output, "
                "Circuit.error, the complete ordered log of callbacks (with the tag visible through "
                "fsm_event_data) and probe deliveries. Non-trivial = >= 4 log entries; distinct by JSON.")
    n = 800 if run.tier == 'quick' else 30000
    cases = [gen_case(run.rng) for _ in range(n)] + [gen_bad_class(run.rng) for _ in range(n // 10)]
    for c in cases:
        run.count('nstates=%d' % len(c['def']['states']))
        run.count('ntimed=%d' % len(c['def']['timed']))
    res = common.standard_flow(run, spec, cases)
    bad = [(c, o) for c, o, ch in res if o.get('writable')]
    run.add_obligation(not bad)
    if bad:
        c, o = min(bad, key=lambda x: len(repr(x[0])))
        run.violation('monitor', dict(case=c, observed=dict(writable_event_data=len(o['writable']))),
                      "a cond/enter/exit callback could WRITE to the event data it got through fsm_event_data "
                      f"({len(o['writable'])} times): {spec.describe(c, o)[:1200]}",
                      clause='event_data_writable', concrete=True)
    for c, o, ch in res:
        run.count('class_ok_' + str(o['class_ok']))
        for e in o['events']:
            run.count('res_' + str(e['res'][1]))
            for le in e['log']:
                run.count('log_' + le[0])


def replay(run, path):
    payload, case = common.load_replay_case(path)
    if payload.get('clause') == 'event_data_writable':
        def again():
            o = C03().run_impl([case])[0] if hasattr(C03, 'run_impl') else {}
            if o.get('writable'):
                run.violation('monitor', dict(case=case, observed=dict(writable_event_data=len(o['writable']))),
                              f"a callback could write to the event data it got through fsm_event_data "
                              f"({len(o['writable'])} times)", clause='event_data_writable', concrete=True)
        return common.directed_replay(run, path, again)
    return common.std_replay(run, C03(), path)
