"""C15 - circuit finalisation: connection data of the real circuit vs coq/Model/Finalize.v"""
from __future__ import annotations

import edzed

from . import common, drive
from .common import clist, cbool, cpair, cstr, copt
from .vals import dec, enc, cj

IMPORTS = "From Verif Require Import Values Finalize.\nOpen Scope string_scope."
NAMES = ['top', 'out', 'n1', 'tmr', 'x', 'ok', 'a_b', 'not_x', 'sw', 't', 'o2', 'nn']
VALS = [["i", 0], ["i", 3], ["b", True], ["none"], ["s", "k"], ["f", "1/2"], ["t", [1]]]


def c_ref(r):
    k = r[0]
    if k == 'obj':
        return f"RObj {cstr(r[1])}"
    if k == 'name':
        return f"RName {cstr(r[1])}"
    if k == 'constobj':
        return f"RConstObj {cj(r[1])}"
    if k == 'val':
        return f"RVal {cj(r[1])}"
    return "RForeign"


def c_input(item):
    iname, spec = item
    if spec[0] == 'group':
        return cpair(cstr(iname), f"inr {clist(spec[1], c_ref)}")
    return cpair(cstr(iname), f"inl ({c_ref(spec)})")


def enc_resolved(x):
    if isinstance(x, edzed.Const):
        return ['const', enc(x.output)]
    if isinstance(x, edzed.Block):
        return ['blk', x.name]
    return ['raw', repr(x)]


def c_rres(x):
    if x[0] == 'blk':
        return f"RBlk {cstr(x[1])}"
    if x[0] == 'const':
        return f"RConst {cj(x[1])}"
    raise common.Unrepresentable(x)


def c_rinputs(items):
    def one(it):
        n, v = it
        if v[0] == 'group':
            return cpair(cstr(n), f"inr {clist(v[1], c_rres)}")
        return cpair(cstr(n), f"inl ({c_rres(v)})")
    return clist(items, one)


class C15(common.Spec):
    imports = IMPORTS
    case_type = 'fcase'
    verdict_fn = 'f_verdict'
    shard = 100

    def run_impl(self, cases):
        return [self._run_one(c) for c in cases]

    def _run_one(self, case):
        obs = dict(err=None, blocks=[], named=[], frozen=False)
        foreign = None
        if case.get('foreign'):
            edzed.reset_circuit()
            foreign = edzed.Input('foreign', initdef=0)
        edzed.reset_circuit()
        named_objs = []

        def build():
            circuit = edzed.get_circuit()
            blocks = {}
            for b in case['blocks']:
                n, k = b['name'], b['kind']
                if k == 'S':
                    blocks[n] = edzed.Input(n, initdef=0)
                elif k == 'C':
                    blocks[n] = edzed.FuncBlock(n, func=lambda *a, **kw: 0)
                else:
                    blocks[n] = edzed.Not(n)

            def py(r):
                k = r[0]
                if k == 'obj':
                    return blocks[r[1]]
                if k == 'name':
                    return ''.join(list(r[1]))      # equal to the block's name, not the same object
                if k == 'constobj':
                    return edzed.Const(dec(r[1]))
                if k == 'val':
                    return dec(r[1])
                return foreign
            for b in case['blocks']:
                if b['kind'] == 'S' or not b['inputs']:
                    continue
                args, kwargs = [], {}
                for iname, spec in b['inputs']:
                    if iname == '_':
                        args = [py(r) for r in spec[1]]
                    elif spec[0] == 'group':
                        kwargs[iname] = [py(r) for r in spec[1]]
                    else:
                        kwargs[iname] = py(spec)
                blocks[b['name']].connect(*args, **kwargs)
            # by-name references from events and filters (registration order = creation order)
            evs = []
            for n, how in case['named']:
                if how == 'event':
                    ev = edzed.Event(n, 'put')
                    named_objs.append(('event', ev))
                    evs.append(ev)
                elif how == 'ifoutput':
                    f = edzed.IfOutput(n)
                    named_objs.append(('filter', f))
                elif how == 'ifnotinit':
                    f = edzed.NotIfInitialized(n)
                    named_objs.append(('filter', f))
                elif how == 'extevent':
                    # an external event's destination given by name: looked up (and its kind checked)
                    # when the ExtEvent is created
                    named_objs.append(('event', edzed.ExtEvent(''.join(list(n)))))
                else:
                    de = edzed.DataEdit.add_output('k', n)
                    named_objs.append(('dataedit', de))
            edzed.Input('evsrc', initdef=0)
            return blocks

        def observe(circuit):
            for blk in circuit.getblocks():
                o = dict(name=blk.name, inputs=None, conf=None,
                         icon=sorted(b.name for b in getattr(blk, 'iconnections', ())),
                         ocon=sorted(b.name for b in blk.oconnections))
                if isinstance(blk, edzed.CBlock):
                    ins = []
                    for iname, ival in blk.inputs.items():
                        if isinstance(ival, tuple):
                            ins.append([iname, ['group', [enc_resolved(x) for x in ival]]])
                        else:
                            ins.append([iname, enc_resolved(ival)])
                    o['inputs'] = ins
                    try:
                        conf = blk.get_conf().get('inputs')
                    except Exception as err:       # unresolved input left behind: reported as a wrong conf
                        conf = {'get_conf_raised': type(err).__name__}
                    if conf is not None:
                        o['conf'] = [[k, ['group', [['blk', x] for x in v]] if isinstance(v, tuple)
                                      else ['blk', v]] for k, v in conf.items()]
                    try:
                        o['sig'] = {k: v for k, v in blk.input_signature().items()}
                    except Exception:
                        o['sig'] = None
                obs['blocks'].append(o)
            for (n, how), (kind, obj) in zip(case['named'], named_objs):
                try:
                    if kind == 'event':
                        got = obj.dest
                    elif kind == 'filter':
                        got = obj._ctrl_blk
                    else:
                        got = obj._editlist[0].__closure__
                        got = [c.cell_contents for c in got if hasattr(c.cell_contents, 'block')][0].block
                    obs['named'].append([n, how, ['ok', got.name] if isinstance(got, edzed.Block)
                                         else ['err', 'EInvalidState']])
                except Exception as err:
                    obs['named'].append([n, how, ['err', common.exc_enum(err)]])
            frozen = []
            for attempt in (lambda: edzed.Input('late_block', initdef=0),
                            lambda: edzed.FuncBlock('late2', func=len),
                            # blocks with automatic / reserved names are blocks as well
                            lambda: edzed.Input(None, initdef=0),
                            lambda: edzed.Not(None),
                            lambda: edzed.Event('evsrc', 'put', repeat=1),
                            lambda: circuit.findblock('spare').connect(1),
                            lambda: circuit.set_persistent_data({}),
                            lambda: circuit.set_persistent_data(None)):
                try:
                    attempt()
                    frozen.append(False)
                except edzed.EdzedInvalidState:
                    frozen.append(True)
                except Exception:
                    frozen.append(False)
            obs['frozen'] = all(frozen)

        try:
            if case['mode'] == 'finalize':
                built = False
                try:
                    build()
                    built = True
                    circuit = edzed.get_circuit()
                    circuit.finalize()
                except Exception as err:
                    obs['err'] = common.exc_enum(err)
                    if case.get('retry') and built:
                        # a second attempt on the same circuit must not succeed either: the
                        # references are as unknown / as wrong as before
                        try:
                            edzed.get_circuit().finalize()
                        except Exception:      # noqa
                            pass
                        else:
                            obs['err'] = None
                            obs['retry_succeeded'] = True
                            observe(edzed.get_circuit())
                else:
                    observe(circuit)
            else:
                async def driver(ctx, circuit, loop):
                    observe(circuit)
                try:
                    res = drive.run_circuit(build, driver)
                except Exception as err:       # construction error inside build()
                    obs['err'] = common.exc_enum(err)
                else:
                    if res.driver_exc is not None:
                        raise res.driver_exc
                    if res.init_exc is not None:
                        e = res.error if res.error is not None else res.init_exc
                        obs['err'] = common.exc_enum(e)
        finally:
            edzed.reset_circuit()
        return obs

    def emit(self, case, obs):
        def bdef(b):
            kind = {'S': 'KS', 'C': 'KC', 'N': 'KNot'}[b['kind']]
            return "{| bd_name := %s; bd_kind := %s; bd_inputs := %s |}" % (
                cstr(b['name']), kind, clist(b['inputs'], c_input))
        blocks = list(case['blocks']) + [dict(name='evsrc', kind='S', inputs=[])]
        need = {'event': 'NeedS', 'ifnotinit': 'NeedS', 'extevent': 'NeedS'}

        def bob(o):
            try:
                ins = copt(o['inputs'], c_rinputs)
            except common.Unrepresentable:
                ins = 'Some [("unresolved", inl (RBlk "?"))]'
            sig = o.get('sig')
            csig = 'None' if sig is None else "(Some %s)" % clist(
                list(sig.items()), lambda kv: cpair(cstr(kv[0]), copt(kv[1], common.cnat)))
            return ("{| bo_name := %s; bo_inputs := %s; bo_conf := %s; bo_icon := %s; bo_ocon := %s; "
                    "bo_sig := %s |}"
                    % (cstr(o['name']), ins, copt(o['conf'], c_rinputs), clist(o['icon'], cstr),
                       clist(o['ocon'], cstr), csig))

        def nm(x):
            n, how, r = x
            rr = f"Ok {cstr(r[1])}" if r[0] == 'ok' else f"Err {r[1]}"
            return f"({cstr(n)}, {need.get(how, 'NeedAny')}, {rr})"
        o = "{| fo_err := %s; fo_blocks := %s; fo_named := %s; fo_frozen := %s |}" % (
            copt(obs['err'], str), clist(obs['blocks'], bob), clist(obs['named'], nm),
            cbool(obs['frozen']))
        return "{| fc_blocks := %s;\n fc_named := %s;\n fc_obs := %s |}" % (
            clist(blocks, bdef),
            clist(case['named'], lambda x: f"({cstr(x[0])}, {need.get(x[1], 'NeedAny')})"), o)

    def nontrivial(self, case, obs):
        return sum(len(b['inputs']) for b in case['blocks']) >= 2

    def shrink(self, case):
        nm = case['named']
        for i in range(len(nm)):
            yield dict(case, named=nm[:i] + nm[i + 1:])
        bs = case['blocks']
        for i, b in enumerate(bs):
            for j in range(len(b['inputs'])):
                nb = dict(b, inputs=b['inputs'][:j] + b['inputs'][j + 1:])
                yield dict(case, blocks=bs[:i] + [nb] + bs[i + 1:])

    def clause(self, case, obs):
        if obs['err'] is None and any(r[2][0] != 'ok' for r in obs['named']):
            return 'named_reference_unresolved:' + case['mode']
        if obs['err'] is None and not obs['frozen']:
            return 'not_frozen'
        return 'connections:' + case['mode']

    def describe(self, case, obs):
        return f"{case}: observed {obs}"


def gen_case(rng, bad=False):
    n = rng.randrange(2, 8)
    names = rng.sample(NAMES, n)
    blocks = []
    kinds = {}
    for nm in names:
        k = rng.choice(['S', 'S', 'C', 'C', 'C', 'N'])
        kinds[nm] = k
        blocks.append(dict(name=nm, kind=k, inputs=[]))
    blocks.append(dict(name='spare', kind='C', inputs=[]))
    if not any(k == 'S' for k in kinds.values()):
        kinds[names[0]] = 'S'
        blocks[0]['kind'] = 'S'

    def ref():
        r = rng.random()
        tgt = rng.choice(avail)
        if r < 0.3:
            return ['obj', tgt]
        if r < 0.55:
            return ['name', tgt]
        if r < 0.75:
            return ['name', '_not_' + tgt]
        if r < 0.85:
            return ['constobj', rng.choice(VALS)]
        if r < 0.97:
            return ['val', rng.choice([v for v in VALS if v[0] not in ('t', 's')])]   # plain tuples and strings are not constants
        return ['name', '_ctrl']
    avail = [names[0]]
    if kinds[names[0]] != 'S':
        kinds[names[0]] = 'S'
        blocks[0]['kind'] = 'S'
    for b in blocks[1:-1]:
        if b['kind'] == 'N':
            b['inputs'] = [['_', ['group', [ref()]]]]
        elif b['kind'] == 'C':
            ins = []
            if rng.random() < 0.7:
                ins.append(['_', ['group', [ref() for _ in range(rng.randrange(1, 4))]]])
            for iname in rng.sample(['a', 'b', 'g', 'h'], rng.choice([0, 1, 2])):
                if iname in ('g', 'h'):
                    ins.append([iname, ['group', [ref() for _ in range(rng.randrange(0, 4))]]])
                else:
                    ins.append([iname, ref()])
            if not ins:
                ins.append(['_', ['group', [ref()]]])
            b['inputs'] = ins
        avail.append(b['name'])     # only earlier blocks are referenced: the wiring is acyclic
    snames = [nm for nm in names if kinds[nm] == 'S']
    named = []
    for _ in range(rng.choice([0, 1, 2, 3])):
        how = rng.choice(['event', 'ifoutput', 'ifnotinit', 'add_output', 'extevent'])
        if how in ('event', 'ifnotinit', 'extevent'):
            tgt = rng.choice(snames + (['_ctrl'] if how == 'event' else []))
        else:
            tgt = rng.choice(names + ['_not_' + rng.choice(names)])
        named.append([tgt, how])
    case = dict(blocks=blocks, named=named, mode=rng.choice(['finalize', 'start']), foreign=False)
    if case['mode'] == 'finalize' and rng.random() < 0.5:
        case['retry'] = True
    if bad:
        kind = rng.choice(['unknown', 'foreign', 'wrongkind', 'not_unknown', 'dunder'])
        cbs = [b for b in blocks[:-1] if b['kind'] != 'S']
        if kind == 'wrongkind' and any(kinds[x] != 'S' for x in names):
            if rng.random() < 0.4:
                # the automatically created inverter '_not_NAME' is a combinational block as well
                named.append(['_not_' + rng.choice(names), rng.choice(['event', 'ifnotinit'])])
            else:
                named.append([rng.choice([x for x in names if kinds[x] != 'S']), rng.choice(['event', 'ifnotinit', 'extevent'])])
        elif cbs:
            b = rng.choice(cbs)
            r = {'unknown': ['name', 'nosuch'], 'foreign': ['foreign'],
                 'not_unknown': ['name', '_not_nosuch'], 'dunder': ['name', '_not__x'],
                 'wrongkind': ['name', 'nosuch']}[kind]
            if kind == 'foreign':
                case['foreign'] = True
            for inp in b['inputs']:
                if inp[1][0] == 'group':
                    if inp[1][1]:
                        inp[1][1][0] = r
                        break
                else:
                    inp[1] = r
                    break
    return case


def check(run):
    spec = C15()
    run.rule = ("random connection specifications over 2..7 blocks (names incl. ones starting with "
                "n/o/t such as 'top','out','n1','not_x'; Inputs, FuncBlocks, user-created Not blocks) "
                "mixing every reference style - block object, name, '_not_NAME' shortcut to S- and "
                "C-blocks (repeated), Const object, plain constant, '_ctrl' - as positional group, "
                "named single and named group inputs of size 0..3; events, IfOutput, NotIfInitialized "
                "and DataEdit.add_output given by name; one generator per class of invalid reference "
                "(unknown name, foreign block, wrong kind, inverter of an unknown block, '_not__x'); "
                "observed after an explicit Circuit.finalize() and after a normal start: inputs, "
                "iconnections, oconnections, get_conf()['inputs'], resolved names, refusal of late "
                "addblock/connect/set_persistent_data. Non-trivial = >= 2 inputs; distinct by JSON.")
    n = 500 if run.tier == 'quick' else 15000
    cases = [gen_case(run.rng) for _ in range(n)] + [gen_case(run.rng, bad=True) for _ in range(n // 4)]
    for c in cases:
        run.count('mode_' + c['mode'])
        run.count('named=%d' % len(c['named']))
    res = common.standard_flow(run, spec, cases)
    for c, o, ch in res:
        run.count('err_' + str(o['err']))
    check_connect_shapes(run)
    check_start_shapes(run)
    check_duplicate_names(run)


# wrongly shaped inputs: what connect() itself must refuse, and what it must accept and store
SHAPES = [
    ('kw_underscore_with_group', lambda f, a, b: f.connect(a, b, _=a), ValueError),
    ('kw_underscore_only', lambda f, a, b: f.connect(_=a), ValueError),
    ('kw_underscore_group', lambda f, a, b: f.connect(_=[a, b]), ValueError),
    ('nothing', lambda f, a, b: f.connect(), ValueError),
    ('positional_list', lambda f, a, b: f.connect([a, b]), ValueError),
    ('positional_tuple', lambda f, a, b: f.connect(a, (a, b)), ValueError),
    ('twice', lambda f, a, b: f.connect(a).connect(b), 'EdzedInvalidState'),
    ('twice_kw', lambda f, a, b: f.connect(x=a).connect(y=b), 'EdzedInvalidState'),
    ('ok_group_and_names', lambda f, a, b: f.connect(a, b, x=a, g=[a, b], e=[]),
     {'_': ['a', 'b'], 'x': 'a', 'g': ['a', 'b'], 'e': []}),
    ('ok_string_is_a_name', lambda f, a, b: f.connect('a', x='b'), {'_': ['a'], 'x': 'b'}),
    # every kind of sequence is a group: tuples, ranges of constants, iterators and generators
    ('ok_tuple_group', lambda f, a, b: f.connect(g=(a, b)), {'g': ['a', 'b']}),
    ('ok_iterator_group', lambda f, a, b: f.connect(g=iter([a, b])), {'g': ['a', 'b']}),
    ('ok_generator_group', lambda f, a, b: f.connect(a, g=(x for x in (b, a, b))), {'_': ['a'], 'g': ['b', 'a', 'b']}),
    ('ok_single_block_by_kw', lambda f, a, b: f.connect(x=b), {'x': 'b'}),
]


def check_connect_shapes(run, only=None):
    """'wrongly shaped inputs make construction or the start fail': the shapes connect() refuses at
    once, and - as the positive control - what it stores for well-formed calls."""
    for name, call, expect in SHAPES:
        if only is not None and name != only:
            continue
        edzed.reset_circuit()
        obs = dict(raised=None, inputs=None)
        try:
            a, b = edzed.Input('a', initdef=0), edzed.Input('b', initdef=1)
            f = edzed.FuncBlock('f', func=lambda *args, **kw: 0)
            try:
                call(f, a, b)
            except Exception as err:       # noqa
                obs['raised'] = type(err).__name__
            obs['inputs'] = {k: ([getattr(x, 'name', x) for x in v] if isinstance(v, tuple)
                                 else getattr(v, 'name', v)) for k, v in f.inputs.items()}
        finally:
            edzed.reset_circuit()
        run.add_case(dict(connect_shape=name), True)
        run.count('connect_shape')
        if isinstance(expect, dict):
            ok = obs['raised'] is None and obs['inputs'] == expect
        else:
            ok = obs['raised'] == (expect if isinstance(expect, str) else expect.__name__)
        run.add_obligation(ok)
        if not ok:
            run.violation('monitor', dict(case=dict(connect_shape=name), observed=obs),
                          f"connect() call '{name}': expected "
                          f"{'acceptance with inputs ' + str(expect) if isinstance(expect, dict) else getattr(expect, '__name__', expect)}, observed "
                          f"exception {obs['raised']} and stored inputs {obs['inputs']}",
                          clause='connect_shape:' + name, concrete=True)


def check_duplicate_names(run, only=None):
    """'duplicate names ... make construction or the start fail with an error': a second block of a
    name that exists already - given explicitly or generated automatically (two classes of the same
    class name created without a name) - is refused, and the circuit keeps the first one."""
    def same_named_classes():
        def mk():
            class Scale(edzed.FuncBlock):
                pass
            return Scale
        return mk(), mk()

    def explicit_same_class():
        return edzed.Input('dup', initdef=0), (lambda: edzed.Input('dup', initdef=1))

    def explicit_other_class():
        return edzed.Input('dup', initdef=0), (lambda: edzed.Not('dup'))

    def automatic_same_class_name():
        a, b = same_named_classes()
        return a(None, func=lambda x: x), (lambda: b(None, func=lambda x: x))

    def automatic_same_class_name_sblocks():
        def mk():
            class Store(edzed.Input):
                pass
            return Store
        a, b = mk(), mk()
        return a(None, initdef=0), (lambda: b(None, initdef=1))
    for name, scenario in (('explicit_same_class', explicit_same_class), ('explicit_other_class', explicit_other_class),
                           ('automatic_same_class_name', automatic_same_class_name),
                           ('automatic_same_class_name_sblocks', automatic_same_class_name_sblocks)):
        if only is not None and name != only:
            continue
        obs = dict(second=None, kept_first=None, count=None, harness=None)
        edzed.reset_circuit()
        try:
            circuit = edzed.get_circuit()
            first, second = scenario()
            try:
                blk = second()
                obs['second'] = ['created', blk.name]
            except Exception as err:       # noqa
                obs['second'] = ['refused', type(err).__name__]
            found = [b for b in circuit.getblocks() if b.name == first.name]
            obs['count'] = len(list(circuit.getblocks()))
            obs['kept_first'] = len(found) == 1 and found[0] is first
        except BaseException as err:       # noqa
            obs['harness'] = repr(err)[:200]
        finally:
            edzed.reset_circuit()
        run.add_case(dict(duplicate_name=name), True)
        run.count('duplicate_name')
        ok = (obs['harness'] is None and obs['second'] is not None and obs['second'][0] == 'refused'
              and obs['kept_first'] is True and obs['count'] == 1)
        run.add_obligation(ok)
        if not ok:
            run.violation('monitor', dict(case=dict(duplicate_name=name), observed=obs),
                          f"second block with the name of an existing one ({name}): {obs['second']} (expected "
                          f"'refused'), the circuit still holds exactly the first block: {obs['kept_first']} "
                          f"({obs['count']} block(s)); harness: {obs['harness']}",
                          clause='duplicate_name:' + name, concrete=True)


def _start_shape_cases():
    exps = [None, 0, 1, 2, (1, None), (None, 1), (0, 2)]
    vals = [None, 0, 1, 2, 3]
    out = []
    for exp in exps:
        for val in vals:
            out.append((f"x_{exp}_{val}".replace(' ', ''), {'x': exp, 'y': None}, {'x': val, 'y': None}))
    out.append(('missing', {'x': None, 'y': None}, {'x': None}))
    out.append(('extra', {'x': None}, {'x': None, 'y': 1}))
    out.append(('unnamed_group_as_single', {'_': None}, {'_': 1}))
    out.append(('unnamed_group_1', {'_': 1}, {'_': 1}))
    out.append(('unnamed_group_2_for_1', {'_': 1}, {'_': 2}))
    out.append(('three_names', {'a': (2, None), 'b': 0, 'c': None}, {'c': None, 'a': 3, 'b': 0}))
    out.append(('three_names_one_short', {'a': (2, None), 'b': 0, 'c': None}, {'c': None, 'a': 1, 'b': 0}))
    # the library's own blocks
    out.append(('lib_not_1', 'Not', {'_': 1}))
    out.append(('lib_not_2', 'Not', {'_': 2}))
    out.append(('lib_override_ok', 'Override', {'input': None, 'override': None}))
    out.append(('lib_override_empty_group', 'Override', {'input': 0, 'override': None}))
    out.append(('lib_override_group1', 'Override', {'input': None, 'override': 1}))
    out.append(('lib_override_missing', 'Override', {'input': None}))
    return out


LIB_SIGS = {'Not': {'_': 1}, 'Override': {'input': None, 'override': None}}


def _c_expect(e):
    if e is None:
        return 'ExSingle'
    if isinstance(e, int):
        return f"ExCount {common.cnat(e)}"
    return f"ExRange {copt(e[0], common.cnat)} {copt(e[1], common.cnat)}"


class C15Sig(common.Spec):
    """check_signature(): the declared input shapes against the connected ones; model Signature.v"""
    imports = "From Verif Require Import Values Signature."
    case_type = 'sigcase'
    verdict_fn = 'sig_verdict'
    shard = 100
    table = {name: (esig, shape) for name, esig, shape in _start_shape_cases()}

    def run_impl(self, cases):
        return [self._run_one(c) for c in cases]

    def _run_one(self, case):
        import asyncio
        from . import vloop
        esig, shape = self.table[case['start_shape']]
        obs = dict(started=None, error=None)
        lib = esig if isinstance(esig, str) else None

        async def main(loop):
            edzed.reset_circuit()
            circuit = edzed.get_circuit()
            src = edzed.Input('src', initdef=False)

            class Sig(edzed.CBlock):
                def start(self):
                    super().start()
                    self.check_signature(esig)

                def calc_output(self):
                    return 0
            blk = Sig('blk') if lib is None else getattr(edzed, lib)('blk')
            args, kwargs = [], {}
            for iname, val in shape.items():
                v = src if val is None else [src] * val
                if iname == '_':
                    args = list(v)
                else:
                    kwargs[iname] = v
            blk.connect(*args, **kwargs)
            asyncio.create_task(circuit.run_forever())
            try:
                await circuit.wait_init()
                obs['started'] = True
            except Exception as err:             # noqa
                obs['started'] = False
                obs['error'] = type(circuit.error or err).__name__
            try:
                await circuit.shutdown()
            except BaseException:                # noqa
                pass
        try:
            vloop.run_virtual(main, wall_limit_s=10.0)
        except BaseException as err:             # noqa
            raise common.HarnessProblem(f"start-shape case {case}: {err!r}") from err
        finally:
            edzed.reset_circuit()
        return obs

    def emit(self, case, obs):
        esig, shape = self.table[case['start_shape']]
        if isinstance(esig, str):
            esig = LIB_SIGS[esig]
        exp = clist(list(esig.items()), lambda kv: cpair(cstr(kv[0]), _c_expect(kv[1])))
        shp = clist(list(shape.items()), lambda kv: cpair(cstr(kv[0]), copt(kv[1], common.cnat)))
        return f"{{| sc_exp := {exp}; sc_shape := {shp}; sc_started := {cbool(obs['started'] is True)} |}}"

    def nontrivial(self, case, obs):
        return True

    def clause(self, case, obs):
        return 'start_shape:' + case['start_shape']

    def describe(self, case, obs):
        esig, shape = self.table[case['start_shape']]
        return (f"block expecting inputs {LIB_SIGS[esig] if isinstance(esig, str) else esig} connected with the "
                f"shape {shape} (None = single input, n = group of n; expectation None = single, n = exactly n, "
                f"(min, max) = bounds): started={obs['started']}, error {obs['error']} - the model "
                f"(Signature.sig_ok) says the opposite")


def check_start_shapes(run, only=None):
    """'wrongly shaped inputs make ... the start fail': a block that declares its input signature
    (check_signature() from start()) starts iff the connected shape matches it (model Signature.v,
    theorems C15_signature_*); otherwise the simulation does not start. Exhaustive over expected
    None / n / (min, max) x actual single / group of 0..3, plus names missing / unexpected and the
    library's Not and Override."""
    cases = [dict(start_shape=name) for name, _, _ in _start_shape_cases() if only is None or name == only]
    run.count('start_shape', len(cases))
    return common.standard_flow(run, C15Sig(), cases)


def replay(run, path):
    _, case = common.load_replay_case(path)
    if isinstance(case, dict) and 'connect_shape' in case:
        return common.directed_replay(run, path, lambda: check_connect_shapes(run, case['connect_shape']))
    if isinstance(case, dict) and 'duplicate_name' in case:
        return common.directed_replay(run, path, lambda: check_duplicate_names(run, case['duplicate_name']))
    if isinstance(case, dict) and 'start_shape' in case:
        return common.directed_replay(run, path, lambda: check_start_shapes(run, case['start_shape']))
    return common.std_replay(run, C15(), path)
