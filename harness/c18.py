"""C18 - Repeat blocks on the virtual clock vs coq/Model/Repeat.v"""
from __future__ import annotations

import asyncio

import edzed

from . import common, vloop
from .common import clist, cbool, cpair, cz, cnat, copt

IMPORTS = "From Verif Require Import Values Repeat."


class C18(common.Spec):
    imports = IMPORTS
    case_type = 'list rcase'
    verdict_fn = 'r_verdict'
    shard = 150

    def run_impl(self, cases):
        return [self._run_one(c) for c in cases]

    def _run_one(self, case):
        """returns, per Repeat block of the scenario, its input steps, its deliveries, its output"""
        interval_us = case['interval_us']
        obs = dict(blocks=[], error=None)
        logs = {}          # block name -> list of steps

        async def main(loop):
            edzed.reset_circuit()
            circuit = edzed.get_circuit()
            delivered = []          # (time, etype, data, seq) at the final destination
            import itertools
            seqno = itertools.count()

            class Dest(edzed.SBlock):
                def init_regular(self):
                    self.set_output(0)

                def _event(self, etype, data):
                    delivered.append((loop.vt_us, etype, dict(data), next(seqno)))
            dest = Dest('dest')
            holder = {}

            class Early(edzed.AddonMainTask, edzed.SBlock):
                """created before the Repeat blocks; the first step of its main task - before any other
                task of the circuit has run - sends the first event"""
                def init_regular(self):
                    self.set_output(0)

                async def _maintask(self):
                    if 'ev' in holder:
                        holder['ev'].send(self, tag=900, extra='x900')
                    await asyncio.Event().wait()
            if len(case['events']) % 3 == 0:
                Early('early')
            src = edzed.Input('src', initdef=0)
            # an event type equal to the configured one but not the same string object (a type
            # that comes from a configuration file or a message)
            fresh = lambda s: ''.join(list(s))
            interval = interval_us / 1e6
            if case['implicit']:
                # (with an event filter: what the filter rejects never reaches the implicit Repeat block)
                ev = edzed.Event(dest, fresh('ev'), repeat=interval, count=case['count'],
                                 efilter=lambda data: data.get('tag') != 901)
                rblocks = [b for b in circuit.getblocks(edzed.Repeat)]
            else:
                r_last = edzed.Repeat('r_last', dest=dest, etype='ev', interval=interval, count=case['count'])
                rblocks = [r_last]
                if case['chain']:
                    r_first = edzed.Repeat('r_first', dest=r_last, etype='ev',
                                           interval=case['interval2_us'] / 1e6, count=case['count2'])
                    rblocks = [r_first, r_last]
                ev = edzed.Event(rblocks[0], fresh('ev'))
            holder['ev'] = ev
            # what every Repeat block receives (wrapper around the instance's event entry point)
            inputs = {b.name: [] for b in rblocks}
            for b in rblocks:
                def wrapped(etype, /, _orig=b.event, _b=b, **data):
                    inputs[_b.name].append((loop.vt_us, etype, dict(data), next(seqno)))
                    return _orig(etype, **data)
                b.event = wrapped
            task = asyncio.create_task(circuit.run_forever())
            try:
                await circuit.wait_init()
            except Exception as err:
                obs['error'] = common.exc_enum(circuit.error or err)
                return
            if case['implicit']:
                try:
                    if ev.send(src, tag=901, extra='x901') is not False:
                        obs['error'] = 'EFilteredEventAccepted'
                except Exception as err:             # noqa
                    obs['error'] = common.exc_enum(err)
                if any(d.get('tag') == 901 for lst in inputs.values() for _, _, d, _ in lst):
                    obs['error'] = 'EFilteredEventDelivered'
            for t_us, etype, tag in case['events']:
                delay = (t_us - loop.vt_us) / 1e6
                if delay > 0:
                    await asyncio.sleep(delay)
                if circuit.error is not None:
                    break
                try:
                    if etype == 'ev' and tag % 5 == 4:
                        # delivered directly, without a 'source' item
                        rblocks[0].event(fresh('ev'), tag=tag, extra='x%d' % tag)
                    elif etype == 'ev':
                        if tag % 3 == 0:
                            # an event that already carries an (unrelated) orig_source item
                            ev.send(src, tag=tag, extra='x%d' % tag, orig_source='stale')
                        else:
                            ev.send(src, tag=tag, extra='x%d' % tag)
                    else:
                        rblocks[0].event(etype, tag=tag, source='someone')
                except Exception as err:
                    obs['error'] = common.exc_enum(err)
                    break
            delay = (case['end_us'] - loop.vt_us) / 1e6
            if delay > 0 and circuit.error is None:
                await asyncio.sleep(delay)
            for _ in range(5):          # let everything due in this instant happen
                await asyncio.sleep(0)
            t_stop = None
            outputs = {b.name: b.output for b in rblocks}
            if case['stop'] and circuit.error is None:
                t_stop = loop.vt_us
                try:
                    await circuit.shutdown()
                except BaseException:
                    pass
                await asyncio.sleep(10 * interval + 1)
            else:
                task.cancel()
                try:
                    await task
                except BaseException:
                    pass
            if circuit.error is not None and not isinstance(circuit.error, asyncio.CancelledError):
                obs['error'] = obs['error'] or common.exc_enum(circuit.error)
            t_end = loop.vt_us
            # per block: what it received and what its destination received
            for k, b in enumerate(rblocks):
                out_log = delivered if k == len(rblocks) - 1 else inputs[rblocks[k + 1].name]
                steps = []
                for t, et, data, sq in inputs[b.name]:
                    steps.append((sq, 0, ['recv', t, data.get('tag'), data.get('repeat'), et == 'ev',
                                          data.get('source')]))
                data_ok = True
                # the sender of each received event of the configured type, by tag
                sender_of = {data.get('tag'): data.get('source') for _t, et, data, _sq in inputs[b.name] if et == 'ev'}
                for t, et, data, sq in out_log:
                    rep = data.get('repeat')
                    steps.append((sq, 1, ['out', t, data.get('tag'), rep]))
                    if data.get('source') != b.name or 'orig_source' not in data \
                            or data.get('orig_source') != sender_of.get(data.get('tag'), '?') \
                            or data.get('extra') != 'x%d' % data.get('tag') or et != 'ev':
                        data_ok = False
                # order: by time; at one instant the order of arrival vs. copy is taken from the logs:
                # merge using the global sequence numbers
                obs['blocks'].append(dict(name=b.name, steps=steps, data_ok=data_ok,
                                          output=outputs[b.name], stop=t_stop, end=t_end))

        seq = []
        try:
            vloop.run_virtual(main, wall_limit_s=8.0)
        except vloop.HarnessTimeout:
            obs['error'] = 'HANG'
        except Exception as err:
            obs['error'] = repr(err)
        finally:
            edzed.reset_circuit()
        return obs

    def emit(self, case, obs):
        if obs['error'] is not None or not obs['blocks']:
            bad = ("{| rk_cfg := {| rc_interval := 1; rc_count := None |}; rk_steps := [RResend 0 0 0%nat]; "
                   "rk_obs := {| ro_end := 0; ro_output := 0; ro_data_ok := true |} |}")
            return f"[{bad}]"
        out = []
        for k, b in enumerate(obs['blocks']):
            if case['chain'] and k == 0:
                interval, count = case['interval2_us'], case['count2']
            else:
                interval, count = case['interval_us'], case['count']
            # a combined, time-ordered step list: received events and delivered copies.
            # within one instant: deliveries with repeat=0 directly follow their 'recv'
            ordered = sorted(b['steps'], key=lambda x: x[0])
            steps = []
            i = 0
            leftover_fwd = 0
            while i < len(ordered):
                e = ordered[i][2]
                if e[0] == 'recv':
                    forwarded = False
                    # the synchronous forward (repeat=0) directly follows the arrival
                    if i + 1 < len(ordered):
                        nx = ordered[i + 1][2]
                        if nx[0] == 'out' and nx[3] == 0 and nx[2] == e[2] and nx[1] == e[1]:
                            forwarded = True
                            i += 1
                    steps.append(f"RRecv {cz(e[1])} {cz(e[2] if e[2] is not None else -1)} "
                                 f"{cbool(e[4])} {cbool(forwarded)}")
                elif e[3] == 0:
                    leftover_fwd += 1
                else:
                    steps.append(f"RResend {cz(e[1])} {cz(e[2] if e[2] is not None else -1)} "
                                 f"{cnat(min(int(e[3]), 4000))}")
                i += 1
            if b['stop'] is not None:
                # the stop takes effect at its time: place it before everything later
                pos = len(steps)
                for j, st in enumerate(steps):
                    tt = int(st.split()[1].strip('()%Z'))
                    if tt > b['stop']:
                        pos = j
                        break
                steps.insert(pos, f"RStop {cz(b['stop'])}")
            if leftover_fwd:
                steps.append("RResend 0 0 0%nat")      # a forwarded copy nobody sent: never accepted
            out.append("{| rk_cfg := {| rc_interval := %s; rc_count := %s |};\n rk_steps := %s;\n"
                       " rk_obs := {| ro_end := %s; ro_output := %s; ro_data_ok := %s |} |}" % (
                           cz(interval), copt(count, cnat), clist(steps[:600]), cz(b['end']),
                           cz(int(b['output'])), cbool(b['data_ok'])))
        return clist(out)

    def nontrivial(self, case, obs):
        return sum(len(b['steps']) for b in obs['blocks']) >= 4

    def shrink(self, case):
        evs = case['events']
        for i in range(len(evs)):
            yield dict(case, events=evs[:i] + evs[i + 1:])
        if case['chain']:
            yield dict(case, chain=False)
        if case['stop']:
            yield dict(case, stop=False)

    def clause(self, case, obs):
        if obs['error'] is not None:
            return 'error:' + ('chain' if case['chain'] else 'single')
        return 'schedule:' + ('chain' if case['chain'] else ('implicit' if case['implicit'] else 'explicit'))

    def describe(self, case, obs):
        return f"{case}: observed {str(obs)[:1500]}"


def gen_case(rng):
    interval = rng.choice([100_000, 200_000, 250_000])
    count = rng.choice([None, 0, 1, 3])
    implicit = rng.random() < 0.3
    chain = (not implicit) and rng.random() < 0.25
    # arrival instants relative to the interval: before, exactly at and after a repetition
    grid = sorted({k * interval // 2 for k in range(0, 9)} | {k * interval + d for k in range(1, 4)
                                                              for d in (-10_000, 10_000)})
    times = sorted(rng.sample(grid, rng.randrange(1, 5)))
    if rng.random() < 0.3:
        # a burst: two or three events in the same instant, nothing else runs in between
        times = sorted(times + [rng.choice(times)] * rng.choice([1, 1, 2]))
    events = []
    tag = 1
    for t in times:
        et = 'ev' if rng.random() < 0.8 or implicit else rng.choice(['other', 'put'])
        events.append([t, et, tag])
        tag += 1
    end = times[-1] + rng.choice([0, interval // 2, interval * 2, interval * 5])
    return dict(interval_us=interval, count=count, implicit=implicit, chain=chain,
                interval2_us=rng.choice([150_000, 300_000]), count2=rng.choice([None, 0, 1, 2]),
                events=events, end_us=end, stop=rng.random() < 0.6)


def check(run):
    spec = C18()
    run.rule = ("arrival patterns of 1..4 events (30 % with a burst of 2-3 events in one instant) on a grid relative to the interval (half intervals, "
                "exactly at a repetition, 10 ms before/after one), count in {None,0,1,3}, matching and "
                "non-matching event types, explicit Repeat blocks, implicit ones created by "
                "Event(..., repeat=, count=), chains of two Repeat blocks; the run continues after the "
                "last event and 10 intervals after shutdown(). Observed per Repeat block: what it "
                "received, what its destination received (time, tag, repeat number, source, "
                "orig_source, original items), its output. Non-trivial = >= 4 steps.")
    run.assumptions = ["asyncio.wait_for timing on the virtual clock: a timeout is due exactly "
                       "interval after the wait started (partial: the loop is not modelled)"]
    cases = [gen_case(run.rng) for _ in range(500 if run.tier == 'quick' else 24000)]
    for c in cases:
        run.count('count=%s' % c['count'])
        run.count('implicit' if c['implicit'] else ('chain' if c['chain'] else 'explicit'))
    res = common.standard_flow(run, spec, cases)
    for c, o, ch in res:
        run.count('error_' + str(o['error']))


def replay(run, path):
    return common.std_replay(run, C18(), path)
