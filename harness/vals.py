"""JSON encoding of Python values used in cases: ["undef"], ["none"], ["b",true], ["i",1],
["f","5/2"], ["s","x"], ["t",[1]], ["m",[["k",1]]] (a dict, items sorted by key); ["other", repr] for anything the model has no value for."""
from __future__ import annotations

from fractions import Fraction

import edzed

from .common import cval, cstr, clist, cpair, Unrepresentable


def dec(j):
    t = j[0]
    if t == 'undef':
        return edzed.UNDEF
    if t == 'none':
        return None
    if t in ('b', 'i', 's'):
        return j[1]
    if t == 'f':
        return float(Fraction(j[1]))
    if t == 't':
        return tuple(j[1])
    if t == 'm':
        return {k: v for k, v in j[1]}      # a fresh dict object on every call
    raise ValueError(j)


def enc(v):
    if v is edzed.UNDEF:
        return ["undef"]
    if v is None:
        return ["none"]
    if isinstance(v, bool):
        return ["b", v]
    if isinstance(v, int):
        return ["i", v]
    if isinstance(v, float):
        if v != v or v in (float('inf'), float('-inf')):
            return ["other", repr(v)]
        f = Fraction(*v.as_integer_ratio())
        return ["f", f"{f.numerator}/{f.denominator}"]
    if isinstance(v, str):
        try:
            cstr(v)
        except ValueError:
            return ["other", repr(v)]
        return ["s", v]
    if isinstance(v, tuple) and all(isinstance(i, int) and not isinstance(i, bool) for i in v):
        return ["t", list(v)]
    if isinstance(v, dict) and all(isinstance(k, str) and isinstance(i, int) and not isinstance(i, bool)
                                   for k, i in v.items()):
        try:
            for k in v:
                cstr(k)
        except ValueError:
            return ["other", repr(v)]
        return ["m", [[k, v[k]] for k in sorted(v)]]
    return ["other", repr(v)]


def cj(j) -> str:
    if j[0] == 'other':
        raise Unrepresentable(j[1])
    return cval(dec(j))


def cjdata(d: dict) -> str:
    return clist(sorted(d.items()), lambda kv: cpair(cstr(kv[0]), cj(kv[1])))


def strict_eq(a, b) -> bool:
    return type(a) is type(b) and a == b
