"""C16 - event filters: correspondence of Event.send + bundled filters with coq/Model/Filters.v"""
from __future__ import annotations

import itertools
from fractions import Fraction

import collections
import edzed

from . import common, drive
from .common import cq, cstr, cval, clist, cbool, cpair, copt, cdata

IMPORTS = "From Verif Require Import Values Filters.\nOpen Scope string_scope."
KEYS = ['a', 'b', 'c', 'value', 'previous']
# JSON encodings of values: ["undef"], ["none"], ["b",true], ["i",1], ["f","5/2"], ["s","x"], ["t",[1]]
POOL = [["undef"], ["i", 0], ["s", ""], ["none"], ["b", False], ["t", []], ["i", 1], ["s", "x"],
        ["b", True], ["f", "5/2"], ["t", [1]], ["m", []], ["m", [["k", 1]]]]
MFUNS = ['succ', ['const', ["i", 7]], 'delete', 'reject', 'reject_falsy', 'delete_truthy']


from .vals import dec, enc, cj, cjdata


def mk_mfun(f):
    DE = edzed.DataEdit
    if f == 'succ':
        return lambda v: v + 1 if isinstance(v, int) and not isinstance(v, bool) else v
    if f == 'delete':
        return lambda v: DE.DELETE
    if f == 'reject':
        return lambda v: DE.REJECT
    if f == 'reject_falsy':
        return lambda v: v if v else DE.REJECT
    if f == 'delete_truthy':
        return lambda v: DE.DELETE if v else v
    if f[0] == 'const':
        c = dec(f[1])
        return lambda v: c
    raise ValueError(f)


def c_mfun(f):
    if isinstance(f, str):
        return 'MF_' + f
    return f"(MF_const {cj(f[1])})"


def not_if_initialized_class():
    return getattr(edzed, 'NotIfInitialized', None) or getattr(edzed, 'IfNotIitialized')


class C16(common.Spec):
    imports = IMPORTS
    case_type = 'anycase'
    verdict_fn = 'any_verdict'

    # ------------------------------------------------------------------ implementation
    def run_impl(self, cases):
        obs = [None] * len(cases)
        pre = [i for i, c in enumerate(cases) if c['kind'] == 'pipe' and c['phase'] == 'pre']
        run = [i for i, c in enumerate(cases) if not (c['kind'] == 'pipe' and c['phase'] == 'pre')]
        for group, running in ((pre, False), (run, True)):
            for k in range(0, len(group), 150):
                idx = group[k:k + 150]
                for i, o in zip(idx, self._batch([cases[i] for i in idx], running)):
                    obs[i] = o
        return obs

    def _mk_filter(self, f, ctl):
        kind = f[0]
        if kind == 'not_from_undef':
            return edzed.not_from_undef
        if kind == 'edge':
            rise, fall, urise, ufall = f[1]
            return edzed.Edge(rise=rise, fall=fall, u_rise=urise, u_fall=ufall)
        if kind == 'if_output':
            return edzed.IfOutput(ctl(f[1]))
        if kind == 'if_not_init':
            return not_if_initialized_class()(ctl(f[1]))
        if kind == 'const':
            r = f[1]
            return lambda data: r
        if kind == 'truthy_nonmapping':
            return lambda data: 1
        if kind == 'key':
            k = f[1]
            return lambda data: data.get(k)
        if kind == 'badkey':
            return lambda data: {**data, 5: 1}
        if kind == 'dataedit':
            style, ops = f[1], f[2]
            de = edzed.DataEdit() if style != 'class' else edzed.DataEdit
            if not ops and style == 'class':
                de = edzed.DataEdit()
            for op in ops:
                name = op[0]
                if name == 'add':
                    de = de.add(**{k: dec(v) for k, v in op[1]})
                elif name == 'setdefault':
                    de = de.setdefault(**{k: dec(v) for k, v in op[1]})
                elif name == 'copy':
                    de = de.copy(op[1], op[2])
                elif name == 'rename':
                    de = de.rename(op[1], op[2])
                elif name == 'delete':
                    de = de.delete(*op[1])
                elif name == 'permit':
                    de = de.permit(*op[1])
                elif name == 'modify':
                    de = de.modify(op[1], mk_mfun(op[2]))
                elif name == 'add_output':
                    de = de.add_output(op[1], ctl(op[2]))
                else:
                    raise ValueError(op)
            if style in ('chainmap', 'userdict'):
                # the new data returned as a mapping that is not a dict; the argument is left alone
                wrap = collections.ChainMap if style == 'chainmap' else collections.UserDict

                def nondict(data, _de=de):
                    r = _de(dict(data))
                    return wrap(r) if isinstance(r, dict) else r
                return nondict
            if style == 'inplace':
                # "Event filters may modify the event data in-place": the edits are made to the
                # argument itself and the filter only answers True (accept) / the falsy result
                def inplace(data, _de=de):
                    r = _de(dict(data))
                    if isinstance(r, dict):
                        data.clear()
                        data.update(r)
                        return True
                    return r
                return inplace
            return de
        raise ValueError(f)

    def _batch(self, cases, running):
        obs = [None] * len(cases)
        log = []

        class Probe(edzed.SBlock):
            def _event(self, etype, data):
                log.append((etype, dict(data)))
                return None

            def init_regular(self):
                if running:
                    self.set_output(0)

        def build():
            ctl_blocks = {}

            def ctl_factory(i):
                def ctl(jv):
                    key = (i, repr(jv))
                    if key not in ctl_blocks:
                        name = f"ctl{len(ctl_blocks)}"
                        if jv == ["undef"]:
                            # stays uninitialised: only usable before the start
                            ctl_blocks[key] = edzed.Input(name)
                        else:
                            ctl_blocks[key] = edzed.Input(name, initdef=dec(jv))
                    return ctl_blocks[key]
                return ctl
            src = edzed.Input('src', initdef=0)
            dest = Probe('dest')
            events = []
            for i, c in enumerate(cases):
                if c['kind'] == 'pipe':
                    flts = [self._mk_filter(f, ctl_factory(i)) for f in c['filters']]
                    events.append(edzed.Event(dest, 'ev', efilter=flts))
                else:
                    events.append(edzed.Event(dest, 'ev', efilter=edzed.Delta(float(Fraction(c['delta']))
                                              if '/' in str(c['delta']) else int(c['delta']))))
            return src, dest, events

        def drive_all(ctx):
            src, dest, events = ctx
            for i, (c, ev) in enumerate(zip(cases, events)):
                if c['kind'] == 'pipe':
                    if i % 2 == 0:
                        # an earlier delivery through the same filter objects with other data must not
                        # influence this one (filters work on the data of one delivery)
                        try:
                            ev.send(src, a='w1', b='w2', c='w3', value=9, previous=8, extra_key='w4')
                        except Exception:
                            pass
                    del log[:]
                    try:
                        ret = ev.send(src, **{k: dec(v) for k, v in c['data'].items()})
                    except Exception as err:
                        obs[i] = dict(kind='raised', err=common.exc_enum(err))
                        continue
                    if ret is True and len(log) == 1 and log[0][0] == 'ev':
                        obs[i] = dict(kind='delivered', data={k: enc(v) for k, v in log[0][1].items()})
                    elif ret is False and not log:
                        obs[i] = dict(kind='rejected')
                    else:
                        obs[i] = dict(kind='inconsistent', ret=repr(ret), log=repr(log))
                else:
                    passed = []
                    for v in c['values']:
                        del log[:]
                        pv = float(Fraction(v)) if isinstance(v, str) else v
                        ret = ev.send(src, value=pv)
                        passed.append(bool(ret) and len(log) == 1)
                    obs[i] = dict(kind='delta', passed=passed)

        if not running:
            edzed.reset_circuit()
            try:
                drive_all(build())
            finally:
                edzed.reset_circuit()
            return obs

        async def driver(ctx, circuit, loop):
            drive_all(ctx)
        res = drive.run_circuit(build, driver)
        for exc in (res.driver_exc, res.init_exc):
            if exc is not None:
                raise exc
        return obs

    # ------------------------------------------------------------------ Coq side
    def _cfilt(self, f, phase):
        kind = f[0]
        if kind == 'not_from_undef':
            return 'F_not_from_undef'
        if kind == 'edge':
            rise, fall, urise, ufall = f[1]
            return ("(F_edge {| e_rise := %s; e_fall := %s; e_urise := %s; e_ufall := %s |})"
                    % (cbool(rise), cbool(fall), copt(urise, cbool), cbool(ufall)))
        ctlv = (lambda jv: 'VUndef' if phase == 'pre' else cj(jv))
        if kind == 'if_output':
            return f"(F_if_output {ctlv(f[1])})"
        if kind == 'if_not_init':
            return f"(F_if_not_init {ctlv(f[1])})"
        if kind == 'const':
            return f"(F_const {cbool(f[1])})"
        if kind == 'truthy_nonmapping':
            return 'F_truthy_nonmapping'
        if kind == 'key':
            return f"(F_key {cstr(f[1])})"
        if kind == 'badkey':
            return 'F_badkey'
        if kind == 'dataedit':
            def cop(op):
                n = op[0]
                kvs = lambda l: clist(l, lambda kv: cpair(cstr(kv[0]), cj(kv[1])))
                if n == 'add':
                    return f"OpAdd {kvs(op[1])}"
                if n == 'setdefault':
                    return f"OpSetdefault {kvs(op[1])}"
                if n == 'copy':
                    return f"OpCopy {cstr(op[1])} {cstr(op[2])}"
                if n == 'rename':
                    return f"OpRename {cstr(op[1])} {cstr(op[2])}"
                if n == 'delete':
                    return f"OpDelete {clist(op[1], cstr)}"
                if n == 'permit':
                    return f"OpPermit {clist(op[1], cstr)}"
                if n == 'modify':
                    return f"OpModify {cstr(op[1])} {c_mfun(op[2])}"
                if n == 'add_output':
                    return f"OpAddOutput {cstr(op[1])} {ctlv(op[2])}"
                raise ValueError(op)
            return f"(F_dataedit {clist(f[2], cop)})"
        raise ValueError(f)

    def emit(self, case, obs):
        if case['kind'] == 'delta':
            return "CD {| d_delta := %s; d_values := %s; d_passed := %s |}" % (
                cq(Fraction(case['delta'])), clist(case['values'], lambda v: cq(Fraction(v))),
                clist(obs['passed'], cbool))
        if obs['kind'] == 'delivered':
            try:
                o = f"ObsDelivered {cjdata(obs['data'])}"
            except common.Unrepresentable:
                o = "ObsRaised EOther"
        elif obs['kind'] == 'rejected':
            o = 'ObsRejected'
        elif obs['kind'] == 'raised':
            o = f"ObsRaised {obs['err']}"
        else:
            o = 'ObsRaised EOther'
        return "CF {| f_src := %s; f_filters := %s; f_data := %s; f_obs := %s |}" % (
            cstr('src'), clist(case['filters'], lambda f: self._cfilt(f, case['phase'])),
            cjdata(case['data']), o)

    def nontrivial(self, case, obs):
        if case['kind'] == 'delta':
            return len(case['values']) >= 3
        return len(case['filters']) >= 1

    def shrink(self, case):
        if case['kind'] == 'delta':
            vs = case['values']
            for i in range(len(vs)):
                yield dict(case, values=vs[:i] + vs[i + 1:])
            return
        fs = case['filters']
        for i in range(len(fs)):
            yield dict(case, filters=fs[:i] + fs[i + 1:])
        for i, f in enumerate(fs):
            if f[0] == 'dataedit':
                ops = f[2]
                for j in range(len(ops)):
                    yield dict(case, filters=fs[:i] + [[f[0], f[1], ops[:j] + ops[j + 1:]]] + fs[i + 1:])
        for k in list(case['data']):
            d = dict(case['data'])
            del d[k]
            yield dict(case, data=d)

    def clause(self, case, obs):
        if case['kind'] == 'delta':
            return 'delta'
        kinds = sorted({f[0] for f in case['filters']})
        return 'pipeline:' + '+'.join(kinds)

    def describe(self, case, obs):
        return f"filters {case.get('filters', case.get('delta'))} on {case.get('data', case.get('values'))}: observed {obs}"


# ---------------------------------------------------------------------- generators
def rand_data(rng):
    d = {}
    for k in KEYS:
        if rng.random() < 0.55:
            d[k] = rng.choice(POOL[1:] if k not in ('previous',) else POOL)
    return d


def rand_op(rng):
    n = rng.choice(['add', 'setdefault', 'copy', 'rename', 'delete', 'permit', 'modify', 'add_output'])
    ks = ['a', 'b', 'c', 'value', 'z']
    if n in ('add', 'setdefault'):
        keys = rng.sample(ks, rng.choice([0, 1, 2]))
        return [n, [[k, rng.choice(POOL[1:])] for k in keys]]
    if n in ('copy', 'rename'):
        return [n, rng.choice(ks), rng.choice(ks)]
    if n in ('delete', 'permit'):
        return [n, rng.sample(ks + ['source'], rng.choice([0, 1, 2, 3]))]
    if n == 'modify':
        return [n, rng.choice(ks), rng.choice(MFUNS)]
    return [n, rng.choice(ks), rng.choice(POOL[1:])]


def rand_filter(rng):
    r = rng.random()
    if r < 0.35:
        return ['dataedit', rng.choice(['class', 'instance', 'instance', 'chainmap', 'userdict', 'inplace']),
                [rand_op(rng) for _ in range(rng.choice([0, 1, 1, 2, 3, 4]))]]
    if r < 0.45:
        return ['edge', [rng.random() < .5, rng.random() < .5, rng.choice([None, True, False]),
                         rng.random() < .5]]
    if r < 0.52:
        return ['not_from_undef']
    if r < 0.62:
        return ['if_output', rng.choice(POOL[1:])]
    if r < 0.70:
        return ['if_not_init', rng.choice(POOL[1:])]
    if r < 0.80:
        return ['const', rng.random() < 0.7]
    if r < 0.86:
        return ['truthy_nonmapping']
    if r < 0.97:
        return ['key', rng.choice(KEYS)]
    return ['badkey']


def gen_cases(run):
    rng = run.rng
    cases = []
    # Edge: complete truth table (exhaustive) through Event.send
    for rise, fall, urise, ufall in itertools.product([False, True], [False, True],
                                                      [None, False, True], [False, True]):
        for p in POOL:
            for v in POOL[1:]:
                cases.append(dict(kind='pipe', phase='run', filters=[['edge', [rise, fall, urise, ufall]]],
                                  data={'previous': p, 'value': v}))
    # not_from_undef, IfOutput, IfNotInitialized over the pool (both phases)
    for p in POOL + [None]:
        d = {'value': ["i", 1]}
        if p is not None:
            d['previous'] = p
        cases.append(dict(kind='pipe', phase='run', filters=[['not_from_undef']], data=d))
    for v in POOL[1:]:
        for phase in ('pre', 'run'):
            cases.append(dict(kind='pipe', phase=phase, filters=[['if_output', v]], data={'a': ["i", 1]}))
            cases.append(dict(kind='pipe', phase=phase, filters=[['if_not_init', v]], data={'a': ["i", 1]}))
    # random pipelines of <= 3 filters (thorough: more)
    n = 2500 if run.tier == 'quick' else 50000
    for _ in range(n):
        fs = [rand_filter(rng) for _ in range(rng.choice([0, 1, 1, 2, 2, 3, 3]))]
        cases.append(dict(kind='pipe', phase='pre' if rng.random() < 0.15 else 'run',
                          filters=fs, data=rand_data(rng)))
    # DataEdit: exhaustive chains (thorough: length <= 3 over a small op alphabet; quick: <= 2)
    alpha = [['add', [['a', ["i", 1]]]], ['setdefault', [['b', ["i", 2]]]], ['copy', 'a', 'b'],
             ['rename', 'a', 'b'], ['rename', 'a', 'a'], ['delete', ['a']], ['permit', ['b']],
             ['permit', []], ['modify', 'a', 'succ'], ['modify', 'a', 'reject_falsy'],
             ['modify', 'b', 'delete_truthy']]
    dicts = [{}, {'a': ["i", 0]}, {'a': ["i", 3], 'b': ["s", "x"]}, {'b': ["i", 1]}]
    maxlen = 2 if run.tier == 'quick' else 3
    for ln in range(1, maxlen + 1):
        for chain in itertools.product(alpha, repeat=ln):
            for d in dicts:
                cases.append(dict(kind='pipe', phase='run',
                                  filters=[['dataedit', 'class' if ln % 2 else 'instance', list(chain)]],
                                  data=d))
    # DataEdit.add_output: several outputs in one chain, the same key used again with another source
    # block after the first value was moved away or overwritten
    for v1, v2 in itertools.permutations([["i", 1], ["s", "x"], ["b", False]], 2):
        for mid in (['rename', 'a', 'b'], ['copy', 'a', 'c'], ['delete', ['z']], ['add', [['a', ["i", 9]]]]):
            for style in ('class', 'instance', 'inplace'):
                cases.append(dict(kind='pipe', phase='run', data={'z': ["i", 0]},
                                  filters=[['dataedit', style, [['add_output', 'a', v1], mid,
                                                                ['add_output', 'a', v2], ['add_output', 'b', v1]
                                                                if mid[0] != 'rename' else ['add_output', 'c', v1]]]]))
    # Delta: sequences with the same filter instance
    for _ in range(300 if run.tier == 'quick' else 9000):
        floaty = rng.random() < 0.4
        delta = rng.choice([0, 1, 2, 5, 10]) if not floaty else rng.choice(["1/2", "5/2", "1/4"])
        vals = []
        x = rng.randrange(-5, 6)
        for _ in range(rng.choice([1, 3, 6, 12, 25])):
            step = rng.choice([-3, -2, -1, 0, 1, 2, 3, 7])
            x = x + step
            vals.append(x if not floaty else str(Fraction(x) / rng.choice([1, 2, 4])))
        cases.append(dict(kind='delta', delta=delta, values=vals))
    return cases


def check(run):
    spec = C16()
    run.rule = ("Edge: all 24 flag combinations x all (previous, value) over an 11-value pool incl. "
                "UNDEF and falsy/truthy values of every type (exhaustive); not_from_undef/IfOutput/"
                "NotIfInitialized over the pool, before start (control block uninitialised) and in a "
                "running circuit; random pipelines of 0..3 filters (DataEdit chains of 0..4 ops as "
                "class-method and instance chains, Edge, user filters returning True/False/1/"
                "data.get(k)/a mapping with a non-string key) on random data; all DataEdit chains up "
                "to length 2 (thorough 3) over an 11-op alphabet x 4 dicts; Delta sequences with one "
                "shared instance. Everything goes through Event.send into a probe SBlock. "
                "Non-trivial = at least one filter / >= 3 values; distinct by canonical JSON.")
    run.assumptions = ["Delta values are integers or dyadic fractions (exact in binary floating point)"]
    # documented API names exist?
    if not hasattr(edzed, 'NotIfInitialized'):
        run.violation('api', dict(case={'attribute': 'edzed.NotIfInitialized'},
                                  observed='AttributeError'),
                      "docs/filters.rst documents the filter class NotIfInitialized; the package "
                      "only provides the misspelt name IfNotIitialized",
                      clause='documented_name_NotIfInitialized', concrete=True)
    run.add_obligation(hasattr(edzed, 'NotIfInitialized'))
    cases = gen_cases(run)
    for c in cases:
        run.count('kind_' + c['kind'])
        if c['kind'] == 'pipe':
            run.count('nfilters=%d' % len(c['filters']))
            for f in c['filters']:
                run.count('filter_' + f[0])
    # second tie: the predicate filters regenerated from the source
    gen_problem = common.generated_model(run, 'gen_filters.py', 'GenFilters.v', 'GenFiltersProofs.v')
    run.assumptions.append("tools/gen_filters.py (fail-closed Python-ast translator of not_from_undef, Edge, Delta, "
                           "IfOutput, NotIfInitialized, ~230 lines) is trusted to render the accepted shapes faithfully")
    res = common.standard_flow(run, spec, cases)
    for c, o, ch in res:
        if c['kind'] == 'pipe':
            run.count('outcome_' + o['kind'])
    if gen_problem is not None:
        run.add_obligation(False)
        if not any(v['concrete'] for v in run.violations):
            run.violation('translation', dict(correspondence='Gen/GenFiltersProofs.v: generated_not_from_undef, '
                                              'generated_edge, generated_delta, generated_if_output, '
                                              'generated_not_if_initialized'),
                          gen_problem, clause='generated_model', concrete=False)
        else:
            run.notes.append("generated model: " + gen_problem[:500])


def replay(run, path):
    return common.std_replay(run, C16(), path)
