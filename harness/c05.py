"""C05 - start-up: probe blocks (and InitAsync / ValuePoll) with scripted init sources, every creation
order, init-time event topologies, vs coq/Model/Init.v"""
from __future__ import annotations

import asyncio
import itertools
import json

import edzed

from . import common, vloop
from .common import clist, cbool, cz, cnat, copt

IMPORTS = "From Verif Require Import Values Init."
MS = 500          # one model time unit ("tick") = 0.5 ms of virtual time
TPS = 2000        # ticks per second


class Boom(Exception):
    pass


def _mk_classes(log, flags):
    class ProbeBase(edzed.AddonPersistence, edzed.SBlock):
        def __init__(self, *args, spec, pos, **kwargs):
            self.spec = spec
            self.pos = pos
            self.depth = 0          # own init routines in progress
            super().__init__(*args, **kwargs)

        def get_state(self):
            return 'saved'

        def _restore_state(self, state):
            log.append(['restore', self.pos])
            if state == 'raises':
                raise Boom('restore')
            if state == 'sets':
                self.depth += 1
                try:
                    self.set_output(1)
                finally:
                    self.depth -= 1

        def init_regular(self):
            log.append(['regular', self.pos])
            kind = self.spec['regular']
            if kind == 'sets':
                self.depth += 1
                try:
                    self.set_output(1)
                finally:
                    self.depth -= 1
            elif kind == 'raises':
                raise Boom('regular')

        def init_from_value(self, value):
            log.append(['from_value', self.pos])
            self.depth += 1
            try:
                self.set_output(value)
            finally:
                self.depth -= 1

        def _event_put(self, **_data):
            log.append(['handler', self.pos])
            flags.append(self.depth > 0)
            if self.spec['hsets']:
                self.set_output(1)

    class Probe(ProbeBase):
        pass

    class ProbeA(edzed.AddonAsync, ProbeBase):
        async def init_async(self):
            log.append(['async', self.pos])
            _tmo, script, d = self.spec['async']
            if script == 'never':
                await asyncio.Event().wait()
            await asyncio.sleep(d / TPS)
            if script == 'raise':
                raise Boom('async')
            self.set_output(1)

    class Cleanup(edzed.AddonAsync, edzed.SBlock):
        def init_regular(self):
            self.set_output(0)

        async def stop_async(self):
            await asyncio.sleep(0.005)

    return Probe, ProbeA, Cleanup


def run_one(specs, cblock, cleanup):
    """specs in creation order (dests are positions).  Returns the observation."""
    log = []
    flags = []
    obs = dict(log=log, flags=flags, ok=None, exc=None, t_ms=None, defined=None, ready=None, harness=None)

    async def main(loop):
        edzed.reset_circuit()
        circuit = edzed.get_circuit()
        store = {}
        if not any(sp.get('no_storage') for sp in specs):
            circuit.set_persistent_data(store)      # else: persistent=True blocks without any storage
        Probe, ProbeA, Cleanup = _mk_classes(log, flags)
        blocks = []
        for pos, sp in enumerate(specs):
            name = f"b{pos}"
            kw = {}
            evs = [edzed.Event(f"b{d}", 'put') for d in sp['dests']]
            if evs:
                kw['on_output'] = evs
            if sp['initdef']:
                kw['initdef'] = 1
            kind = sp['kind']
            if kind == 'probe':
                # every second persistent block has an expiration time; the storage holds no time stamp
                # of a previous stop (first run, or a run that was killed), so nothing can have expired
                if sp['persistent'] and pos % 2 == 0:
                    kw['expiration'] = 1000.0
                if sp['async'] is not None:
                    blk = ProbeA(name, spec=sp, pos=pos, persistent=sp['persistent'],
                                 init_timeout=sp['async'][0] / TPS, **kw)
                else:
                    blk = Probe(name, spec=sp, pos=pos, persistent=sp['persistent'], **kw)
                if sp['persistent'] and sp['restore'] != 'absent':
                    store[blk.key] = sp['restore']
            elif kind == 'initasync':
                tmo, script, d = sp['async']

                async def coro(script=script, d=d):
                    if script == 'never':
                        await asyncio.Event().wait()
                    await asyncio.sleep(d / TPS)
                    if script == 'raise':
                        raise Boom('async')
                    return 1
                blk = edzed.InitAsync(name, init_coro=[coro], init_timeout=tmo / TPS, **kw)
            else:   # valuepoll: the value appears with poll number sp['poll_k'] (polls every poll_i ms)
                tmo, script, d = sp['async']
                cnt = [0]

                def func(cnt=cnt, k=sp['poll_k'], script=script):
                    cnt[0] += 1
                    if script == 'never' or cnt[0] - 1 < k:
                        return edzed.UNDEF
                    return 1
                blk = edzed.ValuePoll(name, func=func, interval=sp['poll_i'] / TPS,
                                      init_timeout=tmo / TPS, **kw)
            if kind != 'probe':
                for meth, tag in (('init_async', 'async'), ('init_regular', 'regular'),
                                  ('init_from_value', 'from_value')):
                    orig = getattr(blk, meth)

                    def wrapped(*a, _orig=orig, _tag=tag, _pos=pos, **k):
                        log.append([_tag, _pos])
                        return _orig(*a, **k)

                    async def awrapped(*a, _orig=orig, _tag=tag, _pos=pos, **k):
                        log.append([_tag, _pos])       # when the task starts running, as in the probes
                        return await _orig(*a, **k)
                    setattr(blk, meth, awrapped if meth == 'init_async' else wrapped)
            blocks.append(blk)
        allblocks = list(blocks)
        if cleanup:
            allblocks.append(Cleanup('cleanup'))
        if cblock is not None:
            def fn(*args):
                if cblock == 'fail':
                    raise Boom('eval')
                if cblock == 'undef':
                    return edzed.UNDEF      # not a valid output: the first evaluation fails
                return len(args)
            cb = edzed.FuncBlock('cb', func=fn).connect(*[b.name for b in blocks])
            allblocks.append(cb)
            if cblock == 'oscillate':
                # the first evaluation never settles: an Input and a FuncBlock negating it, closed by an
                # output event (the Input changes again with every evaluation)
                allblocks.append(edzed.Input('osc', initdef=0))
                allblocks.append(edzed.FuncBlock('oscf', func=lambda v: 1 - v,
                                                 on_output=edzed.Event('osc', 'put')).connect('osc'))
            # a combinational block fed by constants only must get its output in the first evaluation too
            allblocks.append(edzed.Not('cconst').connect(False))
            allblocks.append(edzed.FuncBlock('cconst2', func=lambda a, b: a + b).connect(10, 2))
        t0 = loop.vt_us
        orig_async = circuit._init_sblocks_async

        async def timed_async():          # instance-level wrapper: how long the async phase lasts
            t1 = loop.vt_us
            try:
                return await orig_async()
            finally:
                obs['async_ms'] = round((loop.vt_us - t1) / MS)
        circuit._init_sblocks_async = timed_async
        simtask = asyncio.create_task(circuit.run_forever())
        try:
            await circuit.wait_init()
            obs['ok'] = True
        except edzed.EdzedInvalidState:
            obs['ok'] = False
            obs['exc'] = 'invalid_state'
        except Exception as err:                       # noqa
            obs['ok'] = False
            obs['exc'] = type(err).__name__
        obs['total_ms'] = round((loop.vt_us - t0) / MS)
        # a successful start takes exactly as long as its asynchronous phase; a failed one is
        # reported after the clean-up, which is not part of the waiting the property bounds
        obs['t_ms'] = obs['total_ms'] if obs['ok'] else obs.get('async_ms', 0)
        obs['ready'] = circuit.is_ready()
        obs['defined'] = all(b.output is not edzed.UNDEF for b in allblocks)
        obs['loglen_at_return'] = len(log)
        err, chain = circuit.error, []
        while err is not None and len(chain) < 6:
            chain.append(type(err).__name__ + ': ' + str(err)[:120])
            err = err.__cause__ or err.__context__
        obs['err'] = ' <- '.join(chain)
        try:
            await circuit.shutdown()
        except BaseException:                          # noqa
            pass
        try:
            await simtask
        except BaseException:                          # noqa
            pass

    try:
        vloop.run_virtual(main, wall_limit_s=10.0)
    except vloop.HarnessTimeout:
        obs['harness'] = 'timeout'
    except BaseException as err:       # noqa
        obs['harness'] = repr(err)
    finally:
        edzed.reset_circuit()
    obs['log'] = log[:obs.get('loglen_at_return') or len(log)]
    obs['flags'] = flags[:sum(1 for t, _ in obs['log'] if t == 'handler')]
    return obs


def permuted(base, perm):
    """perm[p] = base index of the block created at position p"""
    where = {b: p for p, b in enumerate(perm)}
    out = []
    for b in perm:
        sp = dict(base[b])
        sp['dests'] = sorted(where[d] for d in base[b]['dests'])
        out.append(sp)
    return out


CALLS = dict(restore='CRestore', regular='CRegular', from_value='CFromValue', handler='CHandler')
CALLS['async'] = 'CAsync'


def c_spec(sp):
    rk = dict(absent='RAbsent', raises='RRaises', noeffect='RNoEffect', sets='RSets')[sp['restore']]
    gk = dict(noeffect='GNoEffect', sets='GSets', raises='GRaises')[sp['regular']]
    if sp['async'] is None:
        a = 'None'
    else:
        tmo, script, d = sp['async']
        sc = dict(done=f"ADone {cz(d)}", never='ANever', poll=f"APoll {cz(d)}")
        sc['raise'] = f"ARaise {cz(d)}"
        a = f"(Some ({cz(tmo)}, {sc[script]}))"
    return (f"(Build_ispec {cbool(sp['persistent'] and not sp.get('no_storage_all'))} {rk} {a} {gk} {cbool(sp['initdef'])} "
            f"{cbool(sp['hsets'])} {clist([cnat(d) for d in sp['dests']])})")


class C05(common.Spec):
    imports = IMPORTS
    case_type = 'icase'
    verdict_fn = 'i_verdict'
    shard = 150

    def __init__(self):
        self.cache = {}

    def _all(self, case):
        key = json.dumps([case['base'], case['cblock'], case['cleanup']], sort_keys=True)
        if key not in self.cache:
            if len(self.cache) > 50:
                self.cache.clear()
            n = len(case['base'])
            self.cache[key] = {perm: run_one(permuted(case['base'], perm), case['cblock'], case['cleanup'])
                               for perm in itertools.permutations(range(n))}
        return self.cache[key]

    def run_impl(self, cases):
        out = []
        for c in cases:
            allr = self._all(c)
            o = dict(allr[tuple(c['perm'])])
            o['perm_ok'] = [allr[p]['ok'] for p in sorted(allr)]
            o['perm_err'] = [allr[p].get('err', '') for p in sorted(allr)]
            out.append(o)
        return out

    def emit(self, case, obs):
        if obs['harness'] is not None or obs['ok'] is None:
            raise common.HarnessProblem(f"C05 harness problem: {obs['harness']} on {case}")
        specs = permuted(case['base'], case['perm'])
        return ("(Build_icase " + clist([c_spec(s) for s in specs]) + " " + cbool(case['cblock'] in ('fail', 'undef', 'oscillate')) + " "
                + clist([f"({CALLS[t]} {cnat(p)})" for t, p in obs['log']]) + " " + cbool(obs['ok'])
                + " " + cbool(bool(obs['defined']) and bool(obs['ready'])) + " " + cz(obs['t_ms']) + " "
                + clist([cbool(bool(x)) for x in obs['perm_ok']]) + " " + clist([cbool(x) for x in obs['flags']]) + ")")

    def nontrivial(self, case, obs):
        return any(t == 'handler' for t, _ in obs['log']) or any(t == 'async' for t, _ in obs['log'])

    def shrink(self, case):
        base = case['base']
        n = len(base)
        if case['cleanup']:
            yield dict(case, cleanup=False)
        if case['cblock'] == 'ok':
            yield dict(case, cblock=None)
        for i in range(n):       # drop block i
            if n <= 1:
                break
            nb = []
            for j, sp in enumerate(base):
                if j == i:
                    continue
                sp = dict(sp)
                sp['dests'] = [d - (d > i) for d in sp['dests'] if d != i]
                nb.append(sp)
            perm = [p - (p > i) for p in case['perm'] if p != i]
            yield dict(case, base=nb, perm=perm)
        for i, sp in enumerate(base):
            for d in sp['dests']:
                nb = [dict(x) for x in base]
                nb[i]['dests'] = [x for x in sp['dests'] if x != d]
                yield dict(case, base=nb)
            if sp['persistent']:
                nb = [dict(x) for x in base]
                nb[i]['persistent'] = False
                nb[i]['restore'] = 'absent'
                yield dict(case, base=nb)
            if sp['async'] is not None and sp['kind'] == 'probe':
                nb = [dict(x) for x in base]
                nb[i]['async'] = None
                yield dict(case, base=nb)
            if sp['kind'] != 'probe' and False:
                pass
        if list(case['perm']) != sorted(case['perm']):
            yield dict(case, perm=sorted(case['perm']))

    def neighbours(self, case, rng):
        n = len(case['base'])
        for perm in itertools.permutations(range(n)):
            yield dict(case, perm=list(perm))
        for cb in (None, 'ok', 'fail', 'undef'):
            for cl in (False, True):
                yield dict(case, cblock=cb, cleanup=cl)

    def known_class(self, case, obs):
        # start-up succeeds in some creation orders and fails in others, and every failure is a refused
        # recursive event() call (cyclic event topology)
        oks = list(map(bool, obs['perm_ok']))
        if len(set(oks)) > 1 and all('Forbidden recursive event' in e
                                     for ok, e in zip(oks, obs.get('perm_err', [])) if not ok):
            return 'creation_order_dependent:recursive_event_in_cycle'
        return None

    def clause(self, case, obs):
        if obs['ok'] and not (obs['defined'] and obs['ready']):
            return 'wait_init_returned_but_not_ready'
        if len(set(map(bool, obs['perm_ok']))) > 1:
            return self.known_class(case, obs) or 'creation_order_dependent'
        mx = max([sp['async'][0] for sp in case['base'] if sp['async'] is not None] + [0])
        if obs['t_ms'] > mx:
            return 'waited_longer_than_largest_timeout'
        seen = set()
        fl = list(obs['flags'])
        for t, b in obs['log']:
            if t == 'regular':
                seen.add(b)
            if t == 'handler':
                inside = fl.pop(0) if fl else False
                if b not in seen and not inside:
                    return 'event_handled_before_sync_steps'
        return 'init_sequence'

    def describe(self, case, obs):
        return (f"blocks (creation order) {json.dumps(permuted(case['base'], case['perm']))}, cblock="
                f"{case['cblock']}, async cleanup block={case['cleanup']}: wait_init ok={obs['ok']} "
                f"({obs['exc']}), all outputs defined={obs['defined']}, is_ready={obs['ready']}, "
                f"start-up took {obs['t_ms']} ms, calls {obs['log']}, outcome per creation order "
                f"{obs['perm_ok']}")


def gen_spec(rng, kind):
    sp = dict(kind=kind, persistent=False, restore='absent', regular='noeffect', initdef=False, hsets=False,
              dests=[])
    sp['async'] = None
    sp['initdef'] = rng.random() < 0.4
    if kind == 'probe':
        if rng.random() < 0.35:
            sp['persistent'] = True
            sp['restore'] = rng.choice(['absent', 'raises', 'noeffect', 'sets', 'sets'])
        elif rng.random() < 0.2:
            sp['restore'] = 'sets'          # saved state of a block that is not persistent: unused
        sp['regular'] = rng.choice(['noeffect'] * 6 + ['sets'] * 3 + ['raises'])
        sp['hsets'] = rng.random() < 0.7
        if rng.random() < 0.45:
            sp['async'] = gen_async(rng)
    elif kind == 'initasync':
        sp['async'] = gen_async(rng)
        if not sp['initdef']:
            sp['regular'] = 'sets'       # InitAsync.init_regular falls back to None (silently)
    else:
        sp['poll_i'] = rng.choice([3, 5, 7])          # ticks; poll instants are odd numbers of ticks
        sp['poll_k'] = rng.choice([0, 1, 1, 3])      # 0: the value is there at the very first poll, i.e.
                                                      # before any block has been initialised
        tmo = rng.choice([0, -4, 4, 8, 12, 16, 20, 20])
        script = rng.choice(['poll', 'poll', 'poll', 'never'])
        sp['async'] = [tmo, script, sp['poll_i'] * sp['poll_k']]
    return sp


def gen_async(rng):
    # ticks of 0.5 ms: timeouts are multiples of 4, completion times 2 mod 4, poll instants odd:
    # two timers of different kinds never fall on the same instant
    tmo = rng.choice([0, -4, 4, 8, 12, 16, 20, 20])
    script = rng.choice(['done', 'done', 'done', 'raise', 'never'])
    d = rng.choice([2, 6, 10, 14, 18, 22, 26])
    return [tmo, script, d]


def gen_base(rng, nmax):
    n = rng.choice([1, 2, 2, 3, 3, 3, 4][:max(1, nmax * 2 - 1)]) if nmax < 4 else rng.choice([2, 3, 3, 4, 4])
    kinds = [rng.choice(['probe'] * 6 + ['initasync', 'valuepoll']) for _ in range(n)]
    base = [gen_spec(rng, k) for k in kinds]
    # no two routines of one configuration finish at the same instant: the order in which asyncio
    # runs several timers of one instant is not defined (heap order), the model would have to guess
    used = set()
    for sp in base:
        if sp['async'] is None or sp['async'][1] == 'never':
            continue
        while sp['async'][2] in used:
            if sp['kind'] == 'valuepoll':
                if sp['poll_k'] == 0:
                    sp['poll_k'] = 1
                sp['poll_i'] += 2
                sp['async'][2] = sp['poll_i'] * sp['poll_k']
            else:
                sp['async'][2] += 4
        used.add(sp['async'][2])
    order = list(range(n))
    rng.shuffle(order)                      # hidden topological order of the event graph
    p = rng.choice([0.2, 0.5, 0.8])
    for a in range(n):
        for b in range(a + 1, n):
            src, dst = order[a], order[b]
            if base[dst]['kind'] != 'probe':
                continue
            if base[src]['kind'] == 'initasync' and not base[src]['initdef']:
                continue
            if rng.random() < p:
                base[src]['dests'].append(dst)
    if rng.random() < 0.35:
        # back edges: cyclic event topologies (recursive event() calls are refused by edzed)
        for a in range(n):
            for b in range(a):
                src, dst = order[a], order[b]
                if base[dst]['kind'] != 'probe' or (base[src]['kind'] == 'initasync' and not base[src]['initdef']):
                    continue
                if rng.random() < 0.4:
                    base[src]['dests'].append(dst)
        if rng.random() < 0.3:
            k = rng.randrange(n)
            if base[k]['kind'] == 'probe':
                base[k]['dests'].append(k)          # an event to itself
    for sp in base:
        sp['dests'] = sorted(set(sp['dests']))
    if rng.random() < 0.15:
        # persistent=True blocks in a circuit that has no persistent storage at all
        for sp in base:
            sp['no_storage'] = True
            sp['no_storage_all'] = True
    return base


def _p(**kw):
    sp = dict(kind='probe', persistent=False, restore='absent', regular='noeffect', initdef=False, hsets=True,
              dests=[])
    sp['async'] = None
    sp.update(kw)
    return sp


# directed configurations (shapes of earlier findings / seeded changes); every creation order is run
DIRECTED = [
    # the listed finding C05-order-dependent-recursion: a cycle b0 <-> b2 and a third source b1 -> b2
    [_p(regular='sets', dests=[2]), _p(regular='noeffect', initdef=True, hsets=False, dests=[2]),
     _p(dests=[0])],
    # early-initialisation error that used to be swallowed (fixed)
    [_p(regular='raises', initdef=True), _p(regular='sets', dests=[0]),
     dict(_p(dests=[0, 1]), **{'async': [20, 'done', 2]})],
    # the early initialisation of b0 fails while b1 restores its saved state (a place where errors are
    # only logged); b2 gives b0 an output later
    [_p(regular='raises'), _p(persistent=True, restore='sets', dests=[0]), _p(initdef=True, dests=[0])],
    [_p(regular='raises'), _p(persistent=True, restore='sets', dests=[0]), _p(regular='sets', dests=[0]),
     dict(_p(dests=[0]), **{'async': [20, 'done', 2]})],
    # a ValuePoll that has its value at the very first poll (before any block is initialised) sends it to
    # a persistent block - in a circuit without any persistent storage, and in one with storage
    [dict(_p(dests=[1]), kind='valuepoll', poll_i=3, poll_k=0, **{'async': [8, 'poll', 0]}, no_storage=True,
          no_storage_all=True),
     dict(_p(persistent=True, initdef=True), no_storage=True, no_storage_all=True)],
    [dict(_p(dests=[1, 2]), kind='valuepoll', poll_i=5, poll_k=0, **{'async': [8, 'poll', 0]}),
     _p(persistent=True, restore='sets', regular='sets'), _p(persistent=True, restore='noeffect', initdef=True)],
    # a block whose only source is its async routine gets an event (that does not set its output) while
    # the restored states / the first poll are being processed: it still needs its async routine
    [_p(persistent=True, restore='sets', dests=[1]), dict(_p(hsets=False), **{'async': [8, 'done', 2]})],
    [dict(_p(hsets=False), **{'async': [8, 'done', 2]}), _p(persistent=True, restore='sets', dests=[0])],
    [dict(_p(dests=[1]), kind='valuepoll', poll_i=5, poll_k=0, **{'async': [8, 'poll', 0]}),
     dict(_p(hsets=False), **{'async': [8, 'done', 2]})],
    # two async routines with different time limits: the one with the shorter limit overruns it but is done
    # before the wait for the other one ends (whatever the outcome, it is the same in both creation orders)
    [dict(_p(), **{'async': [4, 'done', 6]}), dict(_p(), **{'async': [20, 'done', 10]})],
    [dict(_p(), **{'async': [8, 'done', 10]}), dict(_p(), **{'async': [12, 'done', 14]}),
     dict(_p(), **{'async': [20, 'done', 18]})],
    # a block without any source of its own gets an event that does not set its output: it stays
    # uninitialised and the start-up fails (in both creation orders)
    [_p(regular='sets', dests=[1]), _p(hsets=False)],
    [_p(initdef=True, dests=[1]), _p(hsets=False), _p(regular='sets')],
    # a restored state feeds an event back into the restoring block
    [_p(persistent=True, restore='sets', dests=[1]), _p(dests=[0])],
    [_p(persistent=True, restore='sets', dests=[1]), _p(regular='sets', dests=[0, 2]), _p(dests=[0])],
]


def check(run):
    spec = C05()
    run.rule = ("1..4 sequential blocks, each a scripted probe (persistent or not; saved state absent/"
                "failing/without effect/setting the output; init_async absent or with init_timeout in "
                "{-2,0,2..10 ms} finishing/raising after 1..13 ms or never (ValuePoll: first value after 1.5..10.5 ms); init_regular without effect/"
                "setting/raising; initdef present or not; 'put' handler setting the output or ignoring "
                "the event) or a real InitAsync / ValuePoll; random on_output event topology (35 % with cycles / self events) "
                "between them; optionally a FuncBlock over all of them whose first evaluation succeeds or "
                "raises and a block with asynchronous clean-up; EVERY creation order of every "
                "configuration is run. Observed: call log of the init routines and handlers, wait_init() "
                "outcome, outputs and is_ready() at that moment, virtual time spent. Non-trivial = an "
                "init-time event was handled or an init_async task ran.")
    run.assumptions = ["no two init_async routines / ValuePoll values of one configuration are due at the same instant",
                       
                       "completion times and timeouts never coincide (timeouts 0 mod 4, completions 2 mod 4, poll instants odd, in ticks of 0.5 ms): the order "
                       "of two asyncio timers of the same instant is not modelled",
                       "library blocks InitAsync/ValuePoll are event sources only, never destinations",
                       "the order-independence clause is decided by the exhaustive run of all creation "
                       "orders of each sampled configuration, not by a theorem (see Props/C05.v)"]
    nbase = 60 if run.tier == 'quick' else 2500
    cases = []
    for i in range(-len(DIRECTED), nbase):
        if i < 0:
            base = [dict(b) for b in DIRECTED[i]]
        else:
            base = gen_base(run.rng, 4 if (run.tier != 'quick' or i % 4 == 0) else 3)
        cb = run.rng.choice([None, None, 'ok', 'ok', 'fail', 'undef'])
        if cb == 'ok' and len(base) <= 2 and i % 2:
            cb = 'oscillate'
        cl = run.rng.random() < 0.3
        run.count('blocks_%d' % len(base))
        run.count('cblock_%s' % cb)
        for sp in base:
            run.count('kind_' + sp['kind'])
        for perm in itertools.permutations(range(len(base))):
            cases.append(dict(base=base, perm=list(perm), cblock=cb, cleanup=cl))
    res = common.standard_flow(run, spec, cases)
    # 'the simulation terminates with an error': a start-up that wait_init() reports as failed belongs to
    # a simulation that has been terminated (Circuit.error set, not ready any more) - not to one that is
    # still spinning
    spinning = [(c, o) for c, o, ch in res if o['ok'] is False and o.get('ready') is True]
    run.add_obligation(not spinning)
    for c, o in spinning[:1]:
        if True:
            run.violation('monitor', dict(case=c, observed={k: v for k, v in o.items() if k != 'log'}),
                          f"wait_init() reported a failed start-up ({o.get('exc')}) but the simulation was not "
                          f"terminated: is_ready() is still True, Circuit.error {o.get('err')!r}; blocks "
                          f"{json.dumps(permuted(c['base'], c['perm']))}, cblock={c['cblock']}",
                          clause='failed_startup_not_terminated', concrete=True)
    for c, o, ch in res:
        run.count('ok' if o['ok'] else 'failed_start')
        for t, _ in o['log']:
            run.count('call_' + t)


def replay(run, path):
    payload, case = common.load_replay_case(path)
    if payload.get('clause') == 'failed_startup_not_terminated':
        def again():
            o = C05().run_impl([case])[0]
            if o['ok'] is False and o.get('ready') is True:
                run.violation('monitor', dict(case=case, observed={k: v for k, v in o.items() if k != 'log'}),
                              f"wait_init() reported a failed start-up ({o.get('exc')}) but the simulation was not "
                              f"terminated", clause='failed_startup_not_terminated', concrete=True)
        return common.directed_replay(run, path, again)
    return common.std_replay(run, C05(), path)
