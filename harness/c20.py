"""C20 - Counter arithmetic: correspondence of edzed.Counter with coq/Model/Counter.v"""
from __future__ import annotations

import itertools
from fractions import Fraction

import edzed

from . import common, drive
from .common import cq, copt, clist, cbool, cpair

IMPORTS = "From Verif Require Import Values Counter."
MODS = [None, 1, 2, 7, 10, 2.5]


def fr(x):
    """JSON-able exact number: int stays int, float -> 'p/q' string."""
    if isinstance(x, bool):
        return int(x)
    if isinstance(x, int):
        return x
    f = Fraction(*x.as_integer_ratio()) if isinstance(x, float) else Fraction(x)
    return f"{f.numerator}/{f.denominator}"


def unfr(x):
    if isinstance(x, str):
        return Fraction(x)
    return Fraction(x)


def pynum(x):
    """canonical JSON number -> the Python number handed to edzed"""
    if isinstance(x, str):
        f = Fraction(x)
        return float(f) if f.denominator != 1 else float(f.numerator)
    return x


class C20(common.Spec):
    imports = IMPORTS
    case_type = 'ccase'
    verdict_fn = 'fun k => verdict (case_agree k) (case_monitor k)'

    # ------------------------------------------------ implementation side
    def run_impl(self, cases):
        out = []
        for k in range(0, len(cases), 40):
            part = cases[k:k + 40]
            try:
                out.extend(self._run_batch(part))
            except Exception:       # noqa
                # some block of the batch made the start-up fail: run the cases one by one; the case
                # that cannot even be started is reported as such (created, but not usable)
                for c in part:
                    try:
                        out.extend(self._run_batch([c]))
                    except Exception as err:       # noqa
                        out.append(dict(created=True, start=fr(424242), steps=[],
                                        startup_error=type(err).__name__))
        return out

    def _run_batch(self, cases):
        obs = [None] * len(cases)
        storage = {}
        names = [f"c{i}" for i in range(len(cases))]
        for name, case in zip(names, cases):
            if case['restored'] is not None:
                storage[f"<Counter '{name}'>"] = pynum(case['restored'])
        storage['edzed-stop-time'] = 1.0

        def build():
            blocks = []
            for name, case in zip(names, cases):
                kw = {}
                if case['mod'] is not None:
                    kw['modulo'] = pynum(case['mod'])
                if case['restored'] is not None:
                    kw['persistent'] = True
                try:
                    blocks.append(edzed.Counter(name, initdef=pynum(case['init']), **kw))
                except ValueError:
                    blocks.append(None)
            if all(b is None for b in blocks):
                edzed.Counter('dummy')
            return blocks

        async def driver(blocks, circuit, loop):
            for i, (blk, case) in enumerate(zip(blocks, cases)):
                if blk is None:
                    obs[i] = dict(created=False, start=0, steps=[])
                    continue
                o = dict(created=True, start=fr(blk.output), steps=[])
                for ev in case['evs']:
                    et, arg = ev
                    data = {}
                    if et in ('inc', 'dec') and arg is not None:
                        data['amount'] = pynum(arg)
                    if et == 'put' and arg is not None:
                        data['value'] = pynum(arg)
                    try:
                        ret = edzed.ExtEvent(blk, et).send(**data)
                        x = ['val', fr(ret)] if isinstance(ret, (int, float)) else ['err', 'EOther']
                    except Exception as err:
                        x = ['err', common.exc_enum(err, aborted=circuit.error is not None)]
                    o['steps'].append([x, fr(blk.output)])
                obs[i] = o

        res = drive.run_circuit(build, driver, storage=storage)
        if res.driver_exc is not None:
            raise res.driver_exc
        if res.init_exc is not None:
            raise res.init_exc
        return obs

    # ------------------------------------------------ Coq side
    def emit(self, case, obs):
        def ev(e):
            et, arg = e
            a = copt(None if arg is None else unfr(arg), cq)
            return {'inc': f"Inc {a}", 'dec': f"Dec {a}", 'put': f"Put {a}",
                    'reset': 'Reset', 'bogus': 'Unknown'}[et]

        def ob(step):
            (kind, x), o = step
            xs = f"OVal {cq(unfr(x))}" if kind == 'val' else f"OErr {x}"
            return cpair(xs, cq(unfr(o)))
        return ("{| k_mod := %s; k_init := %s; k_restored := %s; k_created := %s; k_start := %s;\n"
                "   k_evs := %s;\n   k_obs := %s |}") % (
            copt(None if case['mod'] is None else unfr(case['mod']), cq), cq(unfr(case['init'])),
            copt(None if case['restored'] is None else unfr(case['restored']), cq),
            cbool(obs['created']), cq(unfr(obs['start'])),
            clist(case['evs'], ev), clist(obs['steps'], ob))

    def nontrivial(self, case, obs):
        return obs['created'] and len(case['evs']) >= 2

    def shrink(self, case):
        evs = case['evs']
        for i in range(len(evs)):
            yield dict(case, evs=evs[:i] + evs[i + 1:])
        if case['restored'] is not None:
            yield dict(case, restored=None)

    def neighbours(self, case, rng):
        for m in MODS:
            yield dict(case, mod=fr(m) if m is not None else None)

    def clause(self, case, obs):
        if not obs['created']:
            return 'constructor'
        return 'arithmetic'

    def describe(self, case, obs):
        return ("Counter(modulo=%r, initdef=%r, restored=%r): after events %r the implementation "
                "returned/output %r" % (case['mod'], case['init'], case['restored'], case['evs'],
                                         obs['steps']))


def gen_random(rng, n):
    cases = []
    for _ in range(n):
        mod = rng.choice(MODS + [7, 10, 1000003, 0, -3])
        floaty = isinstance(mod, float) or rng.random() < 0.15
        big = (not floaty) and rng.random() < 0.3

        def num():
            r = rng.random()
            if floaty and r < 0.3:
                return rng.choice([0.5, 1.25, -0.75, 2.5, 1024.125, -3.5])
            if big and r < 0.5:
                return rng.choice([1, -1]) * rng.randrange(10 ** 12, 10 ** 30)
            if r < 0.7:
                return rng.randrange(-12, 13)
            return rng.randrange(-10 ** 9, 10 ** 9)
        evs = []
        for _ in range(rng.choice([0, 1, 2, 3, 5, 8, 12, 20])):
            r = rng.random()
            if r < 0.3:
                evs.append(['inc', None if rng.random() < 0.5 else fr(num())])
            elif r < 0.55:
                evs.append(['dec', None if rng.random() < 0.5 else fr(num())])
            elif r < 0.75:
                evs.append(['put', fr(num())])
            elif r < 0.82:
                evs.append(['put', None])
            elif r < 0.93:
                evs.append(['reset', None])
            else:
                evs.append(['bogus', None])
        cases.append(dict(mod=None if mod is None else fr(mod), init=fr(num()),
                          restored=fr(num()) if rng.random() < 0.3 else None, evs=evs))
    return cases


def gen_exhaustive(maxlen):
    alpha = [['inc', None], ['inc', 3], ['dec', None], ['dec', -2], ['put', 5], ['put', None],
             ['reset', None], ['bogus', None]]
    for mod in MODS:
        for init in (0, 12, -1):
            for n in range(maxlen + 1):
                for seq in itertools.product(alpha, repeat=n):
                    yield dict(mod=None if mod is None else fr(mod), init=init, restored=None,
                               evs=[list(e) for e in seq])


def check(run):
    spec = C20()
    run.rule = ("random event sequences (len 0..20) over inc/dec/put/reset/unknown with optional "
                "amounts (small, 1e9, up to 1e30, dyadic fractions), modulo in "
                "{None,1,2,7,10,2.5,1000003,-3,0}, initdef and restored value inside/outside the "
                "range; thorough adds ALL sequences up to length 4 over an 8-event alphabet x 6 "
                "moduli x 3 initdefs.  Non-trivial = counter created and >= 2 events; distinct by "
                "canonical JSON of the case.")
    run.assumptions = ["float rounding is not modelled: only dyadic fractions and magnitudes on "
                       "which IEEE arithmetic is exact are generated when a float is involved"]
    cases = gen_random(run.rng, 1200 if run.tier == 'quick' else 24000)
    if run.tier == 'thorough':
        cases += list(gen_exhaustive(4))
        run.exhaustive = True
    else:
        cases += list(gen_exhaustive(2))
    for c in cases:
        run.count('modulo=%s' % c['mod'])
        run.count('len=%d' % min(len(c['evs']), 9))
        for e in c['evs']:
            run.count('ev_' + e[0] + ('' if e[1] is None else '+arg'))
    # second tie: the model regenerated from the source (class Counter) equals the hand-written one
    gen_problem = common.generated_model(run, 'gen_counter.py', 'GenCounter.v', 'GenCounterProofs.v')
    run.assumptions.append("tools/gen_counter.py (fail-closed Python-ast translator of class Counter, ~190 lines) "
                           "is trusted to render the accepted statement shapes faithfully")
    common.standard_flow(run, spec, cases)
    if gen_problem is not None:
        run.add_obligation(False)
        if not any(v['concrete'] for v in run.violations):
            run.violation('translation', dict(correspondence='Gen/GenCounterProofs.v: generated_step_is_model, '
                                              'generated_start_is_model, generated_create_is_model'),
                          gen_problem, clause='generated_model', concrete=False)
        else:
            run.notes.append("generated model: " + gen_problem[:500])
    check_event_during_init(run)


def check_event_during_init(run, only=None):
    """'the initial value is reduced by the same arithmetic' - also for a Counter that gets its first
    event while the circuit is still being initialised (an Input created before it sends 'inc'/'dec'
    from its own initialisation): the Counter is initialised from its (reduced) initdef first, then the
    event is applied."""
    import asyncio
    from . import vloop
    for name, mod, init, et, want in (('inc_mod7', 7, 12, 'inc', 6), ('dec_mod5', 5, 5, 'dec', 4),
                                      ('inc_nomod', None, -3, 'inc', -2), ('inc_mod2_5', 2.5, 6, 'inc', 2.0)):
        if only is not None and name != only:
            continue
        obs = dict(output=None, error=None, harness=None)

        async def main(loop, mod=mod, init=init, et=et, obs=obs):
            edzed.reset_circuit()
            circuit = edzed.get_circuit()
            edzed.Input('src', initdef=1, on_output=edzed.Event('cnt', et))
            cnt = edzed.Counter('cnt', modulo=mod, initdef=init)
            task = asyncio.create_task(circuit.run_forever())
            try:
                await circuit.wait_init()
            except Exception as err:             # noqa
                obs['error'] = repr(circuit.error or err)[:200]
            obs['output'] = cnt.output if cnt.output is not edzed.UNDEF else 'UNDEF'
            try:
                await circuit.shutdown()
            except BaseException:                # noqa
                pass
        try:
            vloop.run_virtual(main, wall_limit_s=10.0)
        except BaseException as err:             # noqa
            obs['harness'] = repr(err)[:200]
        finally:
            edzed.reset_circuit()
        run.add_case(dict(event_during_init=name), True)
        run.count('event_during_init')
        ok = obs['harness'] is None and obs['error'] is None and obs['output'] == want
        run.add_obligation(ok)
        if not ok:
            run.violation('monitor', dict(case=dict(event_during_init=name), observed=obs),
                          f"Counter(modulo={mod}, initdef={init}) created after an Input whose initialisation sends "
                          f"it '{et}': output after wait_init() = {obs['output']!r} (expected {want!r}), error "
                          f"{obs['error']}; harness: {obs['harness']}", clause='event_during_init:' + name,
                          concrete=True)


def replay(run, path):
    _, case = common.load_replay_case(path)
    if isinstance(case, dict) and 'event_during_init' in case:
        return common.directed_replay(run, path, lambda: check_event_during_init(run, case['event_during_init']))
    return common.std_replay(run, C20(), path)
