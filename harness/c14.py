"""C14 - external events: correspondence of ExtEvent / is_ready / naming rule with coq/Model/ExtEvent.v"""
from __future__ import annotations

import asyncio

import edzed

from . import common, vloop
from .common import clist, cbool, cpair, copt, cstr
from .vals import dec, enc, cj, cjdata

IMPORTS = "From Verif Require Import Values ExtEvent.\nOpen Scope string_scope."
PHASES = ['PNotStarted', 'PTaskCreated', 'PInitialising', 'PRunning', 'PAborting', 'PCleaningUp',
          'PFinished']
SOURCES = ['', '_ext_', '_ext', 'gui', '_ext_gui', 'ext_', '_', '__ext_', '_EXT_x', 'x_ext_', ' _ext_']
VALUES = [["i", 0], ["i", 5], ["b", False], ["none"], ["s", "v"], ["f", "3/2"], ["t", [1, 2]], ["m", [["k", 1]]]]


class SlowInit(edzed.AddonAsync, edzed.SBlock):
    async def init_async(self):
        await asyncio.sleep(5)
        self.set_output('ready')


class SlowStop(edzed.AddonAsync, edzed.SBlock):
    def init_regular(self):
        self.set_output(0)

    async def stop_async(self):
        await asyncio.sleep(5)


class Probe(edzed.SBlock):
    def init_regular(self):
        self.set_output(0)

    def _event(self, etype, data):
        if etype == 'boom':
            raise RuntimeError('handler failure')
        return 'tok:' + self.name


class PProbe(edzed.AddonPersistence, Probe):
    """a destination that keeps persistent state: its event() goes through AddonPersistence"""
    def get_state(self):
        return self.output

    def _restore_state(self, state):
        self.set_output(state)


class EmptyErrors(RuntimeError):
    """an exception object that is falsy (an aggregate of errors that happens to be empty): still an
    error the simulation was stopped with"""
    def __bool__(self):
        return False

    def __len__(self):
        return 0


class C14(common.Spec):
    imports = IMPORTS
    case_type = 'c14case'
    verdict_fn = 'c14_verdict'

    # ----------------------------------------------------------------- implementation
    def run_impl(self, cases):
        obs = [None] * len(cases)
        groups = {}
        for i, c in enumerate(cases):
            if c['kind'] == 'send':
                groups.setdefault(c['scenario'], []).append(i)
            elif c['kind'] == 'name':
                obs[i] = self._name_case(c)
            else:
                obs[i] = self._ctor_case(c)
        for scen, idx in groups.items():
            for k in range(0, len(idx), 70):
                part = idx[k:k + 70]
                for i, o in zip(part, self._scenario(scen, [cases[i] for i in part])):
                    obs[i] = o
        return obs

    @staticmethod
    def _name_case(c):
        edzed.reset_circuit()
        try:
            if c['auto']:
                cls = type(c['cls'], (edzed.Input,), {})
                try:
                    names = [cls(None, initdef=0).name for _ in range(c['n'] + 1)]
                except ValueError:
                    return dict(name=None, err='EValue')
                return dict(name=names[-1])
            try:
                blk = edzed.Input(c['name'], initdef=0)
                if blk.name != c['name'] or edzed.get_circuit().findblock(c['name']) is not blk:
                    # accepted, but registered under ANOTHER name (the source of its events)
                    return dict(accepted=False, renamed=blk.name)
                return dict(accepted=True)
            except ValueError:
                return dict(accepted=False)
        finally:
            edzed.reset_circuit()

    @staticmethod
    def _ctor_case(c):
        edzed.reset_circuit()
        try:
            edzed.Input('sb', initdef=0)
            edzed.Not('cb').connect('sb')
            dest = {'DSBlock': 'sb', 'DCBlock': 'cb', 'DUnknownName': 'nope', 'DNotBlock': 42}[c['dest']]
            if c['dest'] == 'DSBlock' and c['by_object']:
                dest = edzed.get_circuit().findblock('sb')
            etype = 'put' if c['etype_ok'] else c['bad_etype']
            kw = {} if c['src_is_str'] is None else {'source': 'x' if c['src_is_str'] else 17}
            try:
                edzed.ExtEvent(dest, etype, **kw)
                return dict(res='ok')
            except Exception as err:
                return dict(res=common.exc_enum(err))
        finally:
            edzed.reset_circuit()

    def _scenario(self, scen, cases):
        obs = [None] * len(cases)
        abort_how = scen
        log = []
        depth = [0]

        def do_sends(phase, dests):
            for i, c in enumerate(cases):
                if c['phase'] != phase:
                    continue
                dest = dests[c['dest']]
                del log[:]
                kw = {k: dec(v) for k, v in c['items'].items()}
                if c['src'][0] == 'str':
                    kw['source'] = c['src'][1]
                elif c['src'][0] == 'other':
                    kw['source'] = 17
                args = () if c['value'] is None else (dec(c['value']),)
                try:
                    ev = edzed.ExtEvent(dest, c['etype'], **({} if c['dflt'] is None else
                                                            {'source': c['dflt']}))
                    ret = ev.send(*args, **kw)
                except Exception as err:
                    obs[i] = dict(kind='refused', err=common.exc_enum(err), delivered=len(log))
                    continue
                expected_ret = {'p': 'tok:p', 'pp': 'tok:pp', 'inp': True}.get(c['dest'], None)
                if c['dest'] == 'cnt':
                    expected_ret = dest.output
                obs[i] = dict(kind='delivered', n=len(log),
                              data={k: enc(v) for k, v in log[0].items()} if log else None,
                              ret_ok=(ret == expected_ret))

        async def main(loop):
            edzed.reset_circuit()
            circuit = edzed.get_circuit()
            # two of the destinations keep persistent state (send() must return the handler's value
            # through AddonPersistence.event as well)
            circuit.set_persistent_data({})
            dests = dict(p=Probe('p'), pp=PProbe('pp', persistent=True),
                         inp=edzed.Input('inp', initdef=0, persistent=True),
                         cnt=edzed.Counter('cnt', persistent=True))
            SlowInit('slowinit', init_timeout=20)
            SlowStop('slowstop', stop_timeout=20)
            if abort_how in ('ctrl_shutdown', 'ctrl_abort'):
                edzed.Event('_ctrl', 'shutdown')          # makes the control block exist
            crashed = []
            if abort_how == 'simerror':
                # a failure inside the simulation task itself: a combinational block cannot be evaluated
                def boomf(x):
                    if x == 13:
                        crashed.append(True)
                        raise RuntimeError('evaluation failed')
                    return x
                trig = edzed.Input('trig', initdef=0)
                edzed.FuncBlock('boomf', func=boomf).connect(trig)
            for blk in dests.values():
                orig = blk.event

                def wrapper(etype, /, _orig=orig, **data):
                    # only the outermost call (the one made by ExtEvent.send) is a delivery;
                    # nested calls are the block's own initialisation by event
                    if depth[0] == 0:
                        log.append(dict(data))
                    depth[0] += 1
                    try:
                        return _orig(etype, **data)
                    finally:
                        depth[0] -= 1
                blk.event = wrapper
            if abort_how in ('abort', 'ctrl'):
                # the application may finalize the circuit itself; it is still not started
                circuit.finalize()
            do_sends('PNotStarted', dests)
            task = asyncio.create_task(circuit.run_forever())
            do_sends('PTaskCreated', dests)
            await asyncio.sleep(1)
            do_sends('PInitialising', dests)
            await circuit.wait_init()
            do_sends('PRunning', dests)
            sh = None
            if abort_how == 'shutdown':
                sh = asyncio.create_task(circuit.shutdown())
                await asyncio.sleep(0)
            elif abort_how == 'abort':
                circuit.abort(EmptyErrors('abort by the application'))
            elif abort_how == 'handler':
                try:
                    dests['p'].event('boom')
                except RuntimeError:
                    pass
            elif abort_how == 'ctrl_shutdown':
                # a 'shutdown' event to the control block; the sends of the next phase follow in the
                # same loop iteration
                edzed.ExtEvent(circuit.findblock('_ctrl'), 'shutdown').send()
            elif abort_how == 'ctrl_abort':
                edzed.ExtEvent(circuit.findblock('_ctrl'), 'abort').send(error=RuntimeError('abort event'))
            elif abort_how == 'simerror':
                trig.event('put', value=13)
                for _ in range(50):
                    if crashed:
                        break
                    await asyncio.sleep(0)
                assert crashed, "harness: the failing block was not evaluated"
            elif abort_how == 'ctrl':
                edzed.ExtEvent(circuit.findblock('_ctrl') if '_ctrl' in circuit._blocks
                               else dests['p'], 'shutdown')
                circuit.abort(asyncio.CancelledError('x'))
            do_sends('PAborting', dests)
            await asyncio.sleep(1)
            do_sends('PCleaningUp', dests)
            try:
                await task
            except BaseException:
                pass
            if sh is not None:
                await sh
            do_sends('PFinished', dests)

        try:
            vloop.run_virtual(main)
        except vloop.HarnessTimeout:
            raise
        except Exception as err:       # noqa
            # the scenario itself broke down (e.g. an event accepted before the start made the start
            # fail): the phases that were not reached count as wrongly handled
            for i in range(len(obs)):
                if obs[i] is None:
                    obs[i] = dict(kind='scenario_failed', err=common.exc_enum(err), delivered=-1)
        finally:
            edzed.reset_circuit()
        return obs

    # ----------------------------------------------------------------- Coq side
    def emit(self, case, obs):
        if case['kind'] == 'name':
            if case['auto']:
                o = f"(Ok {cstr(obs['name'])})" if obs['name'] is not None else f"(Err {obs['err']})"
                return f"CN (NAuto {cstr(case['cls'])} {cstr(str(case['n']))} {o})"
            return f"CN (NUser {cstr(case['name'])} {cbool(obs['accepted'])})"
        if case['kind'] == 'ctor':
            o = 'Ok tt' if obs['res'] == 'ok' else f"Err {obs['res']}"
            return "CK {| k_dest := %s; k_etype_ok := %s; k_src_is_str := %s; k_obs := %s |}" % (
                case['dest'], cbool(case['etype_ok']), cbool(case['src_is_str'] is not False), o)
        src = {'absent': 'SrcAbsent', 'other': 'SrcOther'}.get(case['src'][0]) or \
            f"(SrcStr {cstr(case['src'][1])})"
        if obs['kind'] == 'delivered' and obs['n'] == 1 and obs['ret_ok']:
            try:
                o = f"ODelivered {cjdata(obs['data'])}"
            except common.Unrepresentable:
                o = "ORefused EOther"
        elif obs['kind'] == 'refused' and obs['delivered'] == 0:
            o = f"ORefused {obs['err']}"
        else:
            o = "ORefused EOther"       # delivered twice / wrong return value / error after delivery
        return ("CX {| x_phase := %s; x_dflt := %s; x_value := %s; x_src := %s; x_items := %s; "
                "x_obs := %s |}") % (
            case['phase'], cstr('_ext_' if case['dflt'] is None else case['dflt']),
            copt(case['value'], cj), src, cjdata(case['items']), o)

    def nontrivial(self, case, obs):
        return case['kind'] != 'send' or case['value'] is not None or case['src'][0] != 'absent' \
            or bool(case['items'])

    def clause(self, case, obs):
        if case['kind'] == 'send':
            return f"send:{case['phase']}:{obs['kind']}"
        if case['kind'] == 'name':
            return 'name:auto' if case['auto'] else 'name:user'
        return 'ctor'

    def shrink(self, case):
        if case['kind'] != 'send':
            return
        for k in list(case['items']):
            d = dict(case['items'])
            del d[k]
            yield dict(case, items=d)
        if case['value'] is not None:
            yield dict(case, value=None)
        if case['src'][0] != 'absent':
            yield dict(case, src=['absent'])
        if case['dflt'] is not None:
            yield dict(case, dflt=None)

    def neighbours(self, case, rng):
        if case['kind'] == 'send':
            for ph in PHASES:
                yield dict(case, phase=ph)

    def describe(self, case, obs):
        return f"{case}: observed {obs}"


def gen_cases(run):
    rng = run.rng
    cases = []
    scenarios = ['shutdown', 'abort', 'handler', 'simerror', 'ctrl_shutdown', 'ctrl_abort']
    n_per = 5 if run.tier == 'quick' else 150
    for scen in scenarios:
        for ph in PHASES:
            # the plain send in every phase, to every destination kind
            for dest, etype in (('p', 'ev'), ('inp', 'put'), ('cnt', 'inc')):
                cases.append(dict(kind='send', scenario=scen, phase=ph, dest=dest, etype=etype,
                                  dflt=None, value=["i", 1] if dest == 'inp' else None,
                                  src=['absent'], items={}))
            for _ in range(n_per * (3 if ph in ('PRunning', 'PInitialising') else 1)):
                items = {}
                value = rng.choice([None] + VALUES)
                for k in ('a', 'b', 'value', 'orig_source', 'trigger', 'etype'):
                    if rng.random() < 0.3 and not (k == 'value' and value is not None):
                        items[k] = rng.choice(VALUES)
                r = rng.random()
                src = ['absent'] if r < 0.4 else (['other'] if r < 0.5 else ['str', rng.choice(SOURCES)])
                cases.append(dict(kind='send', scenario=scen, phase=ph, dest=rng.choice(['p', 'pp']), etype='ev',
                                  dflt=rng.choice([None] + SOURCES),
                                  value=value, src=src, items=items))
    # every source string as default and as caller's source in a running circuit (exhaustive on the pool)
    for s in SOURCES:
        cases.append(dict(kind='send', scenario='shutdown', phase='PRunning', dest='p', etype='ev',
                          dflt=s, value=None, src=['absent'], items={}))
        cases.append(dict(kind='send', scenario='shutdown', phase='PRunning', dest='p', etype='ev',
                          dflt=None, value=None, src=['str', s], items={'x': ["i", 1]}))
    # block names
    for name in ['a', 'A1', '_a', '', '_ext_x', 'ext_', '__', 'a_b', ' x', '_', 'x_ext_', '_ctrl2',
                 '_not_a', 'ext_foo', ' _ext_hal', ' _a', 'a ', ' ', '  _', 'x _ext_']:
        cases.append(dict(kind='name', auto=False, name=name))
    for cls in ['Foo', 'Ext_foo', 'ext', 'extra', 'next_', 'MyInput', 'exT_x', 'e']:
        for n in (0, 1):
            cases.append(dict(kind='name', auto=True, cls=cls, n=n))
    cases.append(dict(kind='name', auto=True, cls='ext_Foo', n=0))
    cases.append(dict(kind='name', auto=True, cls='ext_', n=1))
    # constructor
    for dest in ('DSBlock', 'DCBlock', 'DUnknownName', 'DNotBlock'):
        for etype_ok in (True, False):
            for src in (None, True, False):
                cases.append(dict(kind='ctor', dest=dest, by_object=bool(rng.random() < 0.5),
                                  etype_ok=etype_ok, bad_etype=rng.choice(['', 5, None]),
                                  src_is_str=src))
    return cases


def check(run):
    spec = C14()
    run.rule = ("sends attempted in each of 7 life-cycle phases (before start, task created but not "
                "yet running, inside asynchronous initialisation at virtual t=1s, running, right "
                "after shutdown()/abort()/a failing handler before the simulation task reacted, "
                "during a slow stop_async, after the end) x destination kinds (probe, Input, "
                "Counter) x data shapes (positional value or not, default and caller's source from "
                "an 11-string pool incl. '', '_ext', '_ext_', ' _ext_', non-string source, extra "
                "items incl. 'value'); user block names and automatic names of dynamically created "
                "classes; ExtEvent constructor arguments. Non-trivial = carries a value, a source or "
                "items (or is a name/constructor case); distinct by JSON.")
    cases = gen_cases(run)
    for c in cases:
        run.count('kind_' + c['kind'])
        if c['kind'] == 'send':
            run.count('phase_' + c['phase'])
            run.count('src_' + c['src'][0])
    res = common.standard_flow(run, spec, cases)
    for c, o, ch in res:
        if c['kind'] == 'send':
            run.count('outcome_' + o['kind'] + ('_' + o.get('err', '') if o['kind'] == 'refused' else ''))
    check_refused_start(run)
    check_stop_with_closed_loop(run)
    check_stop_by_supporting_coroutine(run)
    check_send_from_simulation_task(run)
    check_abort_with_non_exception(run)


def check_stop_by_supporting_coroutine(run):
    """'while the circuit is shutting down it raises EdzedInvalidState and delivers nothing': the stop
    ordered by edzed.run() itself when one of its supporting coroutines has returned. Another
    supporting coroutine (cancelled by run(), still cleaning up) sends external events in the loop
    iterations that follow."""
    from . import vloop
    obs = dict(running=None, sends=[], output=None, run=None, harness=None)

    async def main(loop):
        edzed.reset_circuit()
        circuit = edzed.get_circuit()
        inp = edzed.Input('inp', initdef='initial')
        ext = edzed.ExtEvent(inp, source='cleanup')

        async def short_lived():
            await circuit.wait_init()
            obs['running'] = ext.send('running')
            # returning makes edzed.run() stop the simulation and cancel the other coroutine

        async def with_cleanup():
            try:
                await asyncio.sleep(10)
            except asyncio.CancelledError:
                for k in range(1, 4):
                    await asyncio.sleep(0)          # run() has ordered the stop in the meantime
                    try:
                        obs['sends'].append([k, circuit.is_ready(), 'delivered', repr(ext.send(f'late{k}'))])
                    except Exception as err:     # noqa
                        obs['sends'].append([k, circuit.is_ready(), 'refused', type(err).__name__])
                raise
        try:
            obs['run'] = ['returned', repr(await edzed.run(short_lived(), with_cleanup(), catch_sigterm=False))]
        except BaseException as err:             # noqa
            obs['run'] = ['raised', type(err).__name__]
        obs['output'] = inp.output
    try:
        vloop.run_virtual(main, wall_limit_s=10.0)
    except BaseException as err:                  # noqa
        obs['harness'] = repr(err)[:200]
    finally:
        edzed.reset_circuit()
    run.add_case(dict(stop_by_supporting_coroutine=True), True)
    run.count('stop_by_supporting_coroutine')
    ok = (obs['harness'] is None and obs['running'] is True and obs['output'] == 'running'
          and obs['sends'] == [[k, False, 'refused', 'EdzedInvalidState'] for k in range(1, 4)]
          and obs['run'] == ['returned', 'None'])
    run.add_obligation(ok)
    if not ok:
        run.violation('monitor', dict(case=dict(stop_by_supporting_coroutine=True), observed=obs),
                      f"edzed.run(short_lived(), with_cleanup()): the first coroutine returned, run() ordered the "
                      f"stop; external events sent by the second one 1, 2 and 3 loop iterations after its "
                      f"cancellation: {obs['sends']} (expected [k, is_ready()=False, 'refused', 'EdzedInvalidState']), "
                      f"output of the destination {obs['output']!r} (expected 'running'), run() {obs['run']}; "
                      f"harness: {obs['harness']}", clause='stop_by_supporting_coroutine', concrete=True)


def check_send_from_simulation_task(run):
    """'after any kind of stop and while the circuit is shutting down it raises EdzedInvalidState and
    delivers nothing' - whoever the sender is: code running INSIDE the simulation task (a block's stop()
    hook during the clean-up; an event handler that goes on after it has called abort()) is refused like
    everybody else."""
    from . import vloop
    obs = dict(handler=None, cleanup=None, output=None, harness=None)

    async def main(loop):
        edzed.reset_circuit()
        circuit = edzed.get_circuit()
        inp = edzed.Input('inp', initdef='initial')
        ext = edzed.ExtEvent(inp, source='inside')

        def attempt(tag):
            try:
                return ['delivered', repr(ext.send(tag)), circuit.is_ready()]
            except Exception as err:             # noqa
                return ['refused', type(err).__name__, circuit.is_ready()]

        class Inside(edzed.SBlock):
            def init_regular(self):
                self.set_output(0)

            def _event_fail(self, **_data):
                # reached from a CBlock's on_output, i.e. inside the simulation task
                self.circuit.abort(RuntimeError('stop requested by a handler'))
                obs['handler'] = attempt('after abort')

            def stop(self):
                obs['cleanup'] = attempt('from stop()')
        ins = Inside('ins')
        trig = edzed.Input('trig', initdef=0)
        edzed.FuncBlock('fb', func=lambda v: v, on_output=edzed.Event(ins, 'fail', efilter=edzed.not_from_undef)
                        ).connect(trig)
        task = asyncio.create_task(circuit.run_forever())
        await circuit.wait_init()
        trig.event('put', value=1)
        await asyncio.wait([task], timeout=2.0)
        obs['output'] = inp.output
    try:
        vloop.run_virtual(main, wall_limit_s=10.0)
    except BaseException as err:                  # noqa
        obs['harness'] = repr(err)[:200]
    finally:
        edzed.reset_circuit()
    run.add_case(dict(send_from_simulation_task=True), True)
    run.count('send_from_simulation_task')
    want = ['refused', 'EdzedInvalidState', False]
    ok = (obs['harness'] is None and obs['handler'] == want and obs['cleanup'] == want
          and obs['output'] == 'initial')
    run.add_obligation(ok)
    if not ok:
        run.violation('monitor', dict(case=dict(send_from_simulation_task=True), observed=obs),
                      f"external events sent from inside the simulation task of a circuit that is being stopped: by "
                      f"a handler after its own abort() -> {obs['handler']}, by a block's stop() during the clean-up "
                      f"-> {obs['cleanup']} (expected {want} twice), destination output {obs['output']!r} (expected "
                      f"'initial'); harness: {obs['harness']}", clause='send_from_simulation_task', concrete=True)


def check_abort_with_non_exception(run, only=None):
    """'after any kind of stop ... it raises EdzedInvalidState and delivers nothing': abort() called with
    something that is not an exception (None, a string, an exception class) is a stop request all the same."""
    from . import vloop
    for name, arg in (('none', None), ('string', 'stop it'), ('zero', 0), ('class', RuntimeError)):
        if only is not None and name != only:
            continue
        obs = dict(abort=None, ready=None, send=None, output=None, harness=None)

        async def main(loop, arg=arg, obs=obs):
            edzed.reset_circuit()
            circuit = edzed.get_circuit()
            inp = edzed.Input('inp', initdef='initial')
            ext = edzed.ExtEvent(inp, source='late')
            task = asyncio.create_task(circuit.run_forever())
            await circuit.wait_init()
            try:
                circuit.abort(arg)
                obs['abort'] = 'returned'
            except Exception as err:             # noqa
                obs['abort'] = type(err).__name__
            obs['ready'] = circuit.is_ready()
            try:
                obs['send'] = ['delivered', repr(ext.send('late'))]
            except Exception as err:             # noqa
                obs['send'] = ['refused', type(err).__name__]
            obs['output'] = inp.output
            await asyncio.wait([task], timeout=2.0)
        try:
            vloop.run_virtual(main, wall_limit_s=10.0)
        except BaseException as err:              # noqa
            obs['harness'] = repr(err)[:200]
        finally:
            edzed.reset_circuit()
        run.add_case(dict(abort_with_non_exception=name), True)
        run.count('abort_with_non_exception')
        ok = (obs['harness'] is None and obs['ready'] is False and obs['send'] == ['refused', 'EdzedInvalidState']
              and obs['output'] == 'initial')
        run.add_obligation(ok)
        if not ok:
            run.violation('monitor', dict(case=dict(abort_with_non_exception=name), observed=obs),
                          f"Circuit.abort({arg!r}) in a running circuit -> {obs['abort']}; is_ready() {obs['ready']} "
                          f"(expected False), an external event sent right afterwards: {obs['send']} (expected "
                          f"refused with EdzedInvalidState), destination output {obs['output']!r}; harness: "
                          f"{obs['harness']}", clause='abort_with_non_exception:' + name, concrete=True)


def check_stop_with_closed_loop(run):
    """'after any kind of stop ... it raises EdzedInvalidState and delivers nothing': a stop request
    (abort) made after the application closed the event loop without a shutdown.  The simulation task
    cannot be cancelled any more (Task.cancel() raises 'Event loop is closed'); the stop was requested
    all the same and the circuit must not accept events afterwards."""
    obs = dict(before=None, abort=None, ready=None, send=None, harness=None)
    delivered = []
    keep = []
    try:
        edzed.reset_circuit()
        circuit = edzed.get_circuit()

        class P(edzed.SBlock):
            def init_regular(self):
                self.set_output(0)

            def _event(self, etype, data):
                delivered.append(dict(data))
                return 'handled'
        p = P('p')
        ev = edzed.ExtEvent(p, 'put', source='late')
        loop = asyncio.new_event_loop()

        async def start():
            keep.append(asyncio.create_task(circuit.run_forever()))
            await circuit.wait_init()
            obs['before'] = ev.send(1)
            for _ in range(5):
                await asyncio.sleep(0)
        loop.run_until_complete(start())
        loop.close()
        try:
            circuit.abort(edzed.EdzedCircuitError('application exit'))
            obs['abort'] = 'returned'
        except Exception as err:                  # noqa
            obs['abort'] = type(err).__name__
        obs['ready'] = circuit.is_ready()
        try:
            obs['send'] = ['delivered', repr(ev.send(2))]
        except Exception as err:                  # noqa
            obs['send'] = ['refused', type(err).__name__]
    except BaseException as err:                  # noqa
        obs['harness'] = repr(err)[:200]
    finally:
        edzed.reset_circuit()
    run.add_case(dict(stop_with_closed_loop=True), True)
    run.count('stop_with_closed_loop')
    ok = (obs['harness'] is None and obs['before'] == 'handled' and obs['ready'] is False
          and obs['send'] == ['refused', 'EdzedInvalidState'] and len(delivered) == 1)
    run.add_obligation(ok)
    if not ok:
        run.violation('monitor', dict(case=dict(stop_with_closed_loop=True), observed=obs),
                      f"abort() after the event loop was closed: abort -> {obs['abort']}, is_ready()={obs['ready']}, "
                      f"send -> {obs['send']} (expected: refused with EdzedInvalidState), deliveries {len(delivered)} "
                      f"(expected 1, made while running); harness: {obs['harness']}",
                      clause='send_after_stop_with_closed_loop', concrete=True)


def check_refused_start(run):
    """'before the start ... it raises EdzedInvalidState and delivers nothing': a circuit whose start was
    REFUSED (eager task factory, Python 3.12+: run_forever() raises before anything is set up) has not
    been started; sends must still be refused afterwards."""
    if not hasattr(asyncio, 'eager_task_factory'):
        return
    obs = dict(start=None, sends=[], ready=None, harness=None)
    delivered = []

    async def main(loop):
        edzed.reset_circuit()
        circuit = edzed.get_circuit()

        class P(edzed.SBlock):
            def init_regular(self):
                self.set_output(0)

            def _event(self, etype, data):
                delivered.append(etype)
                return 'handled'
        p = P('p')
        inp = edzed.Input('inp', initdef=0)
        loop.set_task_factory(asyncio.eager_task_factory)
        try:
            try:
                await circuit.run_forever()
                obs['start'] = 'returned'
            except BaseException as err:      # noqa
                obs['start'] = type(err).__name__
        finally:
            loop.set_task_factory(None)
        await asyncio.sleep(0)
        obs['ready'] = circuit.is_ready()
        for dest, et, kw in ((p, 'ev', {}), (inp, 'put', {'value': 3})):
            try:
                r = edzed.ExtEvent(dest, et).send(**kw)
                obs['sends'].append(['delivered', repr(r)])
            except Exception as err:          # noqa
                obs['sends'].append(['refused', type(err).__name__])
    try:
        vloop.run_virtual(main)
    except BaseException as err:              # noqa
        obs['harness'] = repr(err)[:200]
    finally:
        edzed.reset_circuit()
    run.add_case(dict(refused_start='eager_task_factory'), True)
    run.count('refused_start')
    ok = (obs['harness'] is None and obs['start'] == 'RuntimeError' and obs['ready'] is False and not delivered
          and obs['sends'] == [['refused', 'EdzedInvalidState']] * 2)
    run.add_obligation(ok)
    if not ok:
        run.violation('monitor', dict(case=dict(refused_start='eager_task_factory'), observed=obs),
                      f"a start refused under the eager task factory: run_forever() -> {obs['start']}, then "
                      f"is_ready()={obs['ready']}, sends {obs['sends']} (expected: refused with EdzedInvalidState, "
                      f"nothing delivered; delivered: {delivered}); harness: {obs['harness']}",
                      clause='send_after_refused_start', concrete=True)


def replay(run, path):
    _, case = common.load_replay_case(path)
    if isinstance(case, dict) and 'refused_start' in case:
        return common.directed_replay(run, path, lambda: check_refused_start(run))
    if isinstance(case, dict) and 'stop_with_closed_loop' in case:
        return common.directed_replay(run, path, lambda: check_stop_with_closed_loop(run))
    if isinstance(case, dict) and 'abort_with_non_exception' in case:
        return common.directed_replay(run, path,
                                      lambda: check_abort_with_non_exception(run, case['abort_with_non_exception']))
    if isinstance(case, dict) and 'send_from_simulation_task' in case:
        return common.directed_replay(run, path, lambda: check_send_from_simulation_task(run))
    if isinstance(case, dict) and 'stop_by_supporting_coroutine' in case:
        return common.directed_replay(run, path, lambda: check_stop_by_supporting_coroutine(run))
    return common.std_replay(run, C14(), path)
