"""C08 - lifecycle: fault sites x termination causes x instants x circuit compositions, observed
start/stop/stop_async order and leftovers vs coq/Model/Lifecycle.v"""
from __future__ import annotations

import asyncio
import os
import signal

import edzed

from . import common, vloop
from .common import clist, cbool, cnat

IMPORTS = "From Verif Require Import Values Lifecycle."
MS = 0.001


class Boom(Exception):
    pass


CAUSES = ['shutdown', 'support_return', 'support_raise', 'sigterm', 'ctrl_shutdown', 'ctrl_abort', 'abort']
SECOND = ['abort', 'cancel_abort', 'sigterm', 'ctrl_shutdown', 'ctrl_abort']


def run_one(case):
    log = []          # ['start'|'stop'|'sa_begin'|'sa_end', name]
    flog = {}         # output functions: name -> list of values
    obs = dict(log=log, names=[], async_names=[], leaked_tasks=None, leaked_timers=None, stop_data_last=None,
               restart_refused=None, modify_refused=None, run_exc=None, harness=None, started_outputs=[],
               sa_times=[], stop_timeouts={})

    async def main(loop):
        edzed.reset_circuit()
        circuit = edzed.get_circuit()
        store = {}
        circuit.set_persistent_data(store)

        class Probe(edzed.AddonPersistence, edzed.SBlock):
            def __init__(self, *a, fault=None, **kw):
                self.fault = fault
                super().__init__(*a, **kw)

            def start(self):
                if self.fault == 'start':
                    raise Boom('start')
                super().start()

            # get_state() is the default one: it raises for a block that is not initialised yet

            def _restore_state(self, state):
                if self.fault == 'restore':
                    raise Boom('restore')
                self.set_output(state)

            def init_regular(self):
                if self.fault == 'init_regular':
                    raise Boom('init_regular')
                if self.fault != 'init_from_value':
                    self.set_output(0)

            def init_from_value(self, value):
                if self.fault == 'init_from_value':
                    raise Boom('init_from_value')
                self.set_output(value)

            def _event_put(self, *, value, **_d):
                self.set_output(value)

            def _event_boom(self, **_d):
                raise Boom('handler')

            def stop(self):
                if self.fault == 'stop':
                    raise Boom('stop')
                super().stop()

        class AProbe(edzed.AddonAsync, edzed.SBlock):
            def __init__(self, *a, bd=None, **kw):
                self.bd = bd
                super().__init__(*a, **kw)

            def start(self):
                if self.bd.get('fault') == 'start':
                    raise Boom('start')
                super().start()

            async def init_async(self):
                await asyncio.sleep(self.bd['init_ms'] * MS)
                if self.bd.get('fault') == 'init_async':
                    raise Boom('init_async')
                self.set_output(0)

            def init_regular(self):
                if not self.is_initialized():
                    self.set_output(0)

            def stop(self):
                if self.bd.get('fault') == 'stop':
                    raise Boom('stop')
                super().stop()

            async def stop_async(self):
                if self.bd['stop_ms'] == 'never':
                    await asyncio.Event().wait()
                await asyncio.sleep(self.bd['stop_ms'] * MS)
                if self.bd.get('fault') == 'stop_async':
                    raise Boom('stop_async')

        class MT(edzed.AddonMainTask, edzed.SBlock):
            def __init__(self, *a, fault=None, **kw):
                self.fault = fault
                super().__init__(*a, **kw)

            def init_regular(self):
                self.set_output(0)

            async def _maintask(self):
                if self.fault == 'main':
                    await asyncio.sleep(7 * MS)
                    raise Boom('main task')
                try:
                    while True:
                        await asyncio.sleep(1)
                finally:
                    if self.fault == 'slow_cleanup':
                        # the main task's own clean-up takes longer than the block's stop_timeout
                        await asyncio.sleep(100 * MS)

        class F(edzed.FSM):
            STATES = ['off', 'on', 'warm']
            # 'warm' -> 'on' is a timed state entered by the expiry of another timer
            TIMERS = {'on': (1.0, 'stop'), 'warm': (2 * MS, 'go')}
            EVENTS = [['start', ['off'], 'on'], ['stop', None, 'off'], ['go', ['warm'], 'on']]

            def __init__(self, *args, fault=None, **kwargs):
                self.fault = fault
                super().__init__(*args, **kwargs)

            def calc_output(self):
                if self.fault == 'calc_output':
                    # fails when the initial state has been entered and its timer is already set
                    raise Boom('fsm calc_output')
                return super().calc_output()

        first_probe = None
        for idx, bd in enumerate(case['blocks']):
            name = f"b{idx}"
            t = bd['t']
            if t == 'probe':
                kw = {}
                if bd.get('persistent'):
                    kw['persistent'] = True
                if idx == 0:
                    # b0's first output (set in its init_regular, i.e. in the simulation task) is sent as a
                    # 'boom' event to every probe with the fault site 'handler_init'
                    evs = [edzed.Event(f"b{j}", 'boom') for j, x in enumerate(case['blocks'])
                           if x['t'] == 'probe' and x.get('fault') == 'handler_init' and j != 0]
                    if evs:
                        kw['on_output'] = evs
                if bd.get('fault') == 'restore':
                    kw['persistent'] = True
                if bd.get('fault') == 'init_from_value':
                    kw['initdef'] = 5
                blk = Probe(name, fault=bd.get('fault'), **kw)
                if bd.get('fault') == 'restore':
                    store[blk.key] = 3
                if first_probe is None:
                    first_probe = blk
            elif t == 'aprobe':
                blk = AProbe(name, bd=bd, init_timeout=bd.get('init_timeout_ms', 20) * MS,
                             stop_timeout=bd.get('stop_timeout_ms', 20) * MS)
            elif t == 'mtask':
                blk = MT(name, fault=bd.get('fault'), stop_timeout=(5 if bd.get('fault') == 'slow_cleanup' else 20) * MS)
            elif t == 'fsm':
                blk = F(name, fault=bd.get('fault'), initdef='warm' if bd.get('chain') else 'on')
            elif t == 'repeat':
                blk = edzed.Repeat(name, dest='b0', etype='put', interval=1.0)
            elif t == 'vpoll':
                blk = edzed.ValuePoll(name, func=lambda: 1, interval=1 * MS, stop_timeout=20 * MS)
            elif t == 'oasync':
                flog[name] = []

                if bd.get('empty_stop'):
                    # a coroutine without arguments: stop_data is the EMPTY mapping (still not None)
                    async def coro0(_name=name):
                        await asyncio.sleep(2 * MS)
                        flog[_name].append('STOP')
                    blk = edzed.OutputAsync(name, coro=coro0, mode=bd['mode'], f_args=(), stop_data={},
                                            on_error=None, stop_timeout=50 * MS)
                elif bd.get('slow'):
                    # the run (for the stop_data, too) takes far longer than the block's stop_timeout:
                    # the clean-up is cut short and the output task must go with it
                    async def coro_slow(value, _name=name):
                        flog[_name].append(value)
                        await asyncio.sleep(300 * MS)
                    blk = edzed.OutputAsync(name, coro=coro_slow, mode=bd['mode'], stop_data={'value': 'STOP'},
                                            on_error=None, stop_timeout=5 * MS)
                else:
                    async def coro(value, _name=name):
                        await asyncio.sleep(2 * MS)
                        flog[_name].append(value)
                    blk = edzed.OutputAsync(name, coro=coro, mode=bd['mode'], stop_data={'value': 'STOP'},
                                            on_error=None, stop_timeout=50 * MS)
            elif t == 'ofunc':
                flog[name] = []

                def func(value, _name=name):
                    flog[_name].append(value)
                blk = edzed.OutputFunc(name, func=func, stop_data={'value': 'STOP'}, on_error=None)
            elif t == 'func':
                def f(x, _fault=bd.get('fault')):
                    if _fault == 'calc0' or (_fault == 'calc' and x == 13):
                        raise Boom('calc')
                    return x
                evs = [edzed.Event(f"b{j}", 'boom') for j, x in enumerate(case['blocks'])
                       if x['t'] == 'probe' and x.get('fault') == 'handler_sim']
                blk = edzed.FuncBlock(name, func=f, on_output=evs or None).connect('b0')
            elif t == 'timedate':
                blk = edzed.TimeDate(name, times="0:0-1:0")
            else:
                raise common.Broken(f"unknown block type {t}")
        ctl = edzed.ControlBlock('ctl')
        # (the events are created with the circuit: names are resolved when the circuit is finalized)
        ev_shutdown = edzed.Event.shutdown() if hasattr(edzed.Event, 'shutdown') else edzed.Event('ctl', 'shutdown')
        ev_abort = edzed.Event('ctl', 'abort')

        allblocks = list(circuit.getblocks())
        obs['names'] = [b.name for b in allblocks]
        for b in allblocks:
            def mk(b):
                ostart, ostop = b.start, b.stop

                def wstart():
                    r = ostart()
                    log.append(['start', b.name])
                    return r

                def wstop():
                    log.append(['stop', b.name])
                    return ostop()
                b.start, b.stop = wstart, wstop
                if isinstance(b, edzed.AddonAsync) and b.has_method('stop_async'):
                    if b.stop_timeout > 0:
                        obs['async_names'].append(b.name)
                        obs['stop_timeouts'][b.name] = round(b.stop_timeout * 1e6)
                    osa = b.stop_async

                    async def wsa():
                        log.append(['sa_begin', b.name])
                        obs['sa_times'].append(loop.vt_us)
                        try:
                            return await osa()
                        finally:
                            log.append(['sa_end', b.name])
                            obs['sa_times'].append(loop.vt_us)
                    b.stop_async = wsa
            mk(b)

        def fire(cause):
            if cause == 'abort':
                circuit.abort(Boom('abort'))
            elif cause == 'cancel_abort':
                circuit.abort(asyncio.CancelledError('second shutdown request'))
            elif cause == 'sigterm':
                os.kill(os.getpid(), signal.SIGTERM)
            elif cause == 'ctrl_shutdown':
                try:
                    ev_shutdown.send(ctl)
                except Exception:
                    pass
            elif cause == 'ctrl_abort':
                try:
                    ev_abort.send(ctl, error=Boom('reported'))
                except Exception:
                    pass

        handles = []
        t_first = {'async_init': 2, 'running': 9}.get(case['instant'])
        cause = case['cause']
        if cause is not None and case['instant'] == 'before_start':
            if cause == 'abort':
                circuit.abort(Boom('abort before start'))
            else:
                circuit.abort(asyncio.CancelledError('shutdown before start'))
        elif cause in ('abort', 'sigterm', 'ctrl_shutdown', 'ctrl_abort'):
            handles.append(loop.call_later(t_first * MS, fire, cause))
        if case['second'] is not None:
            # one ms after the termination has begun (the error of a fault site, or the first cause)
            t2 = (t_first if cause is not None and t_first is not None else case['fault_ms']) + 1
            handles.append(loop.call_later(t2 * MS, fire, case['second']))

        async def support():
            if case['wait_init']:
                try:
                    await circuit.wait_init()
                except edzed.EdzedInvalidState:
                    return
            if case['instant'] == 'async_init' and cause in ('shutdown', 'support_return', 'support_raise'):
                await asyncio.sleep(2 * MS)
            else:
                delay = 6 * MS - loop.time()
                if delay > 0:
                    await asyncio.sleep(delay)
                # driver actions while running: events for handler/calc fault sites, work for outputs
                for b in allblocks:
                    try:
                        if isinstance(b, Probe) and b.fault == 'handler':
                            b.event('boom')
                        if isinstance(b, (edzed.OutputAsync, edzed.OutputFunc)):
                            b.event('put', value=1)
                        if isinstance(b, edzed.Repeat):
                            b.event('put', value=5)
                    except Exception:
                        pass
                if any(bd.get('fault') in ('calc', 'handler_sim') for bd in case['blocks']) and first_probe is not None:
                    try:
                        first_probe.event('put', value=13)
                    except Exception:
                        pass
                delay = 9 * MS - loop.time()
                if delay > 0:
                    await asyncio.sleep(delay)
            if cause == 'shutdown':
                await circuit.shutdown()
            elif cause == 'support_return':
                return
            elif cause == 'support_raise':
                raise Boom('support')
            await asyncio.sleep(1)      # until cancelled (or the horizon of this scenario)

        async def support2():
            # a second supporting coroutine whose own clean-up takes a few loop iterations after the
            # cancellation: run() must wait for it, too
            try:
                await asyncio.sleep(1000)
            finally:
                for _ in range(3):
                    await asyncio.sleep(0)

        plain = bool(case.get('plain_run')) and cause in ('sigterm', 'shutdown', 'abort', 'ctrl_shutdown', 'ctrl_abort')
        drv = None
        try:
            if plain:
                # run() without supporting coroutines: the scenario is driven by a task of the harness,
                # only the cause itself (a signal, a request, an error) ends the simulation
                async def plain_driver():
                    await support()
                    await asyncio.sleep(3)
                    if circuit.is_ready():
                        obs['not_stopped'] = cause
                        circuit.abort(asyncio.CancelledError('harness: the simulation was not stopped'))
                drv = asyncio.create_task(plain_driver())
                await edzed.run(catch_sigterm=True)
            else:
                await edzed.run(support(), support2(), catch_sigterm=True)
        except BaseException as err:      # noqa
            obs['run_exc'] = type(err).__name__ + ': ' + str(err)[:100]
        if drv is not None:
            drv.cancel()
            await asyncio.gather(drv, return_exceptions=True)
        me = asyncio.current_task()
        for h in handles:
            h.cancel()
        def tname(t):
            nm = t.get_name()
            if nm.startswith('Task-'):       # unnamed: identify it by its coroutine
                nm = 'unnamed:' + getattr(t.get_coro(), '__qualname__', '?')
            return nm
        # pending = not finished and not already cancelled; a task whose cancellation has been
        # requested must be gone after one more loop iteration
        pend = [t for t in asyncio.all_tasks() if t is not me and not t.done()]
        leaked = [t for t in pend if not t.cancelling()]
        await asyncio.sleep(0)
        leaked += [t for t in pend if t.cancelling() and not t.done()]
        obs['leaked_tasks'] = sorted(tname(t) for t in leaked)
        if obs.get('not_stopped'):
            obs['leaked_tasks'].append('edzed: simulation not stopped by ' + str(obs['not_stopped']))
        obs['leaked_timers'] = [repr(h)[:120] for h in loop.pending_timers()]
        obs['error'] = repr(circuit.error)[:120]
        started = {n for k, n in log if k == 'start'}
        ok = True
        for name, calls in flog.items():
            if name in started and (not calls or calls[-1] != 'STOP'):
                ok = False
        obs['stop_data_last'] = ok
        obs['flog'] = {k: v[-3:] for k, v in flog.items()}
        try:
            await circuit.run_forever()
            obs['restart_refused'] = False
        except edzed.EdzedInvalidState:
            obs['restart_refused'] = True
        except BaseException as err:   # noqa
            obs['restart_refused'] = False
            obs['restart_exc'] = repr(err)[:100]
        try:
            edzed.Input('late', initdef=0)
            obs['modify_refused'] = False
        except Exception:
            obs['modify_refused'] = True
        # anything that shows up later is a leftover too
        n0 = len(log)
        await asyncio.sleep(5)
        obs['late_events'] = log[n0:]

    # a SIGTERM that arrives when edzed.run() has already restored the previous handler must not
    # kill the harness
    old_term = signal.signal(signal.SIGTERM, lambda *_a: obs.__setitem__('sigterm_outside_run', True))
    try:
        vloop.run_virtual(main, wall_limit_s=10.0)
    except vloop.HarnessTimeout:
        obs['harness'] = 'timeout'
    except BaseException as err:       # noqa
        obs['harness'] = repr(err)[:300]
    finally:
        signal.signal(signal.SIGTERM, old_term)
        edzed.reset_circuit()
    return obs


class C08(common.Spec):
    imports = IMPORTS
    case_type = 'lcase'
    verdict_fn = 'l_verdict'
    shard = 200

    def run_impl(self, cases):
        return [run_one(c) for c in cases]

    def emit(self, case, obs):
        if obs['harness'] is not None or obs['leaked_tasks'] is None:
            raise common.HarnessProblem(f"C08 harness problem: {obs['harness']} on {case}")
        idx = {n: i for i, n in enumerate(obs['names'])}
        n = len(idx)
        sf = None
        for i, bd in enumerate(case['blocks']):
            if bd.get('fault') == 'start':
                sf = idx[f"b{i}"]
                break
        pre = case['cause'] is not None and case['instant'] == 'before_start'
        plan = (f"(Build_lplan {cnat(n)} {clist([cnat(idx[a]) for a in obs['async_names']])} {cbool(pre)} "
                + (f"(Some {cnat(sf)})" if sf is not None else "None") + ")")
        ev = dict(start='LStart', stop='LStop', sa_begin='LSaBegin', sa_end='LSaEnd')
        lg = clist([f"({ev[k]} {cnat(idx[nm])})" for k, nm in obs['log'] + obs.get('late_events', [])])
        dur = (max(obs['sa_times']) - min(obs['sa_times'])) if obs['sa_times'] else 0
        begun = {nm for k, nm in obs['log'] if k == 'sa_begin'}
        bound = max([obs['stop_timeouts'].get(nm, 0) for nm in begun] + [0])
        return (f"(Build_lcase {plan} {lg} {cnat(len(obs['leaked_tasks']))} {cnat(len(obs['leaked_timers']))} "
                f"{cbool(obs['stop_data_last'])} {cbool(obs['restart_refused'])} {cbool(obs['modify_refused'])} "
                f"{common.cz(dur)} {common.cz(bound)})")

    def nontrivial(self, case, obs):
        return any(k == 'sa_begin' for k, _ in obs['log'])

    def shrink(self, case):
        bl = case['blocks']
        for i in range(1, len(bl)):           # b0 is referenced by others
            if bl[i]['t'] in ('func', 'repeat'):
                yield dict(case, blocks=bl[:i] + bl[i + 1:])
        for i in range(len(bl) - 1, 0, -1):
            if not any(b['t'] in ('func', 'repeat') for b in bl):
                yield dict(case, blocks=bl[:i] + bl[i + 1:])
        if case['second'] is not None:
            yield dict(case, second=None)
        if case['wait_init']:
            yield dict(case, wait_init=False)
        for i, bd in enumerate(bl):
            if bd.get('fault'):
                nb = [dict(b) for b in bl]
                nb[i]['fault'] = None
                yield dict(case, blocks=nb)

    def neighbours(self, case, rng):
        for sec in [None] + SECOND:
            for cause in [None] + CAUSES:
                for inst in ('async_init', 'running'):
                    yield dict(case, second=sec, cause=cause, instant=inst, wait_init=False)

    def known_class(self, case, obs):
        # an OutputAsync in 'wait' or 'start' mode whose runs outlast its stop_timeout: the clean-up goes
        # on after the timeout (listed finding C08-outputasync-stop-timeout-not-enforced); everything
        # else about the run is in order
        if obs.get('leaked_tasks') or obs.get('leaked_timers') or not obs.get('stop_data_last'):
            return None
        if not (obs.get('sa_times') and obs.get('stop_timeouts')):
            return None
        slow = {f"b{i}" for i, bd in enumerate(case['blocks'])
                if bd['t'] == 'oasync' and bd.get('slow') and bd.get('mode') in ('wait', 'start')}
        begun = {nm for k, nm in obs['log'] if k == 'sa_begin'}
        bound = max([obs['stop_timeouts'].get(nm, 0) for nm in begun] + [0])
        if slow & begun and max(obs['sa_times']) - min(obs['sa_times']) > bound + 1000:
            return 'output_cleanup_exceeds_stop_timeout'
        return None

    def clause(self, case, obs):
        if obs['leaked_tasks']:
            kinds = sorted({t.split(' for ')[0].split(' #')[0].split(" '")[0][:40] for t in obs['leaked_tasks']})
            return 'leaked_task:' + ','.join(kinds)
        if obs['leaked_timers']:
            return 'leaked_timer'
        if not obs['stop_data_last']:
            return 'stop_data_not_last'
        if obs['sa_times'] and obs['stop_timeouts']:
            begun = {nm for k, nm in obs['log'] if k == 'sa_begin'}
            bound = max([obs['stop_timeouts'].get(nm, 0) for nm in begun] + [0])
            if max(obs['sa_times']) - min(obs['sa_times']) > bound + 1000:
                return self.known_class(case, obs) or 'async_cleanup_longer_than_stop_timeout'
        if not obs['restart_refused']:
            return 'restart_possible'
        if not obs['modify_refused']:
            return 'modification_possible'
        starts = [n for k, n in obs['log'] if k == 'start']
        stops = [n for k, n in obs['log'] + obs.get('late_events', []) if k == 'stop']
        if sorted(starts) != sorted(stops):
            return 'stops_differ_from_starts'
        return 'cleanup_order'

    def describe(self, case, obs):
        return (f"{case}: names {obs['names']}, async clean-up {obs['async_names']}, log {obs['log']}, "
                f"late {obs.get('late_events')}, leaked tasks {obs['leaked_tasks']}, leaked timers "
                f"{obs['leaked_timers']}, stop_data last {obs['stop_data_last']} {obs.get('flog')}, restart "
                f"refused {obs['restart_refused']}, modification refused {obs['modify_refused']}, run() -> "
                f"{obs['run_exc']}, circuit.error {obs.get('error')}")


def gen_case(rng):
    n = rng.randrange(1, 6)
    blocks = [dict(t='probe')]
    pool = ['probe', 'probe', 'aprobe', 'aprobe', 'mtask', 'fsm', 'repeat', 'vpoll', 'oasync', 'ofunc', 'func',
            'timedate']
    for _ in range(n):
        t = rng.choice(pool)
        bd = dict(t=t)
        if t == 'aprobe':
            bd['init_ms'] = rng.choice([1, 4, 4])
            bd['stop_ms'] = rng.choice([1, 3, 3, 'never'])
            bd['stop_timeout_ms'] = rng.choice([20, 20, 2, 0])
            if bd['stop_ms'] == 'never' and bd['stop_timeout_ms'] == 20:
                bd['stop_timeout_ms'] = 5
        if t == 'oasync':
            bd['mode'] = rng.choice(['wait', 'cancel', 'start'])
            if rng.random() < 0.3:
                bd['empty_stop'] = True
            elif rng.random() < 0.3:
                bd['slow'] = True
        if t == 'fsm' and rng.random() < 0.5:
            bd['chain'] = True
        blocks.append(bd)
    for bd in blocks:
        if bd['t'] == 'probe' and rng.random() < 0.4:
            bd['persistent'] = True
    rng.shuffle(blocks)
    # b0 must be a probe (event destination / input of FuncBlocks)
    k = next(i for i, b in enumerate(blocks) if b['t'] == 'probe')
    blocks[0], blocks[k] = blocks[k], blocks[0]
    fault_ms = None
    if rng.random() < 0.6:
        sites = []
        for i, bd in enumerate(blocks):
            if bd['t'] == 'probe':
                sites += [(i, f) for f in ('start', 'restore', 'init_regular', 'init_from_value', 'handler', 'stop')]
                if i != 0:
                    sites += [(i, 'handler_init')]
                    if any(x['t'] == 'func' for x in blocks):
                        sites += [(i, 'handler_sim'), (i, 'handler_sim')]
            elif bd['t'] == 'aprobe':
                sites += [(i, f) for f in ('start', 'init_async', 'stop', 'stop_async')]
            elif bd['t'] == 'mtask':
                sites += [(i, 'main')]
            elif bd['t'] == 'fsm':
                sites += [(i, 'calc_output')]
            elif bd['t'] == 'func':
                sites += [(i, 'calc'), (i, 'calc0')]
        i, f = rng.choice(sites)
        if not (i == 0 and f in ('init_regular', 'init_from_value', 'start', 'restore')) or rng.random() < 0.3:
            blocks[i]['fault'] = f
            fault_ms = dict(handler=6, calc=6, main=7, handler_sim=6).get(f)
            if f in ('start', 'init_regular', 'init_from_value', 'calc0', 'handler_init', 'calc_output'):
                fault_ms = 0 if f == 'start' else 4
    cause = rng.choice([None] + CAUSES + CAUSES)
    instant = rng.choice(['before_start', 'async_init', 'async_init', 'running', 'running', 'running'])
    if cause is None:
        instant = 'running'
    if instant == 'before_start' and cause not in ('abort', 'shutdown'):
        cause = 'abort'
    second = None
    if rng.random() < 0.4 and (cause is not None or fault_ms is not None) and instant != 'before_start':
        second = rng.choice(SECOND)
    wait_init = instant == 'running' and rng.random() < 0.5
    return dict(blocks=blocks, cause=cause, instant=instant, second=second, wait_init=wait_init,
                fault_ms=fault_ms if fault_ms is not None else 9)


def _d(blocks, cause, instant, second=None, wait_init=False, fault_ms=9):
    return dict(blocks=blocks, cause=cause, instant=instant, second=second, wait_init=wait_init,
                fault_ms=fault_ms)


_AP = dict(t='aprobe', init_ms=4, stop_ms=1, stop_timeout_ms=20)
# directed scenarios (shapes of earlier findings and of the seeded changes); they run first
DIRECTED = [
    _d([dict(t='probe'), dict(_AP, stop_ms='never', stop_timeout_ms=0), dict(_AP)], 'sigterm', 'async_init'),
    _d([dict(t='probe'), dict(_AP), dict(_AP)], 'abort', 'async_init'),
    _d([dict(t='probe'), dict(_AP), dict(_AP), dict(_AP, init_ms=1)], 'shutdown', 'async_init'),
    _d([dict(t='probe'), dict(t='probe', fault='init_from_value')], None, 'running', wait_init=True, fault_ms=4),
    _d([dict(t='probe'), dict(t='oasync', mode='cancel'), dict(_AP, stop_ms=3)], 'sigterm', 'async_init'),
    # edzed.run() without any supporting coroutine, ended by SIGTERM / a control event / abort()
    dict(_d([dict(t='probe'), dict(t='oasync', mode='wait'), dict(_AP, stop_ms=3)], 'sigterm', 'running'), plain_run=True),
    dict(_d([dict(t='probe'), dict(t='fsm'), dict(_AP, stop_ms=3)], 'sigterm', 'async_init'), plain_run=True),
    dict(_d([dict(t='probe'), dict(t='mtask'), dict(t='ofunc')], 'ctrl_shutdown', 'running'), plain_run=True),
    dict(_d([dict(t='probe'), dict(t='repeat'), dict(t='vpoll')], 'abort', 'running'), plain_run=True),
    # output runs that outlast the block's stop_timeout ('wait' and 'start': the listed finding
    # C08-outputasync-stop-timeout-not-enforced; 'cancel': bounded, nothing may be left behind)
    _d([dict(t='probe'), dict(t='oasync', mode='wait', slow=True)], 'shutdown', 'running'),
    _d([dict(t='probe'), dict(t='oasync', mode='start', slow=True)], 'shutdown', 'running'),
    _d([dict(t='probe'), dict(t='oasync', mode='cancel', slow=True)], 'shutdown', 'running'),
    _d([dict(t='probe'), dict(t='oasync', mode='start'), dict(_AP, stop_ms=3)], 'abort', 'async_init'),
    _d([dict(t='probe'), dict(t='oasync', mode='wait'), dict(_AP, stop_ms=3)], 'ctrl_shutdown', 'async_init'),
    _d([dict(t='probe', fault='handler'), dict(_AP, stop_ms=3), dict(t='ofunc'), dict(t='fsm')], None, 'running',
       second='cancel_abort', fault_ms=6),
    _d([dict(t='probe'), dict(_AP, stop_ms=3), dict(t='ofunc'), dict(t='fsm'), dict(t='mtask', fault='main')],
       'support_return', 'running', second='sigterm', fault_ms=7),
    _d([dict(t='probe'), dict(_AP, stop_ms=3), dict(t='fsm'), dict(t='func', fault='calc')], 'support_raise',
       'running', second='ctrl_shutdown', fault_ms=6),
    _d([dict(t='probe'), dict(t='probe', fault='handler_sim'), dict(t='func'), dict(_AP, stop_ms=3), dict(t='ofunc'),
        dict(t='fsm'), dict(t='vpoll')], None, 'running', fault_ms=6),
    _d([dict(t='probe'), dict(t='probe', fault='handler_init'), dict(_AP, stop_ms=3), dict(t='ofunc'),
        dict(t='mtask')], None, 'running', fault_ms=4),
    _d([dict(t='probe'), dict(t='probe', fault='handler_sim'), dict(t='func'), dict(t='oasync', mode='wait'),
        dict(t='repeat')], 'support_return', 'running', wait_init=True, fault_ms=6),
    # a main task whose own clean-up (after the cancellation) outlasts the block's stop_timeout
    _d([dict(t='probe'), dict(t='mtask', fault='slow_cleanup'), dict(t='ofunc')], 'shutdown', 'running', fault_ms=6),
    _d([dict(t='probe'), dict(t='mtask', fault='slow_cleanup'), dict(_AP, stop_ms=3)], 'abort', 'running', fault_ms=6),
    # stop_data = {} (empty, but not None) for coroutines without arguments
    _d([dict(t='probe'), dict(t='oasync', mode='wait', empty_stop=True), dict(t='oasync', mode='cancel', empty_stop=True),
        dict(t='oasync', mode='start', empty_stop=True)], 'shutdown', 'running', fault_ms=6),
    # a timed FSM state entered by the expiry of another FSM timer, ended while that timer runs
    _d([dict(t='probe'), dict(t='fsm', chain=True), dict(t='ofunc')], 'shutdown', 'running', fault_ms=6),
    _d([dict(t='probe'), dict(t='fsm', chain=True), dict(_AP, stop_ms=3)], 'abort', 'running', fault_ms=8),
    # a persistent block that is still uninitialised when the run is terminated during the async init
    _d([dict(t='probe'), dict(_AP), dict(t='probe', persistent=True, fault='init_from_value'),
        dict(t='probe', persistent=True), dict(t='ofunc')], 'shutdown', 'async_init'),
    _d([dict(t='probe', persistent=True), dict(_AP, stop_ms=3), dict(t='probe', persistent=True),
        dict(t='mtask')], 'abort', 'async_init'),
    # several blocks whose stop_async never ends: the waits run concurrently, each bounded by its own timeout
    _d([dict(t='probe'), dict(_AP, stop_ms='never', stop_timeout_ms=5), dict(_AP, stop_ms='never', stop_timeout_ms=2),
        dict(_AP, stop_ms='never', stop_timeout_ms=4), dict(t='ofunc')], 'shutdown', 'running'),
    _d([dict(t='probe'), dict(_AP, stop_ms='never', stop_timeout_ms=3), dict(_AP, stop_ms=3, stop_timeout_ms=5),
        dict(_AP, stop_ms='never', stop_timeout_ms=5)], 'abort', 'running'),
    _d([dict(t='probe'), dict(t='probe', fault='stop'), dict(_AP, stop_ms=3, fault='stop_async'),
        dict(_AP, fault='stop'), dict(t='ofunc')], 'shutdown', 'running'),
]


def check(run):
    spec = C08()
    run.rule = ("circuits of 2..6 blocks drawn from: plain probes, probes with asynchronous init/clean-up "
                "(stop_async lasting 1/3 ms or for ever, stop_timeout 20/5/2/0 ms), a main-task block, an FSM "
                "with a running timer, Repeat, ValuePoll, OutputAsync (each mode) and OutputFunc with "
                "stop_data, FuncBlock, TimeDate (+ its cron block), a ControlBlock; at most one fault site "
                "(start, restore, init_async, init_regular, init_from_value, calc_output at the first or a "
                "later evaluation, event handler, main task, stop, stop_async); termination cause none/"
                "shutdown()/supporting task returns/raises/SIGTERM/'shutdown' and 'abort' control events/"
                "abort() at instant before start/during async init/running, optionally a second cause 1 ms "
                "into the clean-up; the supporting task optionally waits in wait_init(). Observed: ordered "
                "log of start()/stop()/stop_async begin+end per block, asyncio.all_tasks() and the loop's "
                "timers when run() is over, output function logs, a second run_forever(), adding a block, "
                "5 s of silence afterwards. Non-trivial = an asynchronous clean-up ran.")
    run.assumptions = ["start() faults are raised before the block acquires resources (a start() that "
                       "fails after creating a task is the block's own leak)",
                       "which clean-up the asyncio run-time performs for a cancelled-and-awaited task is "
                       "observed on the implementation only (leak counters), not modelled",
                       "leaked_tasks/leaked_timers/stop_data/restart/modify flags are computed by the "
                       "Python harness and only combined by the Coq monitor"]
    if not hasattr(edzed.Event, 'shutdown'):
        run.violation('monitor', dict(case='edzed.Event.shutdown', observed='AttributeError'),
                      "docs/events.rst documents the constructor Event.shutdown() (shortcut for "
                      "Event('_ctrl', 'shutdown')); it does not exist", clause='documented_Event_shutdown',
                      concrete=True)
    cases = list(DIRECTED) + [gen_case(run.rng) for _ in range(250 if run.tier == 'quick' else 16000)]
    for c in cases:
        run.count('cause_%s' % c['cause'])
        run.count('instant_' + c['instant'])
        run.count('second_%s' % c['second'])
        for bd in c['blocks']:
            run.count('block_' + bd['t'])
            if bd.get('fault'):
                run.count('fault_' + bd['fault'])
    common.standard_flow(run, spec, cases)
    check_shutdown_waits(run)


def check_shutdown_waits(run, only=None):
    """'however the simulation ends - shutdown() ...': shutdown() returns only when the simulation task has
    finished and every block has been stopped - also when the termination had been requested already
    (a 'shutdown' control event, another shutdown() call) and the clean-up is still going on."""
    for how in ('ctrl_then_shutdown', 'two_shutdowns', 'abort_then_shutdown'):
        if only is not None and how != only:
            continue
        obs = dict(at_return=None, outcome=None, harness=None)

        async def main(loop, how=how, obs=obs):
            edzed.reset_circuit()
            circuit = edzed.get_circuit()
            stopped = []

            class SlowStop(edzed.AddonAsync, edzed.SBlock):
                def init_regular(self):
                    self.set_output(0)

                def stop(self):
                    stopped.append(self.name)

                async def stop_async(self):
                    await asyncio.sleep(0.05)
                    stopped.append(self.name + ':async')
            SlowStop('slow', stop_timeout=1.0)
            inp = edzed.Input('inp', initdef=0)
            ev = edzed.Event.shutdown()
            task = asyncio.create_task(circuit.run_forever())
            await circuit.wait_init()
            other = None
            if how == 'ctrl_then_shutdown':
                ev.send(inp)
            elif how == 'two_shutdowns':
                other = asyncio.create_task(circuit.shutdown())
                await asyncio.sleep(0)
            else:
                circuit.abort(Boom('abort'))
            await asyncio.sleep(0.01)            # the clean-up has begun, slow's stop_async is running
            try:
                await circuit.shutdown()
                obs['outcome'] = 'returned'
            except Exception as err:             # noqa
                obs['outcome'] = type(err).__name__
            obs['at_return'] = dict(task_done=task.done(), stopped=sorted(stopped))
            await asyncio.wait([task] + ([other] if other else []), timeout=2.0)
        try:
            vloop.run_virtual(main, wall_limit_s=10.0)
        except BaseException as err:             # noqa
            obs['harness'] = repr(err)[:200]
        finally:
            edzed.reset_circuit()
        run.add_case(dict(shutdown_waits=how), True)
        run.count('shutdown_waits')
        want = dict(task_done=True, stopped=['slow', 'slow:async'])
        ok = (obs['harness'] is None and obs['at_return'] == want
              and obs['outcome'] == ('Boom' if how == 'abort_then_shutdown' else 'returned'))
        run.add_obligation(ok)
        if not ok:
            run.violation('monitor', dict(case=dict(shutdown_waits=how), observed=obs),
                          f"shutdown() called 10 ms after the termination was requested ({how}) while a block's "
                          f"stop_async (50 ms) is running: shutdown() -> {obs['outcome']}, at that moment "
                          f"{obs['at_return']} (expected {want}); harness: {obs['harness']}",
                          clause='shutdown_returned_early:' + how, concrete=True)


def replay(run, path):
    _, case = common.load_replay_case(path)
    if isinstance(case, dict) and 'shutdown_waits' in case:
        return common.directed_replay(run, path, lambda: check_shutdown_waits(run, case['shutdown_waits']))
    return common.std_replay(run, C08(), path)
