"""C11 - recursion guard of SBlock.event: scripted probe blocks vs coq/Model/Dispatch.v"""
from __future__ import annotations

import itertools

import edzed

from . import common, drive
from .common import clist, cbool, cpair, cstr, cnat, copt

IMPORTS = "From Verif Require Import Values Dispatch.\nOpen Scope string_scope."


class ScriptError(Exception):
    pass


def mk_etype(spec):
    if isinstance(spec, str):
        return spec
    t, f = spec
    return edzed.EventCond(None if t is None else mk_etype(t), None if f is None else mk_etype(f))


def c_etype(spec):
    if isinstance(spec, str):
        return f"(ETPlain {cstr(spec)})"
    t, f = spec
    return f"(ETCond {copt(t, c_etype)} {copt(f, c_etype)})"


def enum_of(err):
    if isinstance(err, ScriptError):
        return 'EHandler'
    return common.exc_enum(err)


class C11(common.Spec):
    imports = IMPORTS
    case_type = 'dcase'
    verdict_fn = 'd_verdict'
    shard = 120

    def run_impl(self, cases):
        return [self._run_one(c) for c in cases]

    def _run_one(self, case):
        hlog = []
        flags = dict(reentered=False)

        class SP(edzed.SBlock):
            def __init__(self, *args, idx, **kw):
                self.idx = idx
                self.depth = 0
                self.handlers = {}
                self.init_script = []
                super().__init__(*args, **kw)

            def play(self, script):
                for act in script:
                    if act[0] == 'raise':
                        raise ScriptError('scripted failure')
                    _, ev, vt = act
                    ev.send(self, value=vt)

            def init_regular(self):
                self.set_output(0)
                self.play(self.init_script)

            def _event_needs(self, *, needed, **_data):
                return None

            def _event(self, etype, data):
                script = self.handlers.get(etype)
                if script is None:
                    return super()._event(etype, data)
                hlog.append([self.idx, etype])
                if self.depth > 0:
                    flags['reentered'] = True
                self.depth += 1
                try:
                    self.play(script)
                finally:
                    self.depth -= 1

        def build():
            blocks = [SP(f"p{i}", idx=i) for i in range(len(case['blocks']))]

            def mk_script(script):
                out = []
                for act in script:
                    if act[0] == 'raise':
                        out.append(('raise',))
                    else:
                        _, dest, et, vt, ok = act
                        # a vetoing filter: a function answering False / None, or a DataEdit chain
                        # whose rejecting step is followed by further steps, or not_from_undef on data without 'previous'
                        veto = [lambda d: False, lambda d: None,
                                edzed.DataEdit.modify('source', lambda v: edzed.DataEdit.REJECT)
                                .add(extra=1).delete('source'),
                                # (these events carry no 'previous' item: not_from_undef rejects them)
                                edzed.not_from_undef][(dest + len(out)) % 4]
                        ev = edzed.Event(blocks[dest], mk_etype(et),
                                         efilter=(lambda d: True) if ok else veto)
                        out.append(('send', ev, vt))
                return out
            for blk, spec in zip(blocks, case['blocks']):
                blk.handlers = {name: mk_script(sc) for name, sc in spec['handlers'].items()}
                blk.handlers['ping'] = []
                blk.init_script = mk_script(spec['init'])
            return blocks

        obs = dict(init_err=None, tops=[])

        async def driver(blocks, circuit, loop):
            obs['init_log'] = list(hlog)
            obs['init_depth_ok'] = not flags['reentered']
            for blk_i, et, vt in case['tops']:
                del hlog[:]
                flags['reentered'] = False
                try:
                    ret = blocks[blk_i].event(mk_etype(et), value=vt)
                    out = 'ret'     # ORet and ONone both return None from a probe handler
                except Exception as err:
                    out = enum_of(err)
                log = list(hlog)
                depth_ok = not flags['reentered']
                aborted = circuit.error is not None
                released = True
                for b in blocks:
                    try:
                        b.event('ping')
                    except Exception:
                        released = False
                obs['tops'].append(dict(out=out, aborted=aborted, log=log, released=released,
                                        depth_ok=depth_ok))

        res = drive.run_circuit(build, driver)
        if res.driver_exc is not None:
            raise res.driver_exc
        if res.init_exc is not None:
            err = res.error if res.error is not None else res.init_exc
            while getattr(err, '__cause__', None) is not None and isinstance(err, edzed.EdzedCircuitError) \
                    and 'during handling of event' in str(err):
                err = err.__cause__
            obs['init_err'] = enum_of(err)
            obs['init_log'] = list(hlog)
            obs['init_depth_ok'] = not flags['reentered']
        return obs

    def emit(self, case, obs):
        def act(a):
            if a[0] == 'raise':
                return 'ARaise'
            _, dest, et, vt, ok = a
            return "ASend {| s_dest := %s; s_et := %s; s_vt := %s; s_pass := %s |}" % (
                cnat(dest), c_etype(et), cbool(vt), cbool(ok))

        def blk(b):
            hs = [cpair(cstr(n), clist(sc, act)) for n, sc in b['handlers'].items()]
            hs += [cpair(cstr('ping'), '[]'), cpair(cstr('needs'), '[AParamErr]')]
            return "{| b_handlers := %s; b_init := %s |}" % (clist(hs), clist(b['init'], act))
        log = lambda l: clist(l, lambda e: cpair(cnat(e[0]), cstr(e[1])))

        def top(t):
            return "{| t_blk := %s; t_et := %s; t_vt := %s |}" % (cnat(t[0]), c_etype(t[1]), cbool(t[2]))

        def tob(o):
            # ORet and ONone are indistinguishable through the return value of a probe;
            # the handler log tells them apart: ONone = nothing ran at all
            if o['out'] == 'ret':
                out = 'ORet' if o['log'] else 'ONone'
            else:
                out = f"(OErr {o['out']})"
            return ("{| o_outcome := %s; o_aborted := %s; o_log := %s; o_released := %s; "
                    "o_maxdepth_ok := %s |}") % (out, cbool(o['aborted']), log(o['log']),
                                                 cbool(o['released']), cbool(o['depth_ok']))
        return ("{| d_topo := %s;\n d_init_err := %s; d_init_log := %s; d_init_depth_ok := %s;\n"
                " d_tops := %s;\n d_obs := %s |}") % (
            clist(case['blocks'], blk), copt(obs['init_err'], str), log(obs['init_log']),
            cbool(obs['init_depth_ok']), clist(case['tops'], top), clist(obs['tops'], tob))

    def nontrivial(self, case, obs):
        return len(obs.get('init_log', [])) + sum(len(t['log']) for t in obs['tops']) >= 3

    def shrink(self, case):
        ts = case['tops']
        for i in range(len(ts)):
            yield dict(case, tops=ts[:i] + ts[i + 1:])
        for bi, b in enumerate(case['blocks']):
            for name, sc in b['handlers'].items():
                for j in range(len(sc)):
                    nb = dict(b, handlers=dict(b['handlers'], **{name: sc[:j] + sc[j + 1:]}))
                    yield dict(case, blocks=case['blocks'][:bi] + [nb] + case['blocks'][bi + 1:])
            for j in range(len(b['init'])):
                nb = dict(b, init=b['init'][:j] + b['init'][j + 1:])
                yield dict(case, blocks=case['blocks'][:bi] + [nb] + case['blocks'][bi + 1:])

    def clause(self, case, obs):
        if not obs.get('init_depth_ok', True) or any(not t['depth_ok'] for t in obs['tops']):
            return 'two_events_at_once'
        if any(not t['released'] for t in obs['tops']):
            return 'block_left_locked'
        return 'dispatch'

    def describe(self, case, obs):
        return f"{case}: observed {obs}"


ETYPES = ['go', 'go', 'alt', 'ping', 'nope', 'needs', ['go', None], [None, 'alt'],
          [['go', None], 'alt'], [None, None]]


def gen_case(rng):
    n = rng.randrange(1, 7)

    def script(maxlen):
        out = []
        for _ in range(rng.choice([0, 1, 1, 2, 3][:maxlen + 2])):
            if rng.random() < 0.06:
                out.append(['raise'])
            else:
                out.append(['send', rng.randrange(n), rng.choice(ETYPES), rng.random() < 0.6,
                            rng.random() < 0.85])
        return out
    blocks = []
    for _ in range(n):
        blocks.append(dict(handlers={'go': script(3), 'alt': script(2)},
                           init=script(2) if rng.random() < 0.3 else []))
    tops = [[rng.randrange(n), rng.choice(ETYPES), rng.random() < 0.6]
            for _ in range(rng.randrange(1, 5))]
    return dict(blocks=blocks, tops=tops)


def gen_small_exhaustive():
    """all 2-block topologies where each 'go' handler sends 'go' to one of {self, other, nobody},
    with and without an init-time send, x all top-level sequences of length <= 2"""
    opts = [None, 0, 1]
    for h0, h1, i0, i1 in itertools.product(opts, opts, opts, opts):
        blocks = []
        for h, i in ((h0, i0), (h1, i1)):
            blocks.append(dict(
                handlers={'go': [] if h is None else [['send', h, 'go', True, True]], 'alt': []},
                init=[] if i is None else [['send', i, 'go', True, True]]))
        for tops in ([[0, 'go', True]], [[1, 'go', True], [0, 'go', True]]):
            yield dict(blocks=blocks, tops=tops)


def check(run):
    spec = C11()
    run.rule = ("random directed event graphs over 1..6 scripted probe SBlocks (cycles, self-loops, "
                "diamonds): each handler / init_regular is a script of sends (plain, unknown and "
                "conditional event types incl. nested EventCond and 'no event', an event type whose "
                "handler lacks a required parameter, passing or vetoing filter) and raises; init-time "
                "sends exercise initialisation of a block by an event; 1..4 top-level events per case, "
                "each followed by a 'ping' to every block; plus all 2-block topologies exhaustively. "
                "Observed: per event the exception class, Circuit.error, the ordered handler log, "
                "handler nesting depth per block, acceptance of the follow-up events. "
                "Non-trivial = >= 3 handler invocations; distinct by JSON. Plus 150 FSM cases with exit "
                "actions sending to their own FSM (model of C03) and 4 directed loops through library "
                "blocks (Counter/OutputFunc.on_success, Input ping-pong, Counter/Repeat, Input/OutputFunc) and 8 "
                "directed external events with missing/misspelt parameters or unknown types sent to library blocks.")
    cases = [gen_case(run.rng) for _ in range(700 if run.tier == 'quick' else 24000)]
    cases += list(gen_small_exhaustive())
    for c in cases:
        run.count('nblocks=%d' % len(c['blocks']))
    res = common.standard_flow(run, spec, cases)
    check_fsm_guard(run)
    check_library_loops(run)
    check_library_wrong_params(run)
    check_no_event_during_init(run)
    for c, o, ch in res:
        run.count('init_' + str(o['init_err']))
        for t in o['tops']:
            run.count('top_' + t['out'] + ('_aborted' if t['aborted'] else ''))


LIB_LOOPS = ['counter_outputfunc_success', 'input_pingpong', 'counter_repeat', 'input_outputfunc_input',
             'timer_expiry_loop', 'fsm_timed_state_loop', 'restore_loop']
# loops closed by a transition that the block's own timer starts: nothing is raised to the sender of
# the first event, the refusal shows as Circuit.error only
TIMER_LOOPS = ('timer_expiry_loop', 'fsm_timed_state_loop', 'restore_loop')


def check_library_loops(run, only=None):
    """Event loops closed through the output events of LIBRARY blocks (OutputFunc.on_success, Repeat,
    Input.on_output): the guard rule of the model applies to every chain of blocks - the event
    that reaches a block which is still handling one must be refused with an EdzedCircuitError
    and that error must stop the simulation; nothing may swallow it."""
    import asyncio
    from . import vloop
    for name in LIB_LOOPS:
        if only is not None and name != only:
            continue
        obs = dict(raised=None, error=None, ready=None)

        async def main(loop, name=name, obs=obs):
            edzed.reset_circuit()
            circuit = edzed.get_circuit()
            if name == 'counter_outputfunc_success':
                edzed.Counter('cnt', on_output=edzed.Event('f', 'put', efilter=edzed.not_from_undef))
                edzed.OutputFunc('f', func=lambda value: value, on_success=edzed.Event('cnt', 'inc'), on_error=None)
                start = ('cnt', 'inc', {})
            elif name == 'input_pingpong':
                edzed.Input('a', initdef=0, on_output=edzed.Event('b', 'put', efilter=edzed.not_from_undef))
                edzed.Input('b', initdef=0, on_output=edzed.Event(
                    'a', 'put', efilter=(edzed.not_from_undef, edzed.DataEdit.modify('value', lambda v: v + 1))))
                start = ('a', 'put', {'value': 5})
            elif name == 'timer_expiry_loop':
                # the loop closes only in the transition made by the Timer's own timer (on -> off)
                edzed.Timer('t', t_on=0.002, on_output=edzed.Event('a', 'put', efilter=edzed.not_from_undef))
                edzed.Input('a', initdef=True, on_output=edzed.Event(
                    't', 'start', efilter=(edzed.not_from_undef, lambda data: not data['value'])))
                start = ('t', 'start', {})
            elif name == 'fsm_timed_state_loop':
                class Blink(edzed.FSM):
                    STATES = ['idle', 'lit']
                    TIMERS = {'lit': (0.003, 'expired')}
                    EVENTS = [['go', ['idle'], 'lit'], ['expired', ['lit'], 'idle'], ['poke', None, None]]
                Blink('t', on_exit_lit=edzed.Event('a', 'put', efilter=edzed.DataEdit.add(value=7)))
                edzed.Input('a', initdef=0, on_output=edzed.Event('t', 'poke', efilter=edzed.not_from_undef))
                start = ('t', 'go', {})
            elif name == 'restore_loop':
                # the loop closes while Input 'a' restores its saved state (initialisation by an event):
                # a -> b -> a; the value that comes back is the same one
                circuit.set_persistent_data({"<Input 'a'>": 5, 'edzed-stop-time': 0.0})
                edzed.Input('a', initdef=0, persistent=True, on_output=edzed.Event('b', 'put'))
                edzed.Input('b', on_output=edzed.Event('a', 'put'))
                start = None
            elif name == 'counter_repeat':
                edzed.Counter('cnt', on_output=edzed.Event('rpt', 'inc', efilter=edzed.not_from_undef))
                edzed.Repeat('rpt', dest='cnt', etype='inc', interval=10)
                start = ('cnt', 'inc', {})
            else:
                edzed.Input('a', initdef=0, on_output=edzed.Event('f', 'put', efilter=edzed.not_from_undef))
                edzed.OutputFunc('f', func=lambda value: value + 1,
                                 on_success=edzed.Event('a', 'put'), on_error=None)
                start = ('a', 'put', {'value': 1})
            task = asyncio.create_task(circuit.run_forever())
            try:
                await circuit.wait_init()
            except Exception:              # noqa
                if start is not None:
                    raise
            try:
                if start is not None:
                    edzed.ExtEvent(start[0], start[1]).send(**start[2])
                obs['raised'] = None
            except Exception as err:       # noqa
                obs['raised'] = type(err).__name__ + ': ' + str(err)[:80]
            await asyncio.sleep(0.01)
            err, chain = circuit.error, []
            while err is not None and len(chain) < 6:
                chain.append(type(err).__name__ + ': ' + str(err)[:60] + ' ... ' + str(err)[-60:])
                err = err.__cause__ or err.__context__
            obs['error'] = ' <- '.join(chain)
            obs['ready'] = circuit.is_ready()
            try:
                await circuit.shutdown()
            except BaseException:          # noqa
                pass
        try:
            vloop.run_virtual(main, wall_limit_s=10.0)
        except BaseException as err:       # noqa
            obs['harness'] = repr(err)[:200]
        finally:
            edzed.reset_circuit()
        run.add_case(dict(library_loop=name), True)
        run.count('library_loop')
        raised_ok = (obs['raised'] is None if name in TIMER_LOOPS
                     else obs['raised'] is not None and 'EdzedCircuitError' in obs['raised'])
        ok = (obs.get('harness') is None and raised_ok
              and 'ecursive' in (obs['error'] or '') and obs['ready'] is False)
        if not ok:
            run.violation('monitor', dict(case=dict(library_loop=name), observed=obs),
                          f"event loop through library blocks ({name}): the event that reached a block still "
                          f"handling an event was not refused with an EdzedCircuitError stopping the "
                          f"simulation: send() raised {obs['raised']}, Circuit.error={obs['error']}, "
                          f"is_ready()={obs['ready']}", clause='library_loop:' + name, concrete=True)


LIB_WRONG = [
    # (name, block factory, event type, data, valid follow-up (etype, data), expected output after it)
    ('counter_put_no_value', lambda: edzed.Counter('blk', initdef=3), 'put', {}, ('inc', {}), 4),
    ('counter_put_misspelt', lambda: edzed.Counter('blk', initdef=3), 'put', {'valeu': 1}, ('put', {'value': 8}), 8),
    ('counter_unknown', lambda: edzed.Counter('blk', initdef=3), 'increase', {}, ('dec', {}), 2),
    ('input_put_no_value', lambda: edzed.Input('blk', initdef=3), 'put', {}, ('put', {'value': 5}), 5),
    ('input_unknown', lambda: edzed.Input('blk', initdef=3), 'set', {'value': 1}, ('put', {'value': 5}), 5),
    ('inputexp_put_no_value', lambda: edzed.InputExp('blk', duration=10, initdef=3), 'put', {}, ('put', {'value': 5}), 5),
    ('timer_unknown', lambda: edzed.Timer('blk'), 'put', {'value': 1}, ('start', {}), True),
    # listed as an open finding (known_findings.json, DESIGN 11.4): a 'put' lacking an item named in f_args
    ('output_missing_item_func', lambda: edzed.OutputFunc('blk', func=lambda v: v, on_error=None), 'put', {},
     ('put', {'value': 5}), False),
    ('output_missing_item_async', lambda: edzed.OutputAsync('blk', coro=_noop_coro, mode='wait', on_error=None, stop_timeout=1),
     'put', {}, ('put', {'value': 5}), False),
    ('outputfunc_unknown', lambda: edzed.OutputFunc('blk', func=lambda v: v, on_error=None), 'write', {'value': 1},
     ('put', {'value': 5}), False),
]


async def _noop_coro(value):
    return value


def check_library_wrong_params(run, only=None):
    """'an external event with an unknown type or wrong parameters never leave a block locked and never
    stop the simulation' - for the LIBRARY blocks' own handlers: the
    event is refused (an exception for the sender, or a rejection), the simulation keeps running and the
    block handles the next (valid) event."""
    import asyncio
    from . import vloop
    for name, factory, etype, data, follow, want in LIB_WRONG:
        if only is not None and name != only:
            continue
        obs = dict(raised=None, ready=None, error=None, follow=None, output=None, harness=None)

        async def main(loop, factory=factory, etype=etype, data=data, follow=follow, obs=obs):
            edzed.reset_circuit()
            circuit = edzed.get_circuit()
            blk = factory()
            task = asyncio.create_task(circuit.run_forever())
            await circuit.wait_init()
            try:
                edzed.ExtEvent(blk, etype).send(**data)
            except Exception as err:             # noqa
                obs['raised'] = type(err).__name__
            await asyncio.sleep(0.01)
            obs['ready'] = circuit.is_ready()
            obs['error'] = None if circuit.error is None else repr(circuit.error)[:200]
            try:
                edzed.ExtEvent(blk, follow[0]).send(**follow[1])
                obs['follow'] = 'accepted'
            except Exception as err:             # noqa
                obs['follow'] = type(err).__name__
            await asyncio.sleep(0.01)
            obs['output'] = blk.output if blk.output is not edzed.UNDEF else 'UNDEF'
            try:
                await circuit.shutdown()
            except BaseException:                # noqa
                pass
        try:
            vloop.run_virtual(main, wall_limit_s=10.0)
        except BaseException as err:             # noqa
            obs['harness'] = repr(err)[:200]
        finally:
            edzed.reset_circuit()
        run.add_case(dict(library_wrong=name), True)
        run.count('library_wrong')
        ok = (obs['harness'] is None and obs['ready'] is True
              and obs['error'] is None and obs['follow'] == 'accepted' and obs['output'] == want)
        clause = 'library_wrong_params:' + ('output_missing_item' if name.startswith('output_missing_item') else name)
        # an instance of a finding LISTED as open is reported as such (KNOWN-FINDING) and is not an
        # obligation of this run (as in common.evaluate); unlisted, it is a violation like any other
        listed = clause in {f.get('match', {}).get('clause') for f in common.load_findings(run.prop)
                            if f.get('status') == 'open'}
        if ok or not listed:
            run.add_obligation(ok)
        else:
            run.count('instances_of_listed_findings')
        if not ok:
            run.violation('monitor', dict(case=dict(library_wrong=name), observed=obs),
                          f"external event '{etype}' with data {data} sent to a library block: sender got "
                          f"{obs['raised']}, is_ready()={obs['ready']}, Circuit.error={obs['error']}, the valid "
                          f"follow-up {follow} was {obs['follow']}, output afterwards {obs['output']!r} "
                          f"(expected: simulation running, follow-up accepted, "
                          f"output {want!r}); harness: {obs['harness']}",
                          clause=clause, concrete=True)


def check_no_event_during_init(run, only=None):
    """'a conditional event resolving to "no event" ... never stop the simulation' - also when it is
    addressed to a block that is not initialised yet (sent from the initialisation of an earlier block),
    whatever add-ons the destination has (persistent state with a storage, sync_state on/off)."""
    import asyncio
    from . import vloop
    for name, pers, sync in (('plain', False, True), ('persistent', True, True), ('persistent_nosync', True, False)):
        if only is not None and name != only:
            continue
        obs = dict(started=None, error=None, output=None, follow=None, harness=None)

        async def main(loop, pers=pers, sync=sync, obs=obs):
            edzed.reset_circuit()
            circuit = edzed.get_circuit()
            circuit.set_persistent_data({})
            edzed.Input('first', initdef=0, on_output=edzed.Event('dest', edzed.EventCond('put', None)))
            dest = edzed.Input('dest', initdef=5, persistent=pers, sync_state=sync)
            asyncio.create_task(circuit.run_forever())
            try:
                await circuit.wait_init()
                obs['started'] = True
            except Exception as err:             # noqa
                obs['started'] = False
            obs['error'] = None if circuit.error is None else repr(circuit.error)[:200]
            obs['output'] = dest.output if dest.output is not edzed.UNDEF else 'UNDEF'
            try:
                edzed.ExtEvent(dest).send(7)
                obs['follow'] = dest.output
            except Exception as err:             # noqa
                obs['follow'] = type(err).__name__
            try:
                await circuit.shutdown()
            except BaseException:                # noqa
                pass
        try:
            vloop.run_virtual(main, wall_limit_s=10.0)
        except BaseException as err:             # noqa
            obs['harness'] = repr(err)[:200]
        finally:
            edzed.reset_circuit()
        run.add_case(dict(no_event_during_init=name), True)
        run.count('no_event_during_init')
        ok = (obs['harness'] is None and obs['started'] is True and obs['error'] is None
              and obs['output'] == 5 and obs['follow'] == 7)
        run.add_obligation(ok)
        if not ok:
            run.violation('monitor', dict(case=dict(no_event_during_init=name), observed=obs),
                          f"Input('first', initdef=0, on_output=Event('dest', EventCond('put', None))) created before "
                          f"Input('dest', initdef=5, persistent={pers}, sync_state={sync}): the conditional event "
                          f"resolves to 'no event' while 'dest' is not initialised yet; observed started={obs['started']}, "
                          f"Circuit.error={obs['error']}, output of 'dest' {obs['output']!r} (expected 5), a later put 7 "
                          f"-> {obs['follow']!r}; harness: {obs['harness']}",
                          clause='no_event_during_init:' + name, concrete=True)


def check_fsm_guard(run):
    """The documented exception of the guard - one chained FSM transition - and its limits:
    an exit action that sends an event to its own FSM must be refused.  Uses the FSM model and
    harness of C03 on cases that all contain such exit actions and chaining entry actions."""
    from . import c03
    spec = c03.C03()
    cases = []
    rng = run.rng
    while len(cases) < (150 if run.tier == 'quick' else 4000):
        c = c03.gen_case(rng, nstates=rng.choice([2, 3]))
        ins = c['inst']
        st = rng.choice(c['def']['states'])
        key = rng.choice(['exit_inst', 'exit_meth'])
        ins[key] = [x for x in ins[key] if x[0] != st] + [[st, 'self']]
        ekey = rng.choice(['enter_inst', 'enter_meth'])
        tgt = rng.choice(c['def']['states'])
        ins[ekey] = [x for x in ins[ekey] if x[0] != st] + [[st, [['self', ['goto', tgt], 900]]]]
        cases.append(c)
    res = common.evaluate(run, spec, cases, tag='fsm')
    for c, o, ch in res:
        run.add_case(c, spec.nontrivial(c, o))
        run.count('fsm_guard_verdict_' + ch)
    bad = [r for r in res if r[2] != 'A']
    if bad:
        bad.sort(key=lambda r: len(repr(r[0])))
        c, o, ch = bad[0]
        run.violation('monitor', dict(case=c, observed=o),
                      "FSM: an event sent by an exit action to its own FSM (or a chained transition) "
                      "was not handled as the model of the guard prescribes: " + spec.describe(c, o)[:1500],
                      clause='fsm_exit_reentry', concrete=True)


def replay(run, path):
    import json
    payload = json.loads((common.VERIF / path).read_text() if not path.startswith('/') else open(path).read())
    if payload.get('clause') == 'fsm_exit_reentry':
        from . import c03
        return common.std_replay(run, c03.C03(), path)
    _, case = common.load_replay_case(path)
    if isinstance(case, dict) and 'no_event_during_init' in case:
        return common.directed_replay(run, path,
                                      lambda: check_no_event_during_init(run, case['no_event_during_init']))
    if isinstance(case, dict) and 'library_wrong' in case:
        return common.directed_replay(run, path, lambda: check_library_wrong_params(run, case['library_wrong']))
    if isinstance(case, dict) and 'library_loop' in case:
        return common.directed_replay(run, path, lambda: check_library_loops(run, case['library_loop']))
    return common.std_replay(run, C11(), path)
