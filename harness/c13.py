"""C13 - interval notations: numeric intervals rendered in every documented notation, malformed
mutants, membership probes; real TimeInterval/DateInterval/DateTimeInterval (and TimeDate.parse,
TimeSpan.parse) vs coq/Model/Interval.v + IntervalParse.v"""
from __future__ import annotations

import datetime as dt
import json

import copy
import edzed
from edzed.blocklib import timeinterval as ti

from . import common
from .common import clist, cbool, cz

IMPORTS = "From Verif Require Import Values Interval IntervalParse."
KINDS = dict(time='KTime', date='KDate', datetime='KDateTime')
CLS = dict(time=ti.TimeInterval, date=ti.DateInterval, datetime=ti.DateTimeInterval)
MONTHS = ["January", "February", "March", "April", "May", "June", "July", "August", "September", "October",
          "November", "December"]
DIM = [31, 29, 31, 30, 31, 30, 31, 31, 30, 31, 30, 31]


def cchars(s):
    if any(ord(c) < 32 or ord(c) > 126 for c in s):
        raise common.Broken(f"non-printable character in generated string {s!r}")
    return '(chars "' + s.replace('"', '""') + '")'


def cnested(n):
    if n is None:
        return 'None'
    return '(Some ' + clist([clist([clist([cz(v) for v in ep]) for ep in r]) for r in n]) + ')'


def build(kind, inp):
    """the real constructor through the documented entry points; returns the interval object"""
    return CLS[kind](inp)


def as_list_or_none(kind, inp, via_parse=False):
    try:
        if via_parse and kind == 'time':
            return edzed.TimeDate.parse(inp, None, None)['times']
        if via_parse and kind == 'date':
            return edzed.TimeDate.parse(None, inp, None)['dates']
        if via_parse and kind == 'datetime':
            return edzed.TimeSpan.parse(inp)
        return build(kind, inp).as_list()
    except (ValueError, TypeError):
        return None


def scribble(x):
    """overwrite every number of a nested list in place"""
    if isinstance(x, list):
        for i, v in enumerate(x):
            if isinstance(v, list):
                scribble(v)
            elif isinstance(v, int):
                x[i] = 1 if v != 1 else 2


def to_obj(kind, ep):
    if kind == 'time':
        return dt.time(*ep)
    if kind == 'date':
        return dt.date(404, *ep)
    return dt.datetime(*ep)


class C13(common.Spec):
    imports = IMPORTS
    case_type = 'tcase'
    verdict_fn = 't_verdict'
    shard = 250

    def run_impl(self, cases):
        out = []
        for c in cases:
            kind, inp = c['kind'], c['input']
            o = dict(result=None, string='', relist=None, restr=None, equiv=[], probes=[], exc=None)
            try:
                iv = build(kind, inp)
            except (ValueError, TypeError) as err:
                o['exc'] = type(err).__name__
                out.append(o)
                continue
            except Exception as err:          # noqa - any other exception is recorded as such
                o['exc'] = 'OTHER:' + type(err).__name__
                out.append(o)
                continue
            first = iv.as_list()
            o['result'] = copy.deepcopy(first)
            # the numeric form belongs to the caller: editing it in place (say, to derive a shifted
            # interval) must not change the interval nor anything computed later
            scribble(first)
            if iv.as_list() != o['result']:
                o['exc'] = 'OTHER:the numeric form returned by as_list() is shared with the interval'
            vp = as_list_or_none(kind, inp, via_parse=True)
            o['via_parse'] = copy.deepcopy(vp)
            scribble(vp)
            o['string'] = iv.as_string()
            o['relist'] = as_list_or_none(kind, o['result'])
            o['restr'] = as_list_or_none(kind, o['string'])
            o['equiv'] = [as_list_or_none(kind, s) for s in c.get('equiv', [])]
            o['probes'] = [bool(to_obj(kind, p) in iv) for p in c.get('probes', [])]
            out.append(o)
        return out

    def emit(self, case, obs):
        if obs['exc'] and obs['exc'].startswith('OTHER'):
            raise common.HarnessProblem(f"unexpected exception {obs['exc']} for {case}")
        inp = case['input']
        if isinstance(inp, str):
            cin = f"(IStr {cchars(inp)})"
        else:
            cin = "(ISeq " + clist([clist([clist([cz(v) for v in ep]) for ep in r]) for r in inp]) + ")"
        equiv = list(obs['equiv'])
        if obs['result'] is not None:
            equiv.append(obs.get('via_parse'))        # TimeDate.parse / TimeSpan.parse give the same form
        probes = clist([f"({clist([cz(v) for v in p])}, {cbool(r)})"
                        for p, r in zip(case.get('probes', []), obs['probes'])])
        return (f"(Build_tcase {KINDS[case['kind']]} {cin} {cbool(case.get('malformed', False))} "
                f"{cnested(obs['result'])} {cchars(obs['string'])} {cnested(obs['relist'])} "
                f"{cnested(obs['restr'])} {clist([cnested(e) for e in equiv])} {probes})")

    def nontrivial(self, case, obs):
        return obs['result'] is not None and len(obs['result']) >= 1

    def shrink(self, case):
        inp = case['input']
        if case.get('equiv'):
            for i in range(len(case['equiv'])):
                yield dict(case, equiv=[case['equiv'][i]])
            yield dict(case, equiv=[])
        if case.get('probes'):
            for i in range(len(case['probes'])):
                yield dict(case, probes=[case['probes'][i]])
        if not isinstance(inp, str) and len(inp) > 1 and not case.get('equiv'):
            for i in range(len(inp)):
                yield dict(case, input=inp[:i] + inp[i + 1:])

    def clause(self, case, obs):
        if case.get('malformed') and obs['result'] is not None:
            return 'malformed_accepted:' + case.get('mclass', '?')
        if obs['result'] is not None:
            if obs['relist'] != obs['result']:
                return 'as_list_roundtrip'
            if obs['restr'] != obs['result']:
                return 'as_string_roundtrip'
            for s, e in zip(case.get('equiv', []), obs['equiv']):
                if e != obs['result']:
                    return 'notation_differs:' + case['kind']
            if obs.get('via_parse') != obs['result']:
                return 'parse_entry_point_differs'
        return case['kind'] + (':str' if isinstance(case['input'], str) else ':seq')

    def describe(self, case, obs):
        return (f"{case['kind']} interval {case['input']!r} (malformed={case.get('malformed', False)} "
                f"{case.get('mclass', '')}): as_list()={obs['result']} exc={obs['exc']} as_string()="
                f"{obs['string']!r}; rebuilt from as_list -> {obs['relist']}, from as_string -> {obs['restr']}; "
                f"other notations {list(zip(case.get('equiv', []), obs['equiv']))}; TimeDate/TimeSpan.parse -> "
                f"{obs.get('via_parse')}; probes {list(zip(case.get('probes', []), obs['probes']))}")


# ---------- generators ----------
def _awkward_us():
    """microsecond values whose decimal fraction is not exactly representable in binary such that a
    naive float conversion (int(float('0.1251') * 1e6)) lands one microsecond low"""
    out = []
    for us in range(100, 1000000, 7):
        frac = ('%06d' % us).rstrip('0')
        if len(frac) >= 4 and int(float('0.' + frac) * 1e6) != us:
            out.append(us)
            if len(out) == 24:
                break
    return out


AWKWARD_US = _awkward_us()


def gen_time(rng):
    grid = [0, 0, 1, 9, 10, 29, 30, 59]
    h = rng.choice([0, 0, 1, 5, 9, 10, 12, 22, 23, rng.randrange(24)])
    m = rng.choice(grid)
    s = rng.choice([0, 0, 0] + grid)
    us = rng.choice([0, 0, 0, 0, 500000, 999000, 999999, 1, rng.randrange(1000000), rng.choice(AWKWARD_US)])
    return [h, m, s, us]


def gen_date(rng):
    m = rng.randrange(1, 13)
    d = rng.choice([1, DIM[m - 1], rng.randrange(1, DIM[m - 1] + 1)])
    return [m, d]


def gen_datetime(rng):
    y = rng.choice([1, 9999, 1999, 2000, 2024, 2025, rng.randrange(1, 10000), rng.randrange(1900, 2100)])
    m = rng.randrange(1, 13)
    dim = DIM[m - 1] if (m != 2 or (y % 4 == 0 and (y % 100 != 0 or y % 400 == 0))) else 28
    d = rng.choice([1, dim, rng.randrange(1, dim + 1)])
    return [y, m, d] + gen_time(rng)


GEN_EP = dict(time=gen_time, date=gen_date, datetime=gen_datetime)


def r_time(rng, t, style=None):
    h, m, s, us = t
    styles = ['hms', 'hms1']
    if us == 0:
        styles += ['isob']
        if s == 0:
            styles += ['hm', 'hm1', 'isobm', 'T']
            if m == 0:
                styles += ['hh']
    else:
        styles = ['f.', 'f,', 'f6', 'isobf', 'f1.']
    st = style or rng.choice(styles)
    frac = ('%06d' % us).rstrip('0')
    if st == 'hm':
        return f"{h:02d}:{m:02d}"
    if st == 'hm1':
        return f"{h}:{m}"
    if st == 'hms':
        return f"{h:02d}:{m:02d}:{s:02d}" + (('.' + frac) if us else '')
    if st == 'hms1':
        return f"{h}:{m}:{s}" + (('.' + frac) if us else '')
    if st == 'isob':
        return f"{h:02d}{m:02d}{s:02d}"
    if st == 'isobm':
        return f"{h:02d}{m:02d}"
    if st == 'T':
        return f"T{h:02d}:{m:02d}"
    if st == 'hh':
        return f"{h:02d}"
    if st == 'f.':
        return f"{h:02d}:{m:02d}:{s:02d}.{frac}"
    if st == 'f1.':
        return f"{h}:{m}:{s}.{frac}"
    if st == 'f,':
        return f"{h:02d}:{m:02d}:{s:02d},{frac}"
    if st == 'f6':
        return f"{h:02d}:{m:02d}:{s:02d}.{us:06d}"
    if st == 'isobf':
        return f"{h:02d}{m:02d}{s:02d}.{us:06d}"
    raise AssertionError(st)


def r_month(rng, m):
    name = MONTHS[m - 1]
    name = name[:rng.randrange(3, len(name) + 1)]
    return rng.choice([name, name.lower(), name.upper(), ''.join(rng.choice([c.lower(), c.upper()]) for c in name)])


def r_date(rng, d, allow_dash=True):
    m, day = d
    styles = ['md', 'dm', 'md.', 'd.m', 'd. m']
    if allow_dash:
        styles += ['iso', 'iso-']
    st = rng.choice(styles)
    dd = rng.choice([str(day), '%02d' % day])
    mon = r_month(rng, m)
    if st == 'md':
        return f"{mon} {dd}"
    if st == 'dm':
        return f"{dd} {mon}"
    if st == 'md.':
        return f"{mon}. {dd}."
    if st == 'd.m':
        return f"{dd}.{mon}"
    if st == 'd. m':
        return f"{dd}. {mon}"
    if st == 'iso':
        return f"--{m:02d}{day:02d}"
    return f"--{m:02d}-{day:02d}"


def r_datetime(rng, x, allow_dash=True):
    y, m, d = x[:3]
    t = x[3:]
    styles = ['ymonthd', 'scramble']
    if allow_dash:
        styles += ['ymd', 'ymond', 'iso', 'isob']
    st = rng.choice(styles)
    tstyle = None
    if st in ('iso', 'isob'):
        if t[3]:
            tstyle = 'f6' if st == 'iso' else 'isobf'
        elif st == 'iso':
            tstyle = rng.choice(['hms'] + (['hm'] if t[2] == 0 else []))
        else:
            tstyle = rng.choice(['isob'] + (['isobm'] if t[2] == 0 else []))
        ts = r_time(rng, t, tstyle)
        return (f"{y:04d}-{m:02d}-{d:02d}T{ts}" if st == 'iso' else f"{y:04d}{m:02d}{d:02d}T{ts}")
    # the traditional layouts need a time with a colon
    if t[3]:
        ts = r_time(rng, t, rng.choice(['f.', 'f,', 'f6']))
    else:
        ts = r_time(rng, t, rng.choice(['hms', 'hms1'] + (['hm', 'hm1'] if t[2] == 0 else [])))
    if st == 'ymd':
        return f"{y:04d}-{m:02d}-{d:02d} {ts}"
    if st == 'ymond':
        return f"{y:04d}-{r_month(rng, m)}-{d:02d} {ts}"
    if st == 'ymonthd':
        return f"{y:04d} {r_month(rng, m)} {d} {ts}"
    parts = [f"{y:04d}", rng.choice([f"{r_month(rng, m)} {d}", f"{d}.{r_month(rng, m)}", f"{d}. {r_month(rng, m)}"]), ts]
    rng.shuffle(parts)
    return ' '.join(parts)


def r_interval(rng, kind, ranges):
    """one string notation of the numeric interval"""
    sep = rng.choice(['-', ' - ', '/', ' / ', ' - ', '/'])
    allow_dash = sep != '-'
    parts = []
    comma = False
    for a, b in ranges:
        if kind == 'time':
            sa, sb = r_time(rng, a), r_time(rng, b)
        elif kind == 'date':
            sa, sb = r_date(rng, a, allow_dash), r_date(rng, b, allow_dash)
        else:
            sa, sb = r_datetime(rng, a, allow_dash), r_datetime(rng, b, allow_dash)
        if ',' in sa or ',' in sb:
            comma = True
        if kind == 'date' and a == b and rng.random() < 0.7:
            parts.append(sa)
        else:
            ws1, ws2 = rng.choice(['', '', ' ', '  ']), rng.choice(['', '', ' '])
            parts.append(f"{ws1}{sa}{sep}{sb}{ws2}")
    delim = ';' if comma else rng.choice([',', ';'])
    s = rng.choice([delim, delim + ' ', ' ' + delim + ' ']).join(parts)
    if rng.random() < 0.4 or (comma and len(parts) == 1):
        s += delim + rng.choice(['', ' '])
    return s


def r_seq(rng, kind, ranges):
    out = []
    for a, b in ranges:
        def trim(ep):
            ep = list(ep)
            lo = dict(time=1, date=2, datetime=5)[kind]
            while len(ep) > lo and ep[-1] == 0 and rng.random() < 0.7:
                ep.pop()
            return ep
        if kind == 'date' and a == b and rng.random() < 0.3:
            out.append([trim(a)])
        else:
            out.append([trim(a), trim(b)])
    return out


def neighbours(kind, ep):
    if kind == 'time':
        k = ((ep[0] * 60 + ep[1]) * 60 + ep[2]) * 10 ** 6 + ep[3]
        res = []
        for d in (-1, 0, 1):
            v = (k + d) % (86400 * 10 ** 6)
            res.append([v // 3600000000, v // 60000000 % 60, v // 1000000 % 60, v % 1000000])
        return res
    if kind == 'date':
        base = dt.date(404, *ep)
        res = []
        for d in (-1, 0, 1):
            x = base + dt.timedelta(days=d)
            res.append([x.month, x.day])
        return res
    base = dt.datetime(*ep)
    res = []
    for d in (-1, 0, 1):
        try:
            x = base + dt.timedelta(microseconds=d)
        except OverflowError:
            continue
        res.append([x.year, x.month, x.day, x.hour, x.minute, x.second, x.microsecond])
    return res


def gen_group(rng, kind, nnot, first=None):
    n = rng.choice([1, 1, 2, 3])
    ranges = []
    for _ in range(n):
        a = GEN_EP[kind](rng)
        if first is not None and not ranges:
            a = list(first)
        if ranges and rng.random() < 0.3:
            a = list(ranges[-1][0])          # same start as the previous range, another stop
        r = rng.random()
        if r < 0.15:
            b = list(a)
        else:
            b = GEN_EP[kind](rng)
        ranges.append([a, b])
    probes = []
    for a, b in ranges:
        probes += neighbours(kind, a) + neighbours(kind, b)
    probes += [GEN_EP[kind](rng) for _ in range(3)]
    def shuffled():
        rs = list(ranges)
        rng.shuffle(rs)                      # the order in which the ranges are written must not matter
        return rs
    strings = [r_interval(rng, kind, shuffled()) for _ in range(nnot)]
    cases = [dict(kind=kind, input=r_seq(rng, kind, shuffled()), equiv=strings, probes=probes)]
    for s in strings:
        cases.append(dict(kind=kind, input=s, probes=probes[:4]))
    return cases


def gen_malformed(rng, kind):
    """strings and sequences that are malformed by construction"""
    a, b = GEN_EP[kind](rng), GEN_EP[kind](rng)
    cls = rng.choice(['range_field', 'missing', 'three', 'garbage', 'empty_range', 'tz', 'seq_len', 'seq_range',
                      'seq_three', 'month_name', 'glued', 'glued'])
    if cls == 'glued' and kind == 'time':
        cls = 'garbage'
    if cls == 'glued':
        # two tokens written without the separating blank: after the middle one is taken out the
        # remaining pieces must NOT be read as one number
        mon = rng.choice(MONTHS)[:3].lower()
        d1, d2 = rng.randrange(1, 3), rng.randrange(0, 10)
        if kind == 'date':
            s = rng.choice([f"{d1}{mon}{d2}", f"{d1}{mon}{d2} - {MONTHS[b[0]-1][:3]} {b[1]}", f"{d1}.{mon}.{d2}"])
        else:
            s = rng.choice([f"{d1}{mon}{d2} 2028 12:00 / 2029-01-01 10:00", f"{mon} 5 20{d1}2:0028 / 2029-01-01 10:00",
                            f"20{d1}{mon} 5{d2} 12:00 / 2029-01-01 10:00", f"2028 {d1}{mon}{d2} 12:00 / 2029-01-01 10:00"])
        return dict(kind=kind, input=s, malformed=True, mclass=cls)
    if kind == 'time':
        sa, sb = r_time(rng, a, 'hms'), r_time(rng, b, 'hms')
        if cls == 'range_field':
            bad = rng.choice(['24:00', '12:60', '12:30:60', '25:00:00', '240000', '1260'])
            s = f"{bad}-{sb}"
        elif cls == 'missing':
            s = rng.choice([f"{sa}-", f"-{sb}", sa, ':30-12:00', '12:-13:00'])
        elif cls == 'three':
            s = rng.choice([f"{sa}-{sb}-{sa}", f"{sa}/{sb}/{sa}", f"{sa} - {sb} - {sa}"])
        elif cls == 'garbage':
            s = rng.choice([f"{sa}-{sb} x", f"x{sa}-{sb}", f"{sa}-{sb}h", f"{sa}:00:00-{sb}", f"{sa}-{sb}.5.5"])
        elif cls == 'empty_range':
            s = f"{sa}-{sb},,{sa}-{sb}"
        elif cls == 'tz':
            s = rng.choice([f"{sa}Z-{sb}", f"{sa}+01:00/{sb}", f"{sa}/{sb}+0100"])
        elif cls == 'seq_len':
            return dict(kind=kind, input=rng.choice([[[[], b]], [[a + [0], b]], [[a, b + [1]]]]), malformed=True, mclass=cls)
        elif cls == 'seq_range':
            bad = rng.choice([[24, 0], [12, 60], [12, 0, 60], [12, 0, 0, 1000000], [-1, 0]])
            return dict(kind=kind, input=[[bad, b]], malformed=True, mclass=cls)
        elif cls == 'seq_three':
            return dict(kind=kind, input=rng.choice([[[a, b, a]], [[a]], [[]]]), malformed=True, mclass=cls)
        else:
            s = f"{sa}-{sb}-"
    elif kind == 'date':
        sa, sb = f"{MONTHS[a[0]-1][:3]} {a[1]}", f"{MONTHS[b[0]-1][:3]} {b[1]}"
        if cls == 'range_field':
            bad = rng.choice(['Feb 30', 'Apr 31', 'Jan 32', 'Jun 0', '--1301', '--0230', '--00-10', '31.Sep'])
            s = f"{bad} - {sb}"
        elif cls == 'missing':
            s = rng.choice(['Apr', f"{sa} - 12", f"{sa} - ", 'Ap 12', '12'])
        elif cls == 'three':
            s = rng.choice([f"{sa}-{sb}-{sa}", f"{sa}/{sb}/{sa}", f"{sa} - {sb} - {sa}"])
        elif cls == 'garbage':
            s = rng.choice([f"{sa} - {sb} x", f"{sa} 2024 - {sb}", f"{sa} - {sb} 1", f"{sa} {sa} - {sb}", f"1{sa} - {sb}"])
        elif cls == 'empty_range':
            s = f"{sa} - {sb};;{sa}"
        elif cls == 'month_name':
            s = rng.choice([f"Foo 1 - {sb}", f"Janu4ry 1 - {sb}", f"Marchh 1 - {sb}", f"Julius 1 - {sb}", f"Ma 1 - {sb}"])
        elif cls == 'seq_len':
            return dict(kind=kind, input=rng.choice([[[[a[0]], b]], [[a + [1], b]], [[[], b]]]), malformed=True, mclass=cls)
        elif cls == 'seq_range':
            bad = rng.choice([[2, 30], [4, 31], [13, 1], [0, 1], [1, 0], [1, 32]])
            return dict(kind=kind, input=[[bad, b]], malformed=True, mclass=cls)
        elif cls == 'seq_three':
            return dict(kind=kind, input=rng.choice([[[a, b, a]], [[]]]), malformed=True, mclass=cls)
        else:
            s = f"{sa} - {sb} - "
    else:
        def iso(x):
            return f"{x[0]:04d}-{x[1]:02d}-{x[2]:02d} {x[3]:02d}:{x[4]:02d}:{x[5]:02d}"
        sa, sb = iso(a), iso(b)
        if cls == 'range_field':
            bad = rng.choice(['2023-02-29 10:00', '2024-13-01 10:00', '2024-04-31 10:00', '2024-01-01 24:00',
                              '2024-01-00 10:00', '0000-01-01 10:00', '2023-02-29T10:00', '20240431T1000'])
            s = f"{bad} / {sb}"
        elif cls == 'missing':
            s = rng.choice([f"{sa} / 2024-01-01", f"{sa} / 10:00", f"{sa} / Jan 1 10:00", f"{sa} / 2024 Jan 10:00",
                            f"{sa} / ", sa, f"{sa} / 2024-01-01T"])
        elif cls == 'three':
            s = rng.choice([f"{sa} / {sb} / {sa}", f"{sa} - {sb} - {sa}", f"{sa}-{sb}"])
        elif cls == 'garbage':
            s = rng.choice([f"{sa} / {sb} x", f"{sa} / {sb} 11:00", f"{sa} / {sb} 2025", f"{sa} Jan / {sb}"])
        elif cls == 'empty_range':
            s = f"{sa} / {sb};;{sa} / {sb}"
        elif cls == 'tz':
            s = rng.choice([f"{sa[:10]}T{sa[11:]}Z / {sb}", f"{sa[:10]}T{sa[11:]}+01:00 / {sb}"])
        elif cls == 'month_name':
            s = rng.choice([f"2024-Foo-01 10:00 / {sb}", f"2024 Ju1y 1 10:00 / {sb}", f"2024 Marchh 1 10:00 / {sb}"])
        elif cls == 'seq_len':
            return dict(kind=kind, input=rng.choice([[[a[:4], b]], [[a + [0], b]], [[[], b]]]), malformed=True, mclass=cls)
        elif cls == 'seq_range':
            bad = rng.choice([[2023, 2, 29, 0, 0], [2024, 13, 1, 0, 0], [2024, 1, 1, 24, 0], [0, 1, 1, 0, 0],
                              [10000, 1, 1, 0, 0]])
            return dict(kind=kind, input=[[bad, b]], malformed=True, mclass=cls)
        elif cls == 'seq_three':
            return dict(kind=kind, input=rng.choice([[[a, b, a]], [[a]], [[]]]), malformed=True, mclass=cls)
        else:
            s = f"{sa} / {sb} / "
    return dict(kind=kind, input=s, malformed=True, mclass=cls)


def check(run):
    spec = C13()
    run.rule = ("numeric intervals of 1..3 ranges: times on an hour/minute/second grid {0,1,9,10,29,30,59} with "
                "microseconds {0, 1, 500000, 999000, 999999, random}; dates over all days of the leap year "
                "(first/last/random day of a random month); date-times with years {1, 9999, 1999, 2000, 2024, "
                "2025, random}; 15 % single-point ranges; each interval as integer sequences (1..4 / 2 / 5..7 "
                "integers, one-element ranges for dates) AND in several string notations (H:M, H:M:S with 1-2 "
                "digits, fraction with point/comma and 1..6 digits, ISO basic/extended/T-prefixed times; month "
                "names in any case cut to >= 3 letters, both day/month orders, trailing periods, --MMDD, "
                "--MM-DD; YYYY-MM-DD, YYYY-mon-DD, 'YYYY month day' in any order, ISO basic/extended date-"
                "times; separators '-' ' - ' '/' ' / '; delimiters ',' ';', trailing delimiter, extra "
                "blanks); probe moments = both endpoints of every range and their +-1 us / +-1 day neighbours "
                "plus random moments; a malformed stream of 10 classes (field out of range, missing part, "
                "three endpoints, trailing garbage, empty range, time zone, bad month name, sequence length, "
                "sequence value range, endpoint count). Entry points: the three Interval classes, "
                "TimeDate.parse, TimeSpan.parse. Non-trivial = a non-empty interval was accepted.")
    run.assumptions = ["ASCII input; whitespace in generated strings is the blank only",
                       "Python 3.12 fromisoformat grammar restricted to calendar dates without time zone "
                       "(week dates are not generated)",
                       "a decimal comma is only generated together with the ';' delimiter (documented)"]
    ngroups = 60 if run.tier == 'quick' else 4000
    nmal = 150 if run.tier == 'quick' else 8000
    cases = []
    for i in range(ngroups):
        kind = ['time', 'date', 'datetime'][i % 3]
        cases += gen_group(run.rng, kind, 6)
    # fixed end points: the last day of February in a leap year ("all days of a leap year"), the last
    # microsecond of a day, the first and the last supported year
    for kind, first in (('date', [2, 29]), ('date', [2, 28]), ('date', [12, 31]), ('time', [23, 59, 59, 999999]),
                        ('time', [0, 0, 0, 0]), ('datetime', [2024, 2, 29, 23, 59, 59, 999999]),
                        ('datetime', [2000, 2, 29, 0, 0, 0, 0]), ('datetime', [9999, 12, 31, 23, 59, 59, 0]),
                        ('datetime', [1, 1, 1, 0, 0, 0, 0])):
        cases += gen_group(run.rng, kind, 4, first=first)
    for i in range(nmal):
        cases.append(gen_malformed(run.rng, ['time', 'date', 'datetime'][i % 3]))
    # month words that are not month names: longer than a full name, or too short to be unambiguous
    for word in ('Mayday', 'Junes', 'Augustus', 'Marchh', 'Januaryy', 'Decembers', 'Julys', 'Ma', 'J', 'Ju', 'Octo-'):
        cases.append(dict(kind='date', input=f"{word} 5", malformed=True, mclass='month_name'))
        cases.append(dict(kind='date', input=f"1 {word} - 3 Dec", malformed=True, mclass='month_name'))
        cases.append(dict(kind='datetime', input=f"2024-{word}-05 10:30 / 2025-01-01 10:00", malformed=True,
                          mclass='month_name'))
    for c in cases:
        run.count('kind_' + c['kind'])
        run.count('input_' + ('str' if isinstance(c['input'], str) else 'seq'))
        if c.get('malformed'):
            run.count('malformed_' + c['mclass'])
    res = common.standard_flow(run, spec, cases)
    for c, o, ch in res:
        run.count('accepted' if o['result'] is not None else 'rejected')
        for p in o['probes']:
            run.count('probe_in' if p else 'probe_out')


def replay(run, path):
    return common.std_replay(run, C13(), path)
