import logging
import warnings

logging.disable(logging.CRITICAL + 10)
warnings.simplefilter('ignore')
