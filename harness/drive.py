"""Helpers for driving the real edzed (imported from /repo via PYTHONPATH)."""
from __future__ import annotations

import asyncio
import logging
import warnings

import edzed

from . import vloop

logging.getLogger('edzed').setLevel(logging.CRITICAL + 10)
logging.getLogger('asyncio').setLevel(logging.CRITICAL + 10)
warnings.simplefilter('ignore')


class SimResult:
    def __init__(self):
        self.value = None          # what the driver returned
        self.driver_exc = None     # exception escaping the driver
        self.run_exc = None        # exception out of edzed.run()
        self.init_exc = None       # exception out of wait_init()
        self.error = None          # circuit.error at the end
        self.loop = None
        self.leaked_tasks = []
        self.leaked_timers = []


def run_circuit(build, driver, *, storage=None, horizon_s=None, shutdown=True, **vkw) -> SimResult:
    """
    Fresh circuit; build() creates the blocks and returns a context object;
    `await driver(ctx, circuit, loop)` runs once wait_init() has returned; afterwards
    the circuit is shut down (unless the driver already did).
    """
    res = SimResult()

    async def main(loop):
        edzed.reset_circuit()
        circuit = edzed.get_circuit()
        if storage is not None:
            circuit.set_persistent_data(storage)
        ctx = build()
        res.ctx = ctx

        async def support():
            try:
                await circuit.wait_init()
            except Exception as err:     # start-up failed
                res.init_exc = err
                return
            except asyncio.CancelledError as err:
                # edzed.run() cancels the supporting tasks when the simulation task ends first
                res.init_exc = circuit.error if circuit.error is not None else err
                return
            try:
                res.value = await driver(ctx, circuit, loop)
            except Exception as err:
                res.driver_exc = err
            # returning ends edzed.run()

        try:
            await edzed.run(support(), catch_sigterm=False)
        except BaseException as err:     # noqa
            res.run_exc = err
        res.error = circuit.error
        me = asyncio.current_task()
        res.leaked_tasks = [t for t in asyncio.all_tasks() if t is not me and not t.done()]
        res.leaked_timers = loop.pending_timers()
        return res

    try:
        _, loop = vloop.run_virtual(main, horizon_s=horizon_s, **vkw)
        res.loop = loop
    finally:
        edzed.reset_circuit()
    return res


def settle():
    """Yield to the loop a few times so that the simulator task reaches its queue wait."""
    return _Settle()


class _Settle:
    def __await__(self):
        for _ in range(3):
            yield from asyncio.sleep(0).__await__()
