"""Plain-Python reading of the documented TimeDate/TimeSpan predicate, used ONLY to word the
violation reports of C07 (which samples are wrong); the verdict itself comes from the Coq monitor."""
import datetime as dt

US = 1_000_000


def pred(cfg, rd):
    y, m, d, h, mi, s, us = rd['dt']
    if cfg['t'] == 'ts':
        x = tuple(rd['dt'])
        return any(tuple(a) <= x < tuple(b) for a, b in cfg['span'])
    if cfg['times'] is None and cfg['dates'] is None and cfg['wds'] is None:
        return False
    ok = True
    if cfg['times'] is not None:
        t = (h, mi, s, us)
        ok &= any((tuple(a) <= t < tuple(b)) if tuple(a) < tuple(b) else (tuple(a) <= t or t < tuple(b))
                  for a, b in cfg['times'])
    if cfg['dates'] is not None:
        x = (m, d)
        ok &= any((tuple(a) <= x <= tuple(b)) if tuple(a) <= tuple(b) else (tuple(a) <= x or x <= tuple(b))
                  for a, b in cfg['dates'])
    if cfg['wds'] is not None:
        ok &= rd['wd'] in cfg['wds']
    return ok


def bad_samples(obs):
    out = []
    for s in obs['samples']:
        if any(b <= s['abs'] <= b + 5000 for b in s['bounds']):
            continue
        if any(j <= s['abs'] <= j + 3600 * US + 5000 for j in obs['jumps']):
            continue
        if pred(obs['cfgs'][s['cfg']], s['now']) != bool(s['out']):
            out.append(s)
    return out
