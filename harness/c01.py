"""C01 (and C10) - simulator loop: schedules of the real simulator accepted by coq/Model/Sim.v"""
from __future__ import annotations

from fractions import Fraction

import edzed

from . import common, drive, vloop
from .common import clist, cbool, cpair, cstr, cnat, cq
from .vals import dec, enc, cj

IMPORTS = "From Verif Require Import Values Sim SimProofs.\nOpen Scope string_scope."


# the reference function of FuncBlocks; Gallina twin: apply_fun (FFunc unpack) in Model/Sim.v
def ffunc_unpack(*args, **kw):
    return (sum(1 for a in args if a)
            + 10 * sum(1 for v in kw.values() if not isinstance(v, tuple) and v)
            + 100 * sum(len(v) for v in kw.values() if isinstance(v, tuple)))


def ffunc_nounpack(args, **kw):
    assert isinstance(args, tuple)
    return 1000 + ffunc_unpack(*args, **kw)


def py_ref(r, blocks):
    """reference spec -> what is handed to connect()"""
    kind = r[0]
    if kind == 'obj':
        return blocks[r[1]]
    if kind == 'name':
        return r[1]
    if kind == 'not':
        return '_not_' + r[1]
    if kind == 'const':
        return edzed.Const(dec(r[1]))
    if kind == 'val':
        return dec(r[1])
    raise ValueError(r)


class SimSpec(common.Spec):
    imports = IMPORTS
    case_type = 'c1case'
    verdict_fn = 'c1_verdict'
    shard = 60

    def run_impl(self, cases):
        return [self._run_one(c) for c in cases]

    def _run_one(self, case):
        log = []
        order = {}
        burst_evals = [0]
        replaced = []

        def idx(blk):
            return order.get(blk.name, -1)

        def build():
            blocks = {}
            for b in case['blocks']:
                name, kind = b['name'], b['kind']
                skw = {}
                if b.get('events') and kind in ('input', 'counter'):
                    # output events of a source that its destination refuses as unknown (harmless:
                    # the sender's event() call reports the error, the simulation goes on)
                    # ... or that forward the new value to another source (a relay: a sequential
                    # block that no combinational block reads)
                    # with 'at_init' the event is sent during the initialisation as well: its destination
                    # changes once more before the simulation starts
                    skw['on_output'] = [edzed.Event(e['dest'], e['etype'] if e['etype'] in ('put', 'inc') else
                                                    edzed.EventCond('nosuch', None)
                                                    if e['etype'] == 'cond_nosuch' else 'nosuch',
                                                    efilter=() if e.get('at_init') else edzed.not_from_undef)
                                        for e in b['events']]
                if kind == 'input':
                    blocks[name] = edzed.Input(name, initdef=dec(b['init']), **skw)
                elif kind == 'counter':
                    blocks[name] = edzed.Counter(name, initdef=b['init'], **skw)
            for b in case['blocks']:
                name, kind = b['name'], b['kind']
                if kind in ('input', 'counter'):
                    continue
                kw = {}
                if b.get('events'):
                    evs = []
                    for e in b['events']:
                        flt = edzed.not_from_undef if e.get('nfu') else None
                        etype = e['etype']
                        if etype == 'cond':
                            etype = edzed.EventCond('put', None)
                        evs.append(edzed.Event(e['dest'], etype, efilter=flt))
                    kw['on_output'] = evs
                if kind == 'not':
                    blk = edzed.Not(name, **kw)
                elif kind == 'and':
                    blk = edzed.And(name, **kw)
                elif kind == 'or':
                    blk = edzed.Or(name, **kw)
                elif kind == 'xor':
                    blk = edzed.Xor(name, **kw)
                elif kind == 'compare':
                    blk = edzed.Compare(name, low=float(Fraction(b['lo'])) if '/' in str(b['lo']) else b['lo'],
                                        high=float(Fraction(b['hi'])) if '/' in str(b['hi']) else b['hi'], **kw)
                elif kind == 'override':
                    blk = edzed.Override(name, null_value=dec(b['null']), **kw)
                elif kind == 'func':
                    blk = edzed.FuncBlock(name, func=ffunc_unpack if b['unpack'] else ffunc_nounpack,
                                          unpack=b['unpack'], **kw)
                else:
                    raise ValueError(kind)
                blocks[name] = blk
            for b in case['blocks']:
                if b['kind'] in ('input', 'counter'):
                    continue
                args = [py_ref(r, blocks) for r in b['ins'].get('_', [])]
                kwargs = {}
                for n, spec in b['ins'].items():
                    if n == '_':
                        continue
                    if spec[0] == 'group':
                        kwargs[n] = [py_ref(r, blocks) for r in spec[1]]
                    else:
                        kwargs[n] = py_ref(spec, blocks)
                blocks[b['name']].connect(*args, **kwargs)
            return blocks

        def instrument(circuit):
            for n, blk in enumerate(circuit.getblocks()):
                order[blk.name] = n
                if isinstance(blk, edzed.SBlock):
                    def seto(value, _orig=blk.set_output, _blk=blk):
                        log.append(['S', idx(_blk), enc(value)])
                        _orig(value)
                    blk.set_output = seto
                else:
                    last = [None]

                    def calc(_orig=blk.calc_output, _last=last):
                        v = _orig()
                        _last[0] = v
                        return v

                    def evalb(_orig=blk.eval_block, _blk=blk, _last=last):
                        burst_evals[0] += 1
                        if burst_evals[0] > 40 * len(order) + 200:
                            # far more evaluations than any limit without an idle point or an error
                            raise vloop.HarnessTimeout('evaluation loop does not end')
                        pos = len(log)
                        log.append(None)
                        _last[0] = None
                        before = _blk.output
                        try:
                            changed = _orig()
                            # an evaluation that reports "unchanged" (the new value compares equal, e.g.
                            # True for 1) must leave the old output in place: the blocks reading it are
                            # not re-evaluated, they would be stale for a function that tells the two apart
                            if changed is False and _blk.output is not before:
                                replaced.append([_blk.name, repr(before), repr(_blk.output)])
                            return changed
                        finally:
                            log[pos] = ['E', idx(_blk), enc(_last[0])]
                    blk.calc_output, blk.eval_block = calc, evalb

        res = drive.SimResult()

        async def main(loop):
            import asyncio
            edzed.reset_circuit()
            circuit = edzed.get_circuit()
            blocks = build()
            if len(case['blocks']) % 2:
                circuit.finalize()      # creates the _not_ blocks; run_forever finalizes only once
                instrument(circuit)
            else:
                # the usual way: the circuit is finalized by run_forever(); the blocks (the automatically
                # created ones included) are instrumented right after that
                def finalize_then_instrument(_orig=circuit.finalize):
                    _orig()
                    if not order:
                        instrument(circuit)
                circuit.finalize = finalize_then_instrument

            async def support():
                try:
                    await circuit.wait_init()
                except BaseException as err:
                    res.init_exc = err
                    return
                def snap():
                    burst_evals[0] = 0
                    return ['I', [enc(b.output) for b in circuit.getblocks()]]
                log.append(snap())
                for burst in case['bursts']:
                    for name, etype, val in burst:
                        kw = {} if val is None else {'value': dec(val)}
                        try:
                            edzed.ExtEvent(blocks[name], etype).send(**kw)
                        except edzed.EdzedUnknownEvent:
                            if circuit.error is not None:
                                log.append(['X', 'EUnknownEvent'])
                            # else: harmless, the output of the source has been set nevertheless
                        except Exception as err:
                            log.append(['X', common.exc_enum(err, aborted=circuit.error is not None)])
                    await drive.settle()
                    if circuit.error is not None:
                        break
                    log.append(snap())
            try:
                await edzed.run(support(), catch_sigterm=False)
            except BaseException as err:
                res.run_exc = err
            res.error = circuit.error
            res.names = [b.name for b in circuit.getblocks()]
            res.kinds = [type(b).__name__ for b in circuit.getblocks()]

        try:
            vloop.run_virtual(main)
        except vloop.HarnessTimeout:
            res.run_exc = None
            res.names = getattr(res, 'names', None) or [n for n, _ in sorted(order.items(), key=lambda kv: kv[1])]
            steps = [s for s in log if s is not None]
            return dict(steps=steps[:3000], names=res.names, end='HANG')
        except Exception as err:
            return dict(error=repr(err), steps=[], names=[])
        finally:
            edzed.reset_circuit()
        steps = [s for s in log if s is not None]
        end = None
        if res.run_exc is not None:
            end = common.exc_enum(res.run_exc)
            if end == 'EInstability':
                steps.append(['U'])
        return dict(steps=steps, names=res.names, kinds=res.kinds, end=end, replaced=replaced)

    # ---------------------------------------------------------------- Coq side
    def model_circuit(self, case, names):
        """The model circuit from the SPEC (not from the implementation's resolved inputs);
        only the position of automatic _not_ blocks is taken from the implementation."""
        pos = {n: i for i, n in enumerate(names)}
        by_name = {b['name']: b for b in case['blocks']}

        def cref(r):
            kind = r[0]
            if kind in ('obj', 'name'):
                return f"RBlk {cnat(pos[r[1]])}"
            if kind == 'not':
                return f"RBlk {cnat(pos['_not_' + r[1]])}"
            return f"RConst {cj(r[1])}"

        out = []
        for n in names:
            b = by_name.get(n)
            if b is None:
                if n.startswith('_not_') and n[5:] in pos:
                    out.append(f'CB FNot [("_", IGroup [RBlk {cnat(pos[n[5:]])}])]')
                else:
                    out.append('SB')        # e.g. _ctrl
                continue
            if b['kind'] in ('input', 'counter'):
                out.append('SB')
                continue
            f = {'not': 'FNot', 'and': 'FAnd', 'or': 'FOr', 'xor': 'FXor'}.get(b['kind'])
            if b['kind'] == 'compare':
                f = f"(FCompare {cq(Fraction(b['lo']))} {cq(Fraction(b['hi']))})"
            elif b['kind'] == 'override':
                f = f"(FOverride {cj(b['null'])})"
            elif b['kind'] == 'func':
                f = f"(FFunc {cbool(b['unpack'])})"
            ins = []
            for iname, spec in b['ins'].items():
                if iname == '_':
                    ins.append(cpair(cstr('_'), f"IGroup {clist(spec, cref)}"))
                elif spec[0] == 'group':
                    ins.append(cpair(cstr(iname), f"IGroup {clist(spec[1], cref)}"))
                else:
                    ins.append(cpair(cstr(iname), f"ISingle ({cref(spec)})"))
            out.append(f"CB {f} {clist(ins)}")
        return clist(out)

    def emit(self, case, obs):
        if 'error' in obs or not obs['names']:
            return "{| c1_circ := [SB]; c1_steps := [SEval 0%nat VUndef] |}"

        def step(s):
            t = s[0]
            try:
                if t == 'S':
                    return f"SSet {cnat(s[1])} {cj(s[2])}"
                if t == 'E':
                    return f"SEval {cnat(s[1])} {cj(s[2])}"
                if t == 'I':
                    return f"SIdle {clist(s[1], cj)}"
                if t == 'U':
                    return "SUnstable"
            except (common.Unrepresentable, AssertionError):
                pass
            return "SEval 4999%nat VUndef"        # anything else is not an accepted step
        steps = [step(s) for s in obs['steps']]
        if obs.get('end') not in (None, 'EInstability', 'HANG'):
            steps.append("SEval 4999%nat VUndef")  # the run ended with an unexpected error
        try:
            circ = self.model_circuit(case, obs['names'])
        except KeyError:
            return "{| c1_circ := [SB]; c1_steps := [SEval 0%nat VUndef] |}"
        return "{| c1_circ := %s;\n   c1_steps := %s |}" % (circ, clist(steps))

    def nontrivial(self, case, obs):
        return sum(1 for s in obs.get('steps', []) if s[0] == 'E') >= 3

    def shrink(self, case):
        bs = case['bursts']
        for i in range(len(bs)):
            yield dict(case, bursts=bs[:i] + bs[i + 1:])
        for i, b in enumerate(bs):
            for j in range(len(b)):
                if len(b) > 1:
                    yield dict(case, bursts=bs[:i] + [b[:j] + b[j + 1:]] + bs[i + 1:])
        # drop a block nobody refers to
        blocks = case['blocks']
        used = set()
        for b in blocks:
            for spec in b.get('ins', {}).values():
                refs = spec if (spec and isinstance(spec[0], list)) else (spec[1] if spec[0] == 'group' else [spec])
                for r in refs:
                    if r[0] in ('obj', 'name', 'not'):
                        used.add(r[1])
            for e in b.get('events', []):
                used.add(e['dest'])
        for b in case['bursts']:
            for ev in b:
                used.add(ev[0])
        for i, b in enumerate(blocks):
            if b['name'] not in used:
                yield dict(case, blocks=blocks[:i] + blocks[i + 1:])
        for i, b in enumerate(blocks):
            if b.get('events'):
                yield dict(case, blocks=blocks[:i] + [dict(b, events=[])] + blocks[i + 1:])

    def clause(self, case, obs):
        if obs.get('end') == 'EInstability':
            return 'instability'
        if obs.get('end') == 'HANG':
            return 'hang'
        return 'idle_consistency'

    def describe(self, case, obs):
        return f"circuit {case['blocks']} bursts {case['bursts']}: observed schedule {obs.get('steps')} end={obs.get('end')}"


# --------------------------------------------------------------------------- generators
BOOLV = [["b", True], ["b", False], ["i", 0], ["i", 1]]
INTV = [["i", n] for n in (-3, 0, 1, 2, 3, 5, 8)]


def gen_acyclic(rng, maxc=12, feedback=True):
    blocks = []
    nsrc = rng.randrange(1, 5)
    srcs = []
    for i in range(nsrc):
        r = rng.random()
        if r < 0.45:
            blocks.append(dict(name=f"s{i}", kind='input', init=rng.choice(BOOLV), typ='bool'))
        elif r < 0.75:
            blocks.append(dict(name=f"s{i}", kind='input', init=rng.choice(INTV), typ='int'))
        else:
            blocks.append(dict(name=f"s{i}", kind='counter', init=rng.randrange(0, 4), typ='int'))
        srcs.append(blocks[-1])
    nfb = rng.choice([0, 0, 1, 2]) if feedback else 0
    ncb = rng.randrange(1, maxc + 1)
    fb_at = sorted(rng.randrange(1, ncb + 1) for _ in range(nfb)) if ncb >= 1 else []
    producers = list(srcs)          # blocks usable as inputs, each with 'typ'
    cbs = []
    fbs = []

    def ref(p):
        r = rng.random()
        if r < 0.45:
            return ['obj', p['name']]
        if r < 0.8:
            return ['name', p['name']]
        return ['not', p['name']]       # '_not_NAME' shortcut (result is a bool)

    def pick(numeric=False):
        cand = [p for p in producers if not numeric or p['typ'] == 'int']
        r = rng.random()
        if not cand or r < 0.12:
            v = rng.choice(INTV if numeric else BOOLV + INTV)
            return ['const', v] if rng.random() < 0.5 else ['val', v]
        p = rng.choice(cand)
        rf = ref(p)
        if numeric and rf[0] == 'not':
            rf = ['name', p['name']]
        return rf

    for k in range(ncb):
        while fb_at and fb_at[0] == k:
            fb_at.pop(0)
            fb = dict(name=f"f{len(fbs)}", kind='input', init=rng.choice(BOOLV), typ='bool', fb=True)
            fbs.append(fb)
            blocks.append(fb)
            producers.append(fb)
        kind = rng.choice(['not', 'and', 'or', 'xor', 'compare', 'override', 'func', 'func', 'and', 'xor'])
        b = dict(name=f"b{k}", kind=kind, ins={}, events=[])
        if kind == 'not':
            b['ins']['_'] = [pick()]
            b['typ'] = 'bool'
        elif kind in ('and', 'or', 'xor'):
            b['ins']['_'] = [pick() for _ in range(rng.choice([1, 2, 2, 3, 4]))]
            b['typ'] = 'bool'
        elif kind == 'compare':
            lo = rng.choice([0, 1, 2, "1/2", "5/2"])
            hi = rng.choice([x for x in (lo, 2, 3, 5, "5/2", "7/2") if Fraction(x) >= Fraction(lo)])
            b['lo'], b['hi'] = lo, hi
            b['ins']['_'] = [pick(numeric=True)]
            b['typ'] = 'bool'
        elif kind == 'override':
            b['null'] = rng.choice([["none"], ["i", 0], ["b", False]])
            b['ins']['input'] = pick()
            b['ins']['override'] = pick() if rng.random() < 0.7 else ['const', b['null']]
            b['typ'] = 'any'
        else:
            b['unpack'] = rng.random() < 0.5
            b['ins']['_'] = [pick() for _ in range(rng.choice([0, 1, 2, 3]))]
            for nm in rng.sample(['a', 'b', 'g', 'h'], rng.choice([0, 1, 2])):
                if nm in ('g', 'h'):
                    b['ins'][nm] = ['group', [pick() for _ in range(rng.choice([0, 1, 2, 3]))]]
                else:
                    b['ins'][nm] = pick()
            if not b['ins']['_'] and len(b['ins']) == 1:
                b['ins']['_'] = [pick()]
            if not b['ins']['_']:
                del b['ins']['_']
            b['typ'] = 'int'
        blocks.append(b)
        cbs.append(b)
        producers.append(b)
    # CBlock -> SBlock feedback: events from a cblock to a feedback input created AFTER it
    # (so that only later cblocks consume it) - keeps the event graph loop-free
    for fb in fbs:
        pos = blocks.index(fb)
        senders = [b for b in blocks[:pos] if b['kind'] not in ('input', 'counter')]
        if senders:
            s = rng.choice(senders)
            s['events'].append(dict(dest=fb['name'], etype=rng.choice(['put', 'put', 'cond']),
                                    nfu=rng.random() < 0.3))
    # feedback into the sources themselves (may oscillate: then the run must end with the
    # instability error, which the acceptor checks as well)
    unk = rng.random() < 0.25      # this circuit has sources with refused (unknown) output events instead
    if feedback and not unk:
        for b in cbs:
            if rng.random() < 0.12:
                t = rng.choice(srcs)
                if t['kind'] == 'counter':
                    et = rng.choice(['put', 'reset', 'inc', 'cond'])
                else:
                    et = rng.choice(['put', 'cond'])
                b['events'].append(dict(dest=t['name'], etype=et, nfu=rng.random() < 0.3))
    # output events of the sources that their destination does not know (non-fatal errors)
    if len(srcs) >= 2 and unk:
        for sblk in srcs:
            if rng.random() < 0.6:
                others = [x for x in srcs if x is not sblk]
                sblk.setdefault('events', []).append(
                    dict(dest=rng.choice(others)['name'], etype=rng.choice(['nosuch', 'cond_nosuch'])))
    # a relay: an Input nobody is connected to, forwarding every new value to one of the real sources
    inputs = [x for x in srcs if x['kind'] == 'input']
    if inputs and rng.random() < 0.3:
        t = rng.choice(inputs)
        relay = dict(name='rly', kind='input', init=t['init'], typ=t['typ'],
                     events=[dict(dest=t['name'], etype='put')])
        blocks.append(relay)
        srcs.append(relay)
    # an Input created first whose initialisation sends an event to a real source: that source changes
    # again while the circuit is being initialised
    quiet = [x for x in srcs if not x.get('events')]    # (an unknown output event at start-up is fatal)
    if quiet and rng.random() < 0.35:
        t = rng.choice(quiet)
        if t['kind'] == 'counter':
            ini = dict(name='ini', kind='input', init=["i", 1], typ='int',
                       events=[dict(dest=t['name'], etype='inc', at_init=True)])
        else:
            other = (["b", not t['init'][1]] if t['typ'] == 'bool' else ["i", t['init'][1] + 1])
            ini = dict(name='ini', kind='input', init=other, typ=t['typ'],
                       events=[dict(dest=t['name'], etype='put', at_init=True)])
        blocks.insert(0, ini)
    # bursts of external events to the sources
    bursts = []
    for _ in range(rng.randrange(1, 7)):
        burst = []
        # now and then a long burst: more output changes than 3 x the number of blocks
        blen = rng.randrange(1, 5) if rng.random() < 0.88 else 3 * len(blocks) + rng.randrange(2, 9)
        for _ in range(blen):
            s = rng.choice(srcs)
            if s['kind'] == 'counter':
                burst.append([s['name'], rng.choice(['inc', 'dec', 'inc']), None])
            else:
                burst.append([s['name'], 'put', rng.choice(BOOLV if s['typ'] == 'bool' else INTV)])
        bursts.append(burst)
    for b in blocks:
        b.pop('typ', None)
        b.pop('fb', None)
    return dict(blocks=blocks, bursts=bursts)


def gen_constants():
    """several different constants in one circuit - given as values and as Const objects, equal ones
    repeated, in both orders: every block computes with ITS constant (pairs like -1/-2, 0/False/0.0-like
    and 1/True are the ones a value cache can confuse)"""
    pairs = [(["i", -1], ["i", -2]), (["i", -2], ["i", -1]), (["i", 1], ["i", 2]), (["i", 0], ["i", 1]),
             (["i", -1], ["i", 1]), (["i", 3], ["i", -3])]
    for a, b in pairs:
        for ka, kb in (('val', 'val'), ('const', 'val'), ('val', 'const'), ('const', 'const')):
            blocks = [dict(name='s0', kind='input', init=["i", 0])]
            for i, (k, v) in enumerate(((ka, a), (kb, b), (ka, a))):
                for lo in ("-3/2", "1/2"):
                    blocks.append(dict(name=f"c{i}{'n' if lo[0] == '-' else 'p'}", kind='compare', lo=lo, hi=lo,
                                       ins={'_': [[k, v]]}, events=[]))
            blocks.append(dict(name='n0', kind='not', ins={'_': [['obj', 's0']]}, events=[]))
            yield dict(blocks=blocks, bursts=[[['s0', 'put', ["i", 1]]]])


def gen_not_names():
    """'_not_NAME' shortcuts for names that begin with the letters of the prefix itself ('no_flow', 'not1',
    'to', 'n_t') while blocks with the shortened names exist as well: the inverter negates NAME"""
    for a, b in (('no_flow', 'flow'), ('not1', '1x'), ('to_x', 'x'), ('n_t_q', 'q'), ('ton', 'tonn')):
        for va in (True, False):
            blocks = [dict(name=b, kind='input', init=["b", va]), dict(name=a, kind='input', init=["b", not va]),
                      dict(name='g1', kind='and', ins={'_': [['not', a], ['obj', b]]}, events=[]),
                      dict(name='g2', kind='or', ins={'_': [['not', a], ['not', b]]}, events=[]),
                      dict(name='g3', kind='xor', ins={'_': [['not', b], ['name', a]]}, events=[])]
            yield dict(blocks=blocks, bursts=[[[a, 'put', ["b", va]]], [[b, 'put', ["b", not va]]]])


def gen_long_chain(rng):
    """one Input feeding a chain of 205..260 Not blocks, the end of the chain reconverging with the input
    in an Xor: a single change makes more than 200 evaluations in one settling round"""
    n = rng.randrange(205, 261)
    blocks = [dict(name='s0', kind='input', init=["b", rng.random() < 0.5])]
    prev = 's0'
    for k in range(n):
        blocks.append(dict(name=f"n{k}", kind='not', ins={'_': [[rng.choice(['name', 'obj']), prev]]}, events=[]))
        prev = f"n{k}"
    blocks.append(dict(name='x', kind='xor', ins={'_': [['obj', prev], ['name', 's0']]}, events=[]))
    bursts = [[['s0', 'put', ["b", v]]] for v in rng.choice([[True, False, True], [False, True], [True, True, False]])]
    return dict(blocks=blocks, bursts=bursts)


def gen_small_exhaustive(maxc):
    """all chains/fans of <= maxc boolean cblocks over two Inputs x all input vectors x single changes"""
    import itertools
    kinds = ['not', 'and', 'or', 'xor']
    for n in range(1, maxc + 1):
        for ks in itertools.product(kinds, repeat=n):
            for wiring in itertools.product(range(3), repeat=n):
                blocks = [dict(name='s0', kind='input', init=["b", False]),
                          dict(name='s1', kind='input', init=["b", False])]
                names = ['s0', 's1']
                for k, (kind, w) in enumerate(zip(ks, wiring)):
                    avail = names[:]
                    a = avail[(w + k) % len(avail)]
                    b2 = avail[(w * 2 + 1 + k) % len(avail)]
                    ins = [['name', a]] if kind == 'not' else [['name', a], ['obj', b2]]
                    blocks.append(dict(name=f"b{k}", kind=kind, ins={'_': ins}, events=[]))
                    names.append(f"b{k}")
                for v0 in (False, True):
                    for v1 in (False, True):
                        bursts = [[['s0', 'put', ["b", v0]], ['s1', 'put', ["b", v1]]],
                                  [['s0', 'put', ["b", not v0]]], [['s1', 'put', ["b", not v1]]]]
                        yield dict(blocks=[dict(b) for b in blocks], bursts=bursts)


def check(run):
    spec = SimSpec()
    run.rule = ("random acyclic circuits of 1..12 library CBlocks (Not, And, Or, Xor, Compare with "
                "hysteresis, Override, FuncBlock with unpack on/off over positional, named single and "
                "named group inputs) over 1..4 Input/Counter blocks, references by object, by name, "
                "by '_not_NAME' shortcut, Const and plain constants, reconvergent fan-out, CBlock->"
                "SBlock feedback through on_output events (put / EventCond / not_from_undef); "
                "histories of 1..6 bursts of 1..4 external events (12 % of the bursts: more than 3 x the number of blocks) sent without yielding. The observed "
                "schedule (set_output and eval_block calls with the computed value, in order) and "
                "the outputs of all blocks right after wait_init() and after every burst are fed to "
                "the acceptor; thorough adds all chains of <= 3 boolean CBlocks x all input vectors "
                "x all single changes. Non-trivial = >= 3 evaluations; distinct by JSON.")
    n = 350 if run.tier == 'quick' else 9000
    cases = [gen_acyclic(run.rng) for _ in range(n)]
    cases += [gen_long_chain(run.rng) for _ in range(3 if run.tier == 'quick' else 40)]
    cases += list(gen_constants())
    cases += list(gen_not_names())
    small = list(gen_small_exhaustive(2 if run.tier == 'quick' else 3))
    if run.tier == 'quick':
        small = small[::4]
    else:
        run.exhaustive = True
    cases += small
    for c in cases:
        run.count('ncblocks=%d' % sum(1 for b in c['blocks'] if b['kind'] not in ('input', 'counter')))
        for b in c['blocks']:
            run.count('kind_' + b['kind'])
            if b.get('events'):
                run.count('feedback_events', len(b['events']))
    # second tie: the output functions of Not/And/Or/Xor/Compare/Override regenerated from the source
    gen_problem = common.generated_model(run, 'gen_cblocks.py', 'GenCBlocks.v', 'GenCBlocksProofs.v')
    run.assumptions.append("tools/gen_cblocks.py (fail-closed Python-ast translator of the bundled combinational "
                           "blocks, ~280 lines) is trusted to render the accepted shapes faithfully")
    res = common.standard_flow(run, spec, cases)
    bad = [(c, o) for c, o, ch in res if o.get('replaced')]
    run.add_obligation(not bad)
    if bad:
        c, o = min(bad, key=lambda x: len(repr(x[0])))
        run.violation('monitor', dict(case=c, observed=dict(replaced=o['replaced'][:5])),
                      "an evaluation reported 'output unchanged' but replaced the output by an equal value of "
                      f"another type/identity (block, before, after): {o['replaced'][:5]}; the blocks reading it "
                      f"were not re-evaluated. Circuit: {c['blocks']}", clause='unchanged_output_replaced',
                      concrete=True)
    for c, o, ch in res:
        for s in o.get('steps', []):
            run.count('step_' + s[0])
    if gen_problem is not None:
        run.add_obligation(False)
        if not any(v['concrete'] for v in run.violations):
            run.violation('translation', dict(correspondence='Gen/GenCBlocksProofs.v: generated_cblocks_are_model, '
                                              'generated_compare_threshold, generated_signatures'),
                          gen_problem, clause='generated_model', concrete=False)
        else:
            run.notes.append("generated model: " + gen_problem[:500])
    check_funcblock_current_inputs(run)


def check_funcblock_current_inputs(run, only=None):
    """'FuncBlock ... output equals its function applied to the CURRENT outputs of the connected blocks' -
    for a function that tells apart values which compare equal (1 / True / 1.0, 0 / False) and for
    input values that cannot be hashed (a list): the function is called with exactly the current
    objects every time the inputs change."""
    import asyncio
    from . import drive, vloop

    def describe(*args, **kw):
        flat = list(args[0]) if (len(args) == 1 and isinstance(args[0], tuple)) else list(args)
        return '/'.join(f"{type(x).__name__}:{x!r}" for x in flat + [kw[k] for k in sorted(kw)])
    seq = [1, 0, True, 2, 1.0, False, [1], 1, [1], True]      # (consecutive values differ: equal ones are no change)
    for name in ('unpack', 'nounpack', 'named'):
        if only is not None and name != only:
            continue
        obs = dict(outputs=[], error=None, harness=None)

        async def main(loop, name=name, obs=obs):
            edzed.reset_circuit()
            circuit = edzed.get_circuit()
            a = edzed.Input('a', initdef=seq[0])
            b = edzed.Input('b', initdef=0)
            if name == 'named':
                f = edzed.FuncBlock('f', func=describe).connect(x=a, y=b)
            else:
                f = edzed.FuncBlock('f', func=describe, unpack=(name == 'unpack')).connect(a, b)
            task = asyncio.create_task(circuit.run_forever())
            await circuit.wait_init()
            obs['outputs'].append(f.output)
            for v in seq[1:]:
                a.event('put', value=v)
                await drive.settle()
                if circuit.error is not None:
                    obs['error'] = repr(circuit.error)[:200]
                    break
                obs['outputs'].append(f.output)
            try:
                await circuit.shutdown()
            except BaseException:                # noqa
                pass
        try:
            vloop.run_virtual(main, wall_limit_s=10.0)
        except BaseException as err:             # noqa
            obs['harness'] = repr(err)[:200]
        finally:
            edzed.reset_circuit()
        want = [describe(v, 0) for v in seq]
        run.add_case(dict(funcblock_current_inputs=name), True)
        run.count('funcblock_current_inputs')
        ok = obs['harness'] is None and obs['error'] is None and obs['outputs'] == want
        run.add_obligation(ok)
        if not ok:
            run.violation('monitor', dict(case=dict(funcblock_current_inputs=name), observed=obs),
                          f"FuncBlock ({name}) with a function describing the type and value of its inputs; input a "
                          f"takes the values {seq}: outputs at the idle points {obs['outputs']} (expected {want}), "
                          f"error {obs['error']}; harness: {obs['harness']}",
                          clause='funcblock_current_inputs:' + name, concrete=True)


def replay(run, path):
    payload, case = common.load_replay_case(path)
    if isinstance(case, dict) and 'funcblock_current_inputs' in case:
        return common.directed_replay(run, path,
                                      lambda: check_funcblock_current_inputs(run, case['funcblock_current_inputs']))
    if payload.get('clause') == 'unchanged_output_replaced':
        def again():
            o = SimSpec().run_impl([case])[0]
            if o.get('replaced'):
                run.violation('monitor', dict(case=case, observed=dict(replaced=o['replaced'][:5])),
                              f"an evaluation reported 'output unchanged' but replaced the output: {o['replaced'][:5]}",
                              clause='unchanged_output_replaced', concrete=True)
        return common.directed_replay(run, path, again)
    return common.std_replay(run, SimSpec(), path)
