"""C19 - durations: edzed.utils.convert / time_period / timestr / timestr_approx vs coq/Model/Duration.v"""
from __future__ import annotations

from fractions import Fraction

import edzed
from edzed import utils

from . import common
from .common import cq, cz, cstr, cnat, copt

IMPORTS = "From Verif Require Import Values Duration.\nOpen Scope string_scope."


def fr(x):
    f = Fraction(*x.as_integer_ratio()) if isinstance(x, float) else Fraction(x)
    return f"{f.numerator}/{f.denominator}"


def cstring(s):
    """Coq string literal, non-printable characters via ascii codes"""
    if all(32 <= ord(c) < 127 for c in s):
        return cstr(s)
    parts = []
    for b in s.encode('utf-8'):          # non-ASCII characters as their UTF-8 bytes
        parts.append(f'(String (Ascii.ascii_of_nat {b}) ""%string)')
    return "(String.concat \"\"%string [" + "; ".join(parts) + "])" if parts else '""%string'


class C19(common.Spec):
    imports = IMPORTS
    case_type = 'dcase'
    verdict_fn = 'd19_verdict'
    shard = 400

    def run_impl(self, cases):
        out = []
        for c in cases:
            k = c['kind']
            try:
                if k == 'convert':
                    r = utils.convert(c['s'])
                    o = ['q', fr(r)] if isinstance(r, float) else ['err', 'EOther']
                elif k == 'period':
                    a = c['arg']
                    arg = {'none': None, 'int': a[1] if len(a) > 1 else None, 'bool': bool(a[1]) if len(a) > 1 else None}.get(a[0])
                    if a[0] == 'int':
                        arg = a[1]
                    elif a[0] == 'bool':
                        arg = bool(a[1])
                    elif a[0] == 'float':
                        arg = float(Fraction(a[1]))
                    elif a[0] == 'str':
                        arg = a[1]
                    elif a[0] == 'other':
                        arg = [1]
                    r = utils.time_period(arg)
                    o = ['none'] if r is None else (['q', fr(r)] if isinstance(r, float) else ['err', 'EOther'])
                elif k == 'timestr_int':
                    o = ['s', utils.timestr(c['n'])]
                elif k == 'timestr_float':
                    o = ['s', utils.timestr(float(Fraction(c['x'])), prec=c['prec'])]
                elif k == 'approx':
                    x = c['x']
                    o = ['s', utils.timestr_approx(x[1] if x[0] == 'int' else float(Fraction(x[1])))]
                elif k == 'inv_int':
                    o = ['q', fr(utils.convert(utils.timestr(c['n'])))]
                else:
                    raise ValueError(k)
            except Exception as err:
                o = ['err', common.exc_enum(err)]
            out.append(o)
        return out

    def emit(self, case, obs):
        def rq(o):
            return f"(Ok {cq(Fraction(o[1]))})" if o[0] == 'q' else f"(Err {o[1] if o[0] == 'err' else 'EOther'})"

        def rs(o):
            try:
                return f"(Ok {cstring(o[1])})" if o[0] == 's' else f"(Err {o[1] if o[0] == 'err' else 'EOther'})"
            except common.Unrepresentable:
                return "(Err EOther)"
        k = case['kind']
        if k == 'convert':
            return f"DConvert {cstring(case['s'])} {rq(obs)}"
        if k == 'period':
            a = case['arg']
            arg = {'none': 'PNone', 'other': 'POther'}.get(a[0])
            if a[0] in ('int', 'bool'):
                arg = f"(PInt {cz(int(a[1]))})"
            elif a[0] == 'float':
                arg = f"(PFloat {cq(Fraction(a[1]))})"
            elif a[0] == 'str':
                arg = f"(PStr {cstring(a[1])})"
            o = "(Ok None)" if obs[0] == 'none' else (f"(Ok (Some {cq(Fraction(obs[1]))}))" if obs[0] == 'q'
                                                       else f"(Err {obs[1]})")
            return f"DPeriod {arg} {o}"
        if k == 'timestr_int':
            return f"DTimestrInt {cz(case['n'])} {rs(obs)}"
        if k == 'timestr_float':
            return f"DTimestrFloat {cq(Fraction(case['x']))} {cnat(case['prec'])} {rs(obs)}"
        if k == 'approx':
            x = case['x']
            px = f"(PyI {cz(x[1])})" if x[0] == 'int' else f"(PyF {cq(Fraction(x[1]))})"
            return f"DApprox {px} {rs(obs)}"
        return f"DInvInt {cz(case['n'])} {rq(obs)}"

    def clause(self, case, obs):
        return case['kind']

    def describe(self, case, obs):
        return f"{case}: observed {obs}"


WS = ['', '', '', ' ', '  ', '\t', ' \n']


def render_trad(rng, d, h, m, s, frac=None):
    """a traditional string for the given unit values (None = unit absent)"""
    out = rng.choice(WS)
    units = [('d', d), ('h', h), ('m', m), ('s', s)]
    present = [(u, v) for u, v in units if v is not None]
    for i, (u, v) in enumerate(present):
        txt = str(v)
        if frac is not None and i == len(present) - 1:
            txt += rng.choice('.,') + frac
        letter = u.upper() if rng.random() < 0.3 else u
        if u == 's' and rng.random() < 0.3:
            letter = ''
        out += txt + rng.choice(WS[:5]) + letter + rng.choice(WS[:5])
    return out + rng.choice(WS)


def render_iso(rng, d, h, m, s, frac=None, y=None, mo=None):
    out = 'P'
    date = [('Y', y), ('M', mo), ('D', d)]
    time = [('H', h), ('M', m), ('S', s)]
    allp = [(u, v) for u, v in date + time if v is not None]
    for u, v in date:
        if v is not None:
            txt = str(v)
            if frac is not None and (u, v) == allp[-1]:
                txt += rng.choice('.,') + frac
            out += txt + u
    if any(v is not None for _, v in time) or rng.random() < 0.1:
        out += 'T'
        for u, v in time:
            if v is not None:
                txt = str(v)
                if frac is not None and (u, v) == allp[-1]:
                    txt += rng.choice('.,') + frac
                out += txt + u
    return rng.choice(WS) + out + rng.choice(WS)


def mutate(rng, s):
    ops = rng.randrange(8)
    if not s:
        return rng.choice(['x', '.', 'P', ' '])
    i = rng.randrange(len(s))
    if ops == 0:
        return s[:i] + s[i + 1:]
    if ops == 1:
        return s[:i] + rng.choice('dhmsPTYMDHS.,x- 5') + s[i:]
    if ops == 2:
        return s[:i] + rng.choice('dhmsx.,') + s[i + 1:]
    if ops == 3:
        return s + rng.choice(['1', 'd', '.5', ' 3', 'T'])
    if ops == 4:
        return s.swapcase()
    if ops == 5:
        j = rng.randrange(len(s))
        l = list(s)
        l[i], l[j] = l[j], l[i]
        return ''.join(l)
    if ops == 6:
        return s.replace('1', '1.5', 1)
    return s[::-1]


def gen_cases(run):
    rng = run.rng
    cases = []
    n = 1 if run.tier == 'quick' else 12
    small = [0, 1, 2, 7, 23, 24, 59, 60, 61, 100]
    fracs = ['5', '25', '125', '0625', '015625', '000', '1', '3', '999', '04', '9996', '123456']
    for _ in range(700 * n):
        vals = [rng.choice(small + [rng.randrange(0, 100000)]) if rng.random() < 0.55 else None for _ in range(4)]
        if all(v is None for v in vals):
            vals[rng.randrange(4)] = rng.choice(small)
        frac = rng.choice(fracs) if rng.random() < 0.4 else None
        cases.append(dict(kind='convert', s=render_trad(rng, *vals, frac=frac)))
        y = rng.choice([None, None, 0, 1])
        mo = rng.choice([None, None, 0, 2])
        cases.append(dict(kind='convert', s=render_iso(rng, *vals, frac=frac, y=y, mo=mo)))
    base = list(cases)
    for _ in range(700 * n):
        cases.append(dict(kind='convert', s=mutate(rng, rng.choice(base)['s'])))
    for s in ['', ' ', 'P', 'PT', 'P1Y', 'P1M', 'P0Y0M1D', 'PT0S', '0', '1.5h30m', '1,5h', '1h1.5m',
              '1.5', '.5', '5.', '1d1d', '1h1d', '1s1m', 'p1d', 'P1d', 'pt5s', '1 2', '1d 2', 'P 1D',
              'P1DT', 'PT1H1H', 'P1DT1D', '1.5.5', '1e3', '-1', '+1', '１', '1 s', '1dd', 'dd', 's',
              '1.5S', 'P1,5D', 'PT1.5H30M', 'PT1H30.5M', 'PT1.5S', '9' * 25, '0' * 30 + '1',
              '1.0000000000000000000000001']:
        cases.append(dict(kind='convert', s=s))
    # a fraction in a larger unit, the smaller unit being zero, nonzero or written without a unit
    units = 'dhms'
    for i in range(3):
        for j in range(i + 1, 4):
            for z in ('0', '00', '30'):
                for mark in '.,':
                    cases.append(dict(kind='convert', s=f"1{mark}5{units[i]}{z}{units[j] if j < 3 or z != '00' else ''}"))
    for iso in ('P1.5DT0S', 'P1,5DT0H', 'PT1.5H0M', 'PT1.5H0S', 'PT2,5M0S', 'P0.5DT0H0M0S', 'PT1.5H00M', 'P1.5DT30M',
                'PT0.5H0.5M', 'PT1.5M0.0S'):
        cases.append(dict(kind='convert', s=iso))
    # time_period
    for a in (['none'], ['other'], ['int', 0], ['int', -5], ['int', 7], ['bool', 1], ['bool', 0],
              ['int', 2 ** 60 + 1], ['float', '-1/2'], ['float', '5/2'], ['float', '0/1'],
              ['str', '1m30s'], ['str', ''], ['str', 'P1DT2H'], ['str', 'abc'], ['str', '1,5s'],
              # strings that Python's float() would take, but that are not durations
              ['str', '-5'], ['str', '+7'], ['str', '1e3'], ['str', '1_000'], ['str', '.5'], ['str', '5.'],
              ['str', 'inf'], ['str', 'nan'], ['str', '1e400'], ['str', '-0'], ['str', '0x10'], ['str', 'Infinity'],
              ['str', ' 5 '], ['str', '5'], ['str', '2.5'], ['str', '1_0s']):
        cases.append(dict(kind='period', arg=a))
    for _ in range(100 * n):
        cases.append(dict(kind='period', arg=['float', fr(rng.uniform(-10, 1e6))]))
        cases.append(dict(kind='period', arg=['int', rng.randrange(-100, 10 ** 7)]))
    # timestr: integers dense at unit boundaries, and the inverse relation
    ints = set()
    for b in (0, 60, 3600, 86400, 36000, 864000, 10 ** 7, 2 * 86400 + 3600):
        for d in range(-3, 4):
            if b + d >= 0:
                ints.add(b + d)
    for _ in range(300 * n):
        ints.add(rng.randrange(0, 10 ** 7))
        ints.add(rng.randrange(0, 10 ** 12))
    ints.add(-1)
    for v in sorted(ints):
        cases.append(dict(kind='timestr_int', n=v))
        if v >= 0:
            cases.append(dict(kind='inv_int', n=v))
        cases.append(dict(kind='approx', x=['int', v]))
    floats = [0.0, 0.0004, 0.0005, 0.9994, 0.9995, 0.9996, 0.99951, 1.0, 1.005, 1.015, 9.994, 9.995, 9.996,
              10.0, 59.94, 59.95, 59.96, 59.9996, 60.0, 60.5, 61.5, 3599.5, 35999.4, 35999.5, 36000.0,
              36029.9, 36030.0, 86399.9995, 86400.0, 863999.5, 864000.0, 865800.0, -0.5, 1e-7, 123456.789]
    for _ in range(400 * n):
        mag = rng.choice([1, 10, 60, 3600, 86400, 10 ** 6])
        floats.append(round(rng.uniform(0, mag), rng.randrange(0, 7)))
        floats.append(rng.uniform(0, mag))
    for x in floats:
        cases.append(dict(kind='approx', x=['float', fr(x)]))
        for prec in (3, rng.randrange(0, 7)):
            cases.append(dict(kind='timestr_float', x=fr(x), prec=prec))
    return cases


def check(run):
    spec = C19()
    run.rule = ("convert(): traditional and ISO renderings of random/boundary unit values for every "
                "subset of units with random case, inner/outer white space (space, tab, newline), "
                "decimal point or comma and 1..6 fraction digits in the smallest unit, zero/non-zero "
                "calendar years and months; string mutations (insert/delete/replace/swap/reverse) and "
                "a hand list of malformed inputs; time_period() on None/int/bool/float/str/other; "
                "timestr() on integers dense at unit boundaries up to 1e12 and floats with prec 0..6 "
                "incl. the rounding boundaries (59.9996, 86399.9995, 1.005, ...); timestr_approx() on "
                "the same; convert(timestr(n)) on the implementation. Floats are handed over as exact "
                "fractions; the model rounds like IEEE doubles. Every case is distinct by JSON and "
                "non-trivial.")
    run.assumptions = ["double arithmetic is modelled as round-to-nearest-even in the normal range "
                       "(no overflow, no subnormals)"]
    cases = gen_cases(run)
    seen, uniq = set(), []
    for c in cases:
        h = common.case_hash(c)
        if h not in seen:
            seen.add(h)
            uniq.append(c)
    for c in uniq:
        run.count('kind_' + c['kind'])
    res = common.standard_flow(run, spec, uniq)
    for c, o, ch in res:
        run.count(c['kind'] + '_' + ('ok' if o[0] != 'err' else o[1]))


def replay(run, path):
    return common.std_replay(run, C19(), path)
