"""
Shared machinery of the checks: Coq term printing, running coqc on generated
Cases files, proof status, verdict -> exit code, evidence, replays, known findings.
"""
from __future__ import annotations

import hashlib
import json
import os
import random
import re
import subprocess
import sys
import time
from fractions import Fraction
from pathlib import Path

VERIF = Path(__file__).resolve().parent.parent
COQ = VERIF / 'coq'
CASES = COQ / 'Cases'
GEN = COQ / 'Gen'
EVIDENCE = VERIF / 'evidence'
REPLAYS = VERIF / 'replays'
CORPUS = VERIF / 'corpus'
REPO = Path(os.environ.get('VERIF_REPO', '/repo'))
COQ_Q = ['-Q', 'Base', 'Verif', '-Q', 'Model', 'Verif', '-Q', 'Proofs', 'Verif',
         '-Q', 'Props', 'Verif', '-Q', 'Gen', 'VerifGen', '-Q', 'Cases', 'VerifCases']
FORBIDDEN = re.compile(
    r'\b(Admitted|admit|Axiom|Parameter|Conjecture|Abort All)\b|Unset Guard|bypass_check|'
    r'Unset Positivity|Unset Universe|type-in-type|impredicative-set')

KERNEL_TB = [
    "Coq 8.16.1 kernel (coqc, full .vo build, vm_compute used for Examples/sweeps and for "
    "evaluating generated Cases files; native_compute not used)",
    "hand-written Gallina models under coq/Model (tie to /repo is the correspondence check "
    "of this run, not a proof)",
    "Python harness: virtual-time loop, probes/wrappers, Python->Coq term printer, "
    "exception->enum mapping, verdict parser",
]


# ---------------------------------------------------------------- Coq term printing
def cz(n: int) -> str:
    return f"({n})%Z" if n < 0 else f"{n}%Z"


def cnat(n: int) -> str:
    assert 0 <= n < 5000, n
    return f"{n}%nat"


def cq(x) -> str:
    """Exact rational literal (Qmake num den)."""
    if isinstance(x, bool):
        x = int(x)
    if isinstance(x, float):
        fr = Fraction(*x.as_integer_ratio())
    else:
        fr = Fraction(x)
    return f"(Qmake ({fr.numerator})%Z {fr.denominator}%positive)"


def cbool(b) -> str:
    return 'true' if b else 'false'


def cstr(s: str) -> str:
    for ch in s:
        if ord(ch) > 126 or ord(ch) < 32:
            raise ValueError(f"unprintable char in {s!r}")
    return '"' + s.replace('"', '""') + '"%string'


def copt(x, f) -> str:
    return 'None' if x is None else f"(Some {f(x)})"


def clist(xs, f=lambda x: x) -> str:
    return '[' + '; '.join(f(x) for x in xs) + ']'


def cpair(a: str, b: str) -> str:
    return f"({a}, {b})"


class Unrepresentable(Exception):
    pass


def cval(v) -> str:
    """Python value -> val (coq/Base/Values.v)."""
    import edzed
    if v is edzed.UNDEF:
        return 'VUndef'
    if v is None:
        return 'VNone'
    if isinstance(v, bool):
        return f"(VBool {cbool(v)})"
    if isinstance(v, int):
        return f"(VInt {cz(v)})"
    if isinstance(v, float):
        if v != v or v in (float('inf'), float('-inf')):
            raise Unrepresentable(repr(v))
        return f"(VFlt {cq(v)})"
    if isinstance(v, Fraction):
        return f"(VFlt {cq(v)})"
    if isinstance(v, str):
        return f"(VStr {cstr(v)})"
    if isinstance(v, tuple) and all(isinstance(i, int) and not isinstance(i, bool) for i in v):
        return f"(VTup {clist(v, cz)})"
    if isinstance(v, dict) and all(isinstance(k, str) and isinstance(i, int) and not isinstance(i, bool)
                                   for k, i in v.items()):
        # a dict as a VALUE (an output, an event data item); canonical form: sorted by key
        return f"(VMap {clist(sorted(v.items()), lambda kv: cpair(cstr(kv[0]), cz(kv[1])))})"
    raise Unrepresentable(repr(v))


def cdata(d: dict) -> str:
    """Event data dict -> data (association list sorted by key: canonical form)."""
    return clist(sorted(d.items()), lambda kv: cpair(cstr(kv[0]), cval(kv[1])))


# ---------------------------------------------------------------- building / running Coq
def sh(cmd, timeout, cwd=None, env=None):
    return subprocess.run(cmd, cwd=cwd, env=env, timeout=timeout, text=True,
                          stdout=subprocess.PIPE, stderr=subprocess.STDOUT)


def ensure_build(timeout=1500) -> None:
    """Incremental full .vo build of the development (no-op after setup.sh)."""
    if not (COQ / 'Makefile').exists():
        r = sh(['coq_makefile', '-f', '_CoqProject', '-o', 'Makefile'], 60, cwd=COQ)
        if r.returncode != 0:
            broken(f"coq_makefile failed:\n{r.stdout}")
    r = sh(['timeout', str(timeout), 'make', '-j16'], timeout + 30, cwd=COQ)
    if r.returncode != 0:
        broken(f"Coq development does not build (this is a defect of /verif, not of edzed):\n"
               + r.stdout[-3000:])


def generated_model(run, translator: str, gen_file: str, proof_file: str) -> str | None:
    """The 'regenerated model' tie: run tools/<translator> on /repo's current source, compile the
    generated Gen/<gen_file> and Gen/<proof_file> (theorems: generated = hand-written model) and
    read back Print Assumptions.  Returns None when everything checks, else a description of what
    no longer does (the caller then searches for a failing input with the correspondence check).
    Neither file is part of the main build: a source the translator refuses, or for which the
    equivalence proof fails, cannot break the other checks."""
    gen = COQ / 'Gen'
    r = sh([sys.executable, str(VERIF / 'tools' / translator), os.environ.get('VERIF_REPO', '/repo'),
            str(gen / gen_file)], 120)
    if r.returncode != 0:
        return f"translator tools/{translator} refused the source: {r.stdout.strip()[-1500:]}"
    for f in (gen_file, proof_file):
        code = re.sub(r'\(\*.*?\*\)', '', (gen / f).read_text(), flags=re.S)
        if FORBIDDEN.search(code):
            broken(f"forbidden construct in coq/Gen/{f}")
    qs = COQ_Q + ['-Q', 'Gen', 'Verif']
    r1 = sh(['timeout', '300', 'coqc'] + qs + [f'Gen/{gen_file}'], 330, cwd=COQ)
    if r1.returncode != 0:
        return f"generated Gen/{gen_file} does not compile: {r1.stdout[-1500:]}"
    r2 = sh(['timeout', '300', 'coqc'] + qs + [f'Gen/{proof_file}'], 330, cwd=COQ)
    if r2.returncode != 0:
        return (f"Gen/{proof_file} (generated model = hand-written model) no longer checks against the model "
                f"generated from the current source: {r2.stdout[-1500:]}")
    src = (gen / proof_file).read_text()
    names = re.findall(r'^\s*Theorem\s+(\w+)', src, flags=re.M)
    order = re.findall(r'^\s*Print Assumptions\s+(\w+)', src, flags=re.M)
    blocks = [b.strip() for b in re.split(r'(?m)^(?=Closed under the global context|Axioms:)', r2.stdout) if b.strip()]
    if run.proof is not None:
        run.proof['theorems'] = run.proof['theorems'] + names
        for n, b in zip(order, blocks):
            run.proof['assumptions'][n] = b[:600]
        run.proof['all_closed'] = run.proof['all_closed'] and len(blocks) == len(order) and all(
            b.startswith('Closed under') for b in blocks)
        run.proof['cmd'] += f" ; python3 tools/{translator} ; coqc Gen/{gen_file} Gen/{proof_file}"
    run.add_obligation(True, len(names))
    run.notes.append(f"model regenerated from the source by tools/{translator}; Gen/{proof_file}: "
                     f"{', '.join(names)} re-checked on this run")
    return None


def scan_forbidden() -> list[str]:
    hits = []
    for p in sorted(COQ.rglob('*.v')):
        if p.parent.name in ('Cases', 'Gen'):
            continue
        for i, line in enumerate(p.read_text().splitlines(), 1):
            code = re.sub(r'\(\*.*?\*\)', '', line)
            if FORBIDDEN.search(code):
                hits.append(f"{p.relative_to(VERIF)}:{i}: {line.strip()}")
    return hits


def proof_status(prop: str) -> dict:
    """
    Re-check Props/<prop>.v with coqc on this run and read back Print Assumptions.
    Returns dict(theorems=[names], discharged=int, assumptions={name: text}, cmd=str).
    """
    vfile = COQ / 'Props' / f'{prop}.v'
    src = vfile.read_text()
    theorems = re.findall(r'^\s*Theorem\s+(\w+)', src, flags=re.M)
    cmd = ['coqc'] + COQ_Q + [f'Props/{prop}.v']
    r = sh(['timeout', '600'] + cmd, 630, cwd=COQ)
    if r.returncode != 0:
        broken(f"Props/{prop}.v does not compile (defect of /verif):\n{r.stdout[-3000:]}")
    # Print Assumptions output blocks, in the order of the commands in the file
    order = re.findall(r'^\s*Print Assumptions\s+(\w+)', src, flags=re.M)
    blocks = re.split(r'(?m)^(?=Closed under the global context|Axioms:)', r.stdout)
    blocks = [b.strip() for b in blocks if b.strip()]
    assumptions = {}
    for name, blk in zip(order, blocks):
        assumptions[name] = blk if len(blk) < 600 else blk[:600] + '...'
    forbidden = scan_forbidden()
    if forbidden:
        broken("forbidden construct in the Coq development:\n" + "\n".join(forbidden))
    return dict(theorems=theorems, discharged=len(theorems), assumptions=assumptions,
                cmd='cd coq && ' + ' '.join(cmd),
                all_closed=all(b.startswith('Closed under') for b in assumptions.values())
                and len(assumptions) == len(order))


_STR_RE = re.compile(r'=\s*"((?:[^"]|"")*)"\s*(?:%string)?\s*:\s*string', re.S)


def coq_verdicts(prop: str, imports: str, case_type: str, verdict_fn: str, terms: list[str],
                 shard: int = 250, extra_defs: str = '', timeout: int = 900) -> tuple[str, dict]:
    """
    Write the case terms into Cases_<prop>_<k>.v, let coqc evaluate
    `verdict_fn : case_type -> ascii` on each of them with vm_compute and return the string
    of verdict characters (one per case, in order) and some stats.
    """
    for old in CASES.glob(f'Cases_{prop}_*'):
        old.unlink()
    files = []
    for k in range(0, len(terms), shard):
        chunk = terms[k:k + shard]
        name = f'Cases_{prop}_{k // shard}'
        body = [imports, extra_defs,
                f"Definition cases : list ({case_type}) := [",
                ";\n".join(chunk), "].",
                f"Definition out : string := verdict_string (map ({verdict_fn}) cases).",
                "Eval vm_compute in out.", ""]
        (CASES / f'{name}.v').write_text("\n".join(body))
        files.append(name)
    t0 = time.time()
    procs = []
    results = {}
    maxpar = 16
    pending = list(files)
    running = []

    def launch(name):
        return name, subprocess.Popen(
            ['timeout', str(timeout), 'coqc'] + COQ_Q + [f'Cases/{name}.v'],
            cwd=COQ, text=True, stdout=subprocess.PIPE, stderr=subprocess.STDOUT)

    while pending or running:
        while pending and len(running) < maxpar:
            running.append(launch(pending.pop(0)))
        name, p = running.pop(0)
        out, _ = p.communicate()
        results[name] = (p.returncode, out)
    verdicts = []
    for name, k in zip(files, range(0, len(terms), shard)):
        rc, out = results[name]
        m = _STR_RE.search(out)
        n = len(terms[k:k + shard])
        if rc != 0 or not m:
            broken(f"coqc failed on generated {name}.v (defect of /verif: term printer or model "
                   f"out of sync):\n{out[-2500:]}")
        s = re.sub(r'\s+', '', m.group(1))
        if len(s) != n:
            broken(f"{name}.v: {len(s)} verdicts for {n} cases:\n{out[-1000:]}")
        verdicts.append(s)
    stats = dict(files=len(files), coq_wall_s=round(time.time() - t0, 2),
                 cmd='cd coq && coqc <-Q flags> Cases/Cases_%s_<k>.v  (Eval vm_compute)' % prop)
    return ''.join(verdicts), stats


def coq_eval(prop: str, imports: str, expr: str, timeout=300) -> str:
    """Evaluate one expression (for diagnostics in replay files); returns coqc's raw output."""
    name = f'Cases_{prop}_diag'
    (CASES / f'{name}.v').write_text(f"{imports}\nEval vm_compute in ({expr}).\n")
    r = sh(['timeout', str(timeout), 'coqc'] + COQ_Q + [f'Cases/{name}.v'], timeout + 10, cwd=COQ)
    return r.stdout.strip()


# ---------------------------------------------------------------- verdict handling
class Broken(Exception):
    """the machinery itself is broken (Coq build, printer, verdict parser): exit 2"""


class HarnessProblem(Broken):
    """the implementation did something the harness cannot observe or the model cannot express
    (an exception out of the driving code, an API that is gone): the correspondence is broken;
    reported as a violation without a failing input"""


def broken(msg: str):
    raise Broken(msg)


def case_hash(obj) -> str:
    return hashlib.sha256(json.dumps(obj, sort_keys=True, default=str).encode()).hexdigest()[:12]


def load_findings(prop: str) -> list[dict]:
    p = VERIF / 'known_findings.json'
    if not p.exists():
        return []
    return [f for f in json.loads(p.read_text()).get('findings', []) if f['property'] == prop]


def write_replay(prop: str, tag: str, payload: dict) -> str:
    REPLAYS.mkdir(exist_ok=True)
    path = REPLAYS / f"{prop}-{tag}.json"
    path.write_text(json.dumps(payload, indent=1, sort_keys=True, default=str))
    return str(path.relative_to(VERIF))


class Run:
    """Collects what one check run did; produces evidence, output lines and the exit code."""

    def __init__(self, prop: str, tier: str, seed: int):
        self.prop, self.tier, self.seed = prop, tier, seed
        self.t0 = time.time()
        self.rng = random.Random(seed)
        self.evaluations = 0
        self.nontrivial_keys = set()
        self.samples = []
        self.distribution = {}
        self.violations = []          # dicts: kind, case, detail, clause
        self.known_hits = []
        self.obligations = 0
        self.discharged = 0
        self.notes = []
        self.proof = None
        self.coq_stats = []
        self.rule = ''
        self.assumptions = []
        self.extra = {}
        self.exhaustive = False

    def count(self, key: str, n: int = 1):
        self.distribution[key] = self.distribution.get(key, 0) + n

    def add_case(self, canon, nontrivial: bool):
        self.evaluations += 1
        if nontrivial:
            self.nontrivial_keys.add(case_hash(canon))
        if len(self.samples) < 3:
            self.samples.append(canon)

    def add_obligation(self, ok: bool, n: int = 1):
        self.obligations += n
        if ok:
            self.discharged += n

    def violation(self, kind: str, case, detail: str, clause: str = '', concrete: bool = True):
        self.violations.append(dict(kind=kind, case=case, detail=detail, clause=clause,
                                    concrete=concrete))

    # ---- finishing
    def finish(self) -> int:
        findings = load_findings(self.prop)
        open_f = [f for f in findings if f.get('status') == 'open']
        lines = []
        unknown = []
        seen_known = set()
        for v in self.violations:
            hit = None
            for f in open_f:
                if finding_matches(f, v):
                    hit = f
                    break
            if hit is not None:
                if hit['id'] not in seen_known:
                    seen_known.add(hit['id'])
                    self.known_hits.append(dict(id=hit['id'], what=hit['what']))
                    lines.append(f"KNOWN-FINDING: property={self.prop} {hit['what']}")
            else:
                unknown.append(v)
        # one VIOLATION line per distinct clause (first = smallest case)
        reported = {}
        for v in unknown:
            key = (v['kind'], v['clause'])
            if key not in reported or len(json.dumps(v['case'], default=str)) < len(
                    json.dumps(reported[key]['case'], default=str)):
                reported[key] = v
        for (kind, clause), v in reported.items():
            tag = ('link-' if not v['concrete'] else '') + case_hash([v['case'], clause])
            path = write_replay(self.prop, tag, dict(
                property=self.prop, seed=self.seed, tier=self.tier, kind=kind, clause=clause,
                concrete_failing_input=v['concrete'], detail=v['detail'], case=v['case'],
                how_to_replay=f"./check {self.prop} --replay replays/{self.prop}-{tag}.json"))
            suffix = '' if v['concrete'] else ' no-failing-input-found'
            lines.append(f"VIOLATION property={self.prop} replay={path}{suffix}")
        self.write_evidence(len(reported))
        for ln in lines:
            print(ln)
        dt = time.time() - self.t0
        print(f"[{self.prop}] tier={self.tier} seed={self.seed} cases={self.evaluations} "
              f"nontrivial={len(self.nontrivial_keys)} obligations={self.discharged}/"
              f"{self.obligations} violations={len(reported)} known={len(seen_known)} "
              f"wall={dt:.1f}s")
        return 1 if reported else 0

    def write_evidence(self, nviol: int):
        EVIDENCE.mkdir(exist_ok=True)
        proof = self.proof or {}
        tb = list(KERNEL_TB)
        axioms = sorted({a for a in proof.get('assumptions', {}).values()
                         if not a.startswith('Closed under')})
        tb.append("axioms per theorem (Print Assumptions on this run): "
                  + ("none - every property theorem is closed under the global context"
                     if proof.get('all_closed') else json.dumps(proof.get('assumptions', {}))))
        cov = dict(
            obligations=self.obligations, discharged=self.discharged,
            checker_cmd=proof.get('cmd', '') + ' ; ' + '; '.join(
                sorted({c.get('cmd', '') for c in self.coq_stats})),
            trusted_base=tb,
            theorems=proof.get('theorems', []),
            print_assumptions=proof.get('assumptions', {}),
            evaluations=self.evaluations,
            distinct_nontrivial=len(self.nontrivial_keys),
            rule=self.rule, samples=self.samples or ['(none)'],
            traces_validated_against_impl=self.evaluations,
            input_distribution=self.distribution,
            coq_runs=self.coq_stats, exhaustive=self.exhaustive,
            known_findings_reported=[v for v in self.known_hits],
            notes=self.notes, **self.extra)
        ev = dict(property_id=self.prop, tier=self.tier, seed=self.seed, level='proof',
                  coverage=cov, assumptions=self.assumptions,
                  wall_s=round(time.time() - self.t0, 2), violations=nviol)
        (EVIDENCE / f'{self.prop}.json').write_text(json.dumps(ev, indent=1, default=str))


def finding_matches(f: dict, v: dict) -> bool:
    m = f.get('match', {})
    if 'clause' in m and m['clause'] != v.get('clause'):
        return False
    if 'kind' in m and m['kind'] != v.get('kind'):
        return False
    case = v.get('case')
    for key, want in m.get('case', {}).items():
        cur = case
        for part in key.split('.'):
            if isinstance(cur, dict) and part in cur:
                cur = cur[part]
            else:
                cur = None
                break
        if cur != want:
            return False
    return True


# ---------------------------------------------------------------- exception -> enum
def exc_enum(exc: BaseException, aborted: bool = False) -> str:
    """Map a real exception to the model's errkind constructor name."""
    import edzed
    if isinstance(exc, edzed.EdzedUnknownEvent):
        return 'EUnknownEvent'
    if isinstance(exc, edzed.EdzedInvalidState):
        return 'EInvalidState'
    if isinstance(exc, edzed.EdzedCircuitError):
        msg = str(exc)
        if 'recursive event' in msg:
            return 'ERecursion'
        if 'instability' in msg:
            return 'EInstability'
        if 'not initialized' in msg:
            return 'ENotInitialized'
        return 'EHandler'
    if aborted:
        return 'EHandler'
    if isinstance(exc, TypeError):
        return 'EParam' if _call_boundary(exc) else 'EType'
    if isinstance(exc, ValueError):
        return 'EValue'
    if isinstance(exc, KeyError):
        return 'EKey'
    return 'EOther'


def _call_boundary(exc: BaseException) -> bool:
    tb = exc.__traceback__
    # the innermost frame that raised is the caller of the handler (argument binding failed)
    last = None
    while tb is not None:
        last = tb
        tb = tb.tb_next
    return last is not None and last.tb_frame.f_code.co_name == 'event'


# ---------------------------------------------------------------- the standard flow
class Spec:
    """What a property module hands to standard_flow()."""
    imports = ''
    case_type = ''
    verdict_fn = ''
    extra_defs = ''
    shard = 250

    def run_impl(self, cases):          # -> list of observations (JSON-able)
        raise NotImplementedError

    def emit(self, case, obs) -> str:   # -> Coq term of type case_type
        raise NotImplementedError

    def nontrivial(self, case, obs) -> bool:
        return True

    def shrink(self, case):             # yields smaller cases
        return ()

    def neighbours(self, case, rng):    # yields nearby cases for the directed search
        return ()

    def clause(self, case, obs) -> str:  # names what failed (for known-findings matching)
        return ''

    def known_class(self, case, obs):    # clause of a LISTED finding this observation is an instance of
        return None

    def describe(self, case, obs) -> str:
        return ''


def evaluate(run: Run, spec: Spec, cases: list, tag: str = ''):
    """Run implementation + model on cases; returns list of (case, obs, verdict_char)."""
    if not cases:
        return []
    obs = spec.run_impl(cases)
    # Instances of a finding that is LISTED as open in known_findings.json are reported as such
    # (KNOWN-FINDING, see Run.finish) and are not obligations of this run; if the finding is not
    # listed (any more) they go through the model like every other case and become violations.
    open_clauses = {f.get('match', {}).get('clause') for f in load_findings(run.prop)
                    if f.get('status') == 'open'}
    known = {}
    for i, (c, o) in enumerate(zip(cases, obs)):
        kc = spec.known_class(c, o)
        if kc is not None and kc in open_clauses:
            known[i] = kc
            run.violation('monitor', dict(case=c, observed=o), spec.describe(c, o), clause=kc, concrete=True)
    idx = [i for i in range(len(cases)) if i not in known]
    terms = [spec.emit(cases[i], obs[i]) for i in idx]
    if terms:
        verdicts, stats = coq_verdicts(run.prop + tag, spec.imports, spec.case_type, spec.verdict_fn,
                                       terms, shard=spec.shard, extra_defs=spec.extra_defs)
        stats['cases'] = len(terms)
        run.coq_stats.append(stats)
        run.add_obligation(all(ch in 'A' for ch in verdicts), stats['files'])
    else:
        verdicts = ''
    full = ['K'] * len(cases)
    for i, ch in zip(idx, verdicts):
        full[i] = ch
    if known:
        run.distribution['instances_of_listed_findings'] = run.distribution.get('instances_of_listed_findings', 0) + len(known)
    return list(zip(cases, obs, full))


def standard_flow(run: Run, spec: Spec, cases: list, max_shrink_rounds: int = 12,
                  max_reports: int = 6):
    results = evaluate(run, spec, cases)
    for case, obs, ch in results:
        run.add_case(case, spec.nontrivial(case, obs))
    for ch in 'ARVXK':
        n = sum(1 for r in results if r[2] == ch)
        if n:
            run.count('verdict_' + ch, n)
    bad = [r for r in results if r[2] not in 'AK']
    if not bad:
        return results
    if any(ch == 'X' for _, _, ch in bad):
        c, o, _ = next(r for r in bad if r[2] == 'X')
        broken("a case is accepted by the model but its monitor fails - harness and Coq side "
               "disagree about the encoding (contradicts the link theorem): "
               + json.dumps(dict(case=c, obs=o), default=str)[:2000])
    # group by clause so that different violations are reported separately
    by_clause = {}
    for c, o, ch in bad:
        by_clause.setdefault((ch, spec.clause(c, o)), []).append((c, o, ch))
    nrep = 0
    for (ch, clause), group in sorted(by_clause.items(), key=lambda kv: kv[0][1]):
        if nrep >= max_reports:
            break
        nrep += 1
        group.sort(key=lambda r: len(json.dumps(r[0], default=str)))
        case, obs, ch = group[0]
        case, obs, ch = _shrink(run, spec, case, obs, ch, clause, max_shrink_rounds)
        if ch == 'V':
            run.violation('monitor', dict(case=case, observed=obs), spec.describe(case, obs),
                          clause=clause, concrete=True)
            continue
        # 'R': model and code disagree but the monitor holds on what was observed:
        # directed search around the diverging case
        found = None
        neigh = list(spec.neighbours(case, run.rng))[:400]
        if neigh:
            for c2, o2, ch2 in evaluate(run, spec, neigh, tag='n'):
                run.evaluations += 1
                if ch2 == 'V':
                    found = (c2, o2)
                    break
                if ch2 == 'X':
                    broken("accepted-but-monitor-fails in directed search")
        if found:
            c2, o2, _ = _shrink(run, spec, found[0], found[1], 'V', spec.clause(*found),
                                max_shrink_rounds)
            run.violation('monitor', dict(case=c2, observed=o2), spec.describe(c2, o2),
                          clause=spec.clause(c2, o2), concrete=True)
        else:
            run.violation(
                'correspondence', dict(case=case, observed=obs),
                "the implementation's behaviour is no longer accepted by the Coq model "
                f"(correspondence component of {run.prop}: {spec.verdict_fn}); the monitor holds on "
                "the observed values of this case and the directed search found no failing "
                "input. " + spec.describe(case, obs), clause=clause, concrete=False)
    return results


def _shrink(run, spec, case, obs, ch, clause, rounds):
    for _ in range(rounds):
        cands = list(spec.shrink(case))[:60]
        if not cands:
            break
        res = evaluate(run, spec, cands, tag='s')
        run.obligations -= run.coq_stats[-1]['files']     # shrinking runs are not obligations
        run.discharged -= run.coq_stats[-1]['files'] if all(r[2] == 'A' for r in res) else 0
        nxt = None
        for c2, o2, ch2 in res:
            if ch2 == ch and spec.clause(c2, o2) == clause:
                nxt = (c2, o2, ch2)
                break
        if nxt is None:
            break
        case, obs, ch = nxt
    return case, obs, ch


def load_replay_case(path: str):
    payload = json.loads(Path(path).read_text() if os.path.isabs(path)
                         else (VERIF / path).read_text())
    case = payload['case']['case'] if isinstance(payload.get('case'), dict) and 'case' in payload['case'] \
        else payload['case']
    return payload, case


def directed_replay(run: Run, path: str, fn) -> int:
    """Replay of a violation found by a directed sub-check: run the sub-check again (fn records
    violations in run) and report."""
    fn()
    if run.violations:
        for v in run.violations:
            print(v['detail'])
        print(f"VIOLATION property={run.prop} replay={path}")
        return 1
    print(f"[{run.prop}] replay: behaviour accepted, monitor ok")
    return 0


def std_replay(run: Run, spec: Spec, path: str) -> int:
    payload = json.loads(Path(path).read_text() if os.path.isabs(path)
                         else (VERIF / path).read_text())
    case = payload['case']['case'] if 'case' in payload.get('case', {}) else payload['case']
    res = evaluate(run, spec, [case])
    c, o, ch = res[0]
    print(json.dumps(dict(case=c, observed=o, verdict=ch, describe=spec.describe(c, o)),
                     indent=1, default=str))
    if ch == 'A':
        print(f"[{run.prop}] replay: behaviour accepted, monitor ok")
        return 0
    if ch == 'V':
        print(f"VIOLATION property={run.prop} replay={path}")
    else:
        print(f"VIOLATION property={run.prop} replay={path} no-failing-input-found")
    return 1
