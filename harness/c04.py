"""C04 - FSM timers on a virtual clock: generic timed FSMs, Timer and InputExp vs coq/Model/Timers.v"""
from __future__ import annotations

import asyncio

import edzed

from . import common, vloop
from .common import clist, cbool, cpair, cstr, copt, cz, cnat
from .c03 import c_etype, mk_etype

IMPORTS = "From Verif Require Import Values Fsm Timers.\nOpen Scope string_scope."
# durations: name -> (python value, microseconds or 'inf'/'none')
DUR = {'none': (None, 'none'), 'zero': (0, 0), 'neg': (-1.5, 0), 'd50': (0.05, 50_000),
       'd200': (0.2, 200_000), 'd1500': (1.5, 1_500_000), 'inf': (float('inf'), 'inf'),
       's100': ('0.1s', 100_000), 's60500': ('1m0.5s', 60_500_000), 'i2': (2, 2_000_000),
       # strings with units in the other documented spellings: decimal comma, ISO 8601, upper case
       's150c': ('0,15s', 150_000), 'iso250': ('PT0,25S', 250_000), 'S100U': ('0.1 S', 100_000)}


def c_dval(name):
    us = DUR[name][1]
    if us == 'none':
        return 'DNoneV'
    if us == 'inf':
        return 'DInfV'
    return f"(DFin {cz(us)})"


class C04(common.Spec):
    imports = IMPORTS
    case_type = 'tcase'
    verdict_fn = 't_verdict'
    shard = 100

    def run_impl(self, cases):
        return [self._run_one(c) for c in cases]

    def _make_class(self, case):
        d = case['def']
        kind = case['kind']
        if kind == 'timer':
            return type('SubTimer', (type('MidTimer', (edzed.Timer,), {}),), {}) if d.get('subclass') else edzed.Timer
        if kind == 'inputexp':
            return type('SubInputExp', (type('MidInputExp', (edzed.InputExp,), {}),), {}) if d.get('subclass') else edzed.InputExp
        # timed states may be declared by TIMERS alone
        ns = {'STATES': list(d.get('states_decl', d['states'])),
              'EVENTS': [[ev, frm, nxt] for ev, frm, nxt in d['events']],
              'TIMERS': {st: (DUR[du][0], mk_etype(tev)) for st, du, tev in d['timed']}}
        for ev, c in d['cond']:
            ns['cond_' + ev] = (lambda self, _c=c: _c == 'true')
        for st, nxt in d.get('enter_goto', []):
            ns['enter_' + st] = (lambda self, _n=nxt: self.event(edzed.Goto(_n)))
        return type('TimedFSM', (edzed.FSM,), ns)

    def _run_one(self, case):
        steps = []
        entries = []
        obs = dict(steps=steps, entries=entries)
        state = dict(external=False, counter=0, fsm=None, pending={})

        async def main(loop):
            edzed.reset_circuit()
            circuit = edzed.get_circuit()

            class Dest(edzed.SBlock):
                def init_regular(self):
                    self.set_output(0)

                def _event(self, etype, data):
                    entries.append([loop.vt_us, data['state']])
            dest = Dest('dest')
            cls = self._make_class(case)
            kw = {}
            d = case['def']
            for st, du in d['inst_dur']:
                kw['t_' + st] = DUR[du][0]
            if case['kind'] == 'timer':
                kw['restartable'] = d['restartable']
            if case['kind'] == 'inputexp':
                kw = dict(duration=DUR[d['duration']][0], expired='EXP')
                if d['initdef']:
                    kw['initdef'] = 'INIT'
            for st in d['all_states']:
                kw['on_enter_' + st] = edzed.Event(dest, 'entered')
            if d.get('exit_bad'):
                # leaving these states fails (not fatally): their on_exit event goes to a block that
                # does not know the event type
                stranger = edzed.Input('stranger', initdef=0)
                for st in d['exit_bad']:
                    kw['on_exit_' + st] = edzed.Event(stranger, 'nosuch')
            class BadStop(edzed.SBlock):
                """other blocks whose stop() fails: such errors are logged and ignored, every block is
                stopped nevertheless (an FSM's stop() is what cancels its timer)"""
                def init_regular(self):
                    self.set_output(0)

                def stop(self):
                    raise RuntimeError('stop failed')
            bad_stop = len(case.get('events', ())) % 2 == 0
            if bad_stop:
                for k in range(4):
                    BadStop(f'bad{k}')
            fsm = cls('fsm', **kw)
            if bad_stop:
                for k in range(4, 8):
                    BadStop(f'bad{k}')
            state['fsm'] = fsm
            orig_event = fsm.event

            def wrapped_event(etype, /, **data):
                return orig_event(etype, **data)
            fsm.event = wrapped_event      # the callback handed to call_later by _set_timer
            orig_call_later = loop.call_later

            def call_later(delay, cb, *args, **kw2):
                if cb is wrapped_event or getattr(cb, '__self__', None) is fsm:
                    live = sum(1 for h in state['pending'].values() if not h.cancelled())
                    if live >= 20:
                        # timers multiply: stop feeding the loop, the count alone is the verdict
                        raise vloop.HarnessTimeout('timers multiply')
                    hid = state['counter']
                    state['counter'] += 1

                    def fired(*a):
                        state['pending'].pop(hid, None)
                        steps.append(['fire', loop.vt_us, hid])
                        if len(steps) > 400:
                            raise vloop.HarnessTimeout('endless timer activity')
                        return cb(*a)
                    h = orig_call_later(delay, fired, *args, **kw2)
                    state['pending'][hid] = h
                    return h
                return orig_call_later(delay, cb, *args, **kw2)
            loop.call_later = call_later
            task = asyncio.create_task(circuit.run_forever())
            try:
                await circuit.wait_init()
            except Exception as err:
                obs['init_error'] = common.exc_enum(circuit.error or err)
                try:
                    await task
                except BaseException:
                    pass
                return
            def deliver(t_us, e, dur):
                if circuit.error is not None:
                    return
                data = {}
                if dur is not None:
                    data['duration'] = DUR[dur][0]
                if case['kind'] == 'inputexp' and e == ['name', 'put']:
                    data['value'] = 'V%d' % t_us
                try:
                    r = fsm.event(mk_etype(e), **data)
                    res = ['ok', bool(r)]
                except Exception as err:
                    res = ['err', common.exc_enum(err) if not isinstance(err, AssertionError) else 'EOther']
                steps.append(['ext', loop.vt_us, e, dur, res])

            if case.get('cb_events'):
                # the events are delivered by loop callbacks scheduled in advance: an event and a timer
                # expiry of the same instant are both due in ONE loop iteration, and the event's handle,
                # being older, usually runs first - the timer is then due but has not run yet
                for t_us, e, dur in case['events']:
                    orig_call_later(max(0.0, (t_us - loop.vt_us) / 1e6), deliver, t_us, e, dur)
                if case['events']:
                    await asyncio.sleep((case['events'][-1][0] - loop.vt_us) / 1e6 + 0.002)
            for t_us, e, dur in ([] if case.get('cb_events') else case['events']):
                delay = (t_us - loop.vt_us) / 1e6
                if delay > 0:
                    await asyncio.sleep(delay)
                if circuit.error is not None:
                    break
                data = {}
                if dur is not None:
                    data['duration'] = DUR[dur][0]
                if case['kind'] == 'inputexp' and e == ['name', 'put']:
                    data['value'] = 'V%d' % t_us
                try:
                    r = fsm.event(mk_etype(e), **data)
                    res = ['ok', bool(r)]
                except Exception as err:
                    res = ['err', common.exc_enum(err) if not isinstance(err, AssertionError) else 'EOther']
                steps.append(['ext', loop.vt_us, e, dur, res])
            # let pending timers of the last state expire or not: run until the scenario's end
            delay = (case['end_us'] - loop.vt_us) / 1e6
            if delay > 0 and circuit.error is None:
                await asyncio.sleep(delay)
            # observations before the stop
            st = fsm.state
            obs['final_state'] = None if st is edzed.UNDEF else st
            exp = None
            try:
                ts = fsm.get_state()[1]
                if ts is not None:
                    exp = int(round((ts * 1e6 - loop.wall_offset_us) / 1000.0)) * 1000
            except Exception:
                pass
            obs['expiry'] = exp
            obs['failed'] = circuit.error is not None
            obs['pending'] = sum(1 for h in state['pending'].values() if not h.cancelled())
            if case['stop']:
                t_stop = loop.vt_us
                try:
                    await circuit.shutdown()
                except BaseException:
                    pass
                steps.append(['stop', t_stop])
                # anything left pending would fire here
                await asyncio.sleep(200.0)
                obs['expiry'] = None
                obs['pending'] = sum(1 for h in state['pending'].values() if not h.cancelled())
            else:
                task.cancel()
                try:
                    await task
                except BaseException:
                    pass

        try:
            vloop.run_virtual(main, wall_limit_s=6.0)
        except vloop.HarnessTimeout:
            obs.setdefault('pending', 50)
            obs['timeout'] = True
        except Exception as err:
            obs['harness_error'] = repr(err)
        finally:
            edzed.reset_circuit()
        if not case['stop']:
            # the count was taken after the final cancellation which stops the FSM: recount is
            # meaningless there; use the number pending before cancelling (recorded below)
            pass
        return obs

    def emit(self, case, obs):
        d = case['def']
        if 'init_error' in obs or 'harness_error' in obs:
            # start-up failed (e.g. no duration for the initial timed state): not a timer scenario
            return ('{| tc_def := {| t_fsm := {| fd_states := []; fd_events := []; fd_trans := []; '
                    'fd_timed := [] |}; t_class_dur := []; t_inst_dur := []; t_cond := []; t_enter_goto := []; '
                    't_exit_bad := [] |}; '
                    'tc_steps := []; tc_obs := {| to_entries := []; to_final_state := None; '
                    'to_expiry := None; to_pending := 0; to_failed := %s |} |}' %
                    cbool('harness_error' in obs))

        def raw_event(e):
            ev, frm, nxt = e
            f = 'None' if frm is None else f"(Some {clist(list(frm), cstr)})"
            return f"({cstr(ev)}, {f}, {copt(nxt, cstr)})"
        cond = {'true': 'CTrue', 'false': 'CFalse'}
        tdef = ("{| t_fsm := match build {| rd_states := %s; rd_timed := %s; rd_events := %s |} with "
                "Ok x => x | Err _ => {| fd_states := []; fd_events := []; fd_trans := []; fd_timed := [] |} end;\n"
                "   t_class_dur := %s; t_inst_dur := %s; t_cond := %s; t_enter_goto := %s; t_exit_bad := %s |}") % (
            clist(d['states'], cstr),
            clist(d['timed'], lambda x: cpair(cstr(x[0]), c_etype(x[2]))),
            clist(d['events'], raw_event),
            clist(d['timed'], lambda x: cpair(cstr(x[0]), c_dval(x[1]))),
            clist(d['inst_dur'], lambda x: cpair(cstr(x[0]), c_dval(x[1]))),
            clist(d['cond'], lambda x: cpair(cstr(x[0]), cond[x[1]] if isinstance(x[1], str)
                                           else f"(CNotIn {cstr(x[1][1])})")),
            clist(d.get('enter_goto', []), lambda x: cpair(cstr(x[0]), cstr(x[1]))),
            clist(d.get('exit_bad', []), cstr))
        # the initialisation event is the first step: Goto(default) at time 0
        init = d['init']
        steps = [f"TExt 0%Z {c_etype(init[0])} {c_dval(init[1]) if init[1] else 'DNoneV'} (Ok true)"]
        for s in obs['steps'][:420]:
            if s[0] == 'ext':
                r = f"(Ok {cbool(s[4][1])})" if s[4][0] == 'ok' else f"(Err {s[4][1]})"
                steps.append(f"TExt {cz(s[1])} {c_etype(s[2])} {c_dval(s[3]) if s[3] else 'DNoneV'} {r}")
            elif s[0] == 'fire':
                steps.append(f"TFire {cz(s[1])} {cnat(s[2])}")
            else:
                steps.append(f"TStop {cz(s[1])}")
        o = ("{| to_entries := %s; to_final_state := %s; to_expiry := %s; to_pending := %s; "
             "to_failed := %s |}") % (
            clist(obs['entries'], lambda e: cpair(cz(e[0]), cstr(e[1]))),
            copt(obs.get('final_state'), cstr), copt(obs.get('expiry'), cz),
            cnat(50 if obs.get('timeout') else min(obs.get('pending', 0), 50)),
            cbool(obs.get('failed', False)))
        return "{| tc_def := %s;\n tc_steps := %s;\n tc_obs := %s |}" % (tdef, clist(steps), o)

    def nontrivial(self, case, obs):
        return sum(1 for s in obs.get('steps', []) if s[0] == 'fire') >= 1

    def shrink(self, case):
        evs = case['events']
        for i in range(len(evs)):
            yield dict(case, events=evs[:i] + evs[i + 1:])
        if case['stop']:
            yield dict(case, stop=False)

    def clause(self, case, obs):
        if obs.get('pending', 0) > 1:
            return 'two_timers_pending'
        if case['stop'] and obs.get('pending', 0) > 0:
            return 'timer_after_stop'
        return 'timers:' + case['kind']

    def describe(self, case, obs):
        return f"{case}: observed {obs}"


def timer_def(rng):
    """edzed.Timer as a table"""
    t_on = rng.choice(['none', 'd50', 'd200', 's100', 'inf', 'zero', 's150c', 'iso250'])
    t_off = rng.choice(['none', 'none', 'd50', 'd200', 'inf'])
    inst = []
    if t_on != 'none':
        inst.append(['on', t_on])
    if t_off != 'none':
        inst.append(['off', t_off])
    restartable = rng.random() < 0.5
    cond = [] if restartable else [['start', ['notin', 'on']], ['stop', ['notin', 'off']]]
    return dict(states=['off', 'on'], all_states=['off', 'on'],
                events=[['start', None, 'on'], ['stop', None, 'off'], ['toggle', ['on'], 'off'],
                        ['toggle', ['off'], 'on']],
                timed=[['on', 'inf', ['name', 'stop']], ['off', 'inf', ['name', 'start']]],
                inst_dur=inst, cond=cond, restartable=restartable, init=[['goto', 'off'], None],
                subclass=rng.random() < 0.25)


def inputexp_def(rng):
    du = rng.choice(['d50', 'd200', 's100', 'inf', 'zero', 'none', 's150c', 'S100U'])
    initdef = rng.random() < 0.5
    return dict(states=['expired', 'valid'], all_states=['expired', 'valid'],
                events=[['put', None, 'valid']],
                timed=[['valid', 'none', ['goto', 'expired']]],
                inst_dur=[['valid', du]] if du != 'none' else [], cond=[], duration=du, initdef=initdef,
                init=[['goto', 'valid' if initdef else 'expired'], None], subclass=rng.random() < 0.25)


def generic_def(rng):
    states = ['A', 'B', 'C'][:rng.randrange(2, 4)]
    events = []
    for ev in ['e', 'f']:
        if rng.random() < 0.6:
            events.append([ev, None, rng.choice(states)])
        for st in states:
            if rng.random() < 0.35:
                events.append([ev, [st], rng.choice(states + [None])])
    names = sorted({e[0] for e in events})
    if not names:
        events.append(['e', None, states[-1]])
        names = ['e']
    timed = []
    for st in states:
        if rng.random() < 0.7:
            tev = ['goto', rng.choice(states)] if rng.random() < 0.5 else ['name', rng.choice(names)]
            timed.append([st, rng.choice(['none', 'zero', 'd50', 'd200', 'd1500', 'inf', 's100', 'i2', 's150c', 'iso250']), tev])
    inst = [[st, rng.choice(['none', 'd50', 'd200', 'inf', 'zero'])] for st, _, _ in timed if rng.random() < 0.4]
    cond = [[ev, rng.choice(['true', 'false', 'false'])] for ev in names if rng.random() < 0.25]
    enter_goto = []
    if rng.random() < 0.35:
        st = rng.choice(states)
        enter_goto.append([st, rng.choice([x for x in states if x != st])])
    res = dict(states=states, all_states=states, events=events, timed=timed, inst_dur=inst, cond=cond,
               enter_goto=enter_goto, init=[['goto', states[0]], None])
    if rng.random() < 0.2:
        res['exit_bad'] = [st for st in states if rng.random() < 0.4]
    if timed and rng.random() < 0.35:
        tnames = [t[0] for t in timed]
        decl = [x for x in states if x not in tnames]
        res['states_decl'] = decl
        # the default initial state is the first known state: STATES first, then the keys of TIMERS
        res['init'] = [['goto', (decl + tnames)[0]], None]
    return res


def init_failure_possible(d):
    eff = {}
    for st, du, _tev in d['timed']:
        eff[st] = du
    for st, du in d['inst_dur']:
        if du != 'none':
            eff[st] = du
    if any(du in ('none', 'zero', 'neg') for du in eff.values()):
        return True          # a missing duration fails, immediate timers may chain for ever
    return bool(d.get('enter_goto'))


def gen_case(rng):
    kind = rng.choice(['generic', 'generic', 'timer', 'inputexp'])
    d = {'generic': generic_def, 'timer': timer_def, 'inputexp': inputexp_def}[kind](rng)
    names = sorted({e[0] for e in d['events']})
    # candidate instants: multiples of 50 ms, so that events land before, AT and after expiries
    grid = [k * 50_000 for k in range(1, 14)]
    times = sorted(rng.sample(grid, rng.randrange(0, 6)))
    if rng.random() < 0.3 and times:
        times.append(times[-1])           # two events in the same instant
    events = []
    for t in times:
        r = rng.random()
        if r < 0.75:
            e = ['name', rng.choice(names)]
        elif r < 0.9 and kind != 'inputexp':      # a Goto from outside bypasses InputExp's value handling
            e = ['goto', rng.choice(d['all_states'])]
        else:
            e = ['name', 'nosuch']
        dur = rng.choice([None, None, None, 'd50', 'd200', 'zero', 'neg', 'inf', 's100', 's150c', 'iso250', 'S100U'])
        events.append([t, e, dur])
    end = (times[-1] if times else 0) + rng.choice([0, 50_000, 250_000, 2_100_000])
    return dict(kind=kind, events=events, end_us=end, stop=rng.random() < 0.6, cb_events=rng.random() < 0.3,
                **{'def': d})


def check(run):
    spec = C04()
    run.rule = ("generic timed FSMs (2..3 states, named and Goto timed events, class default durations "
                "from {None, 0, 50 ms, 200 ms, 1.5 s, 2, INF, '0.1s', '1m0.5s'}, instance t_STATE "
                "overrides, vetoing conditions), edzed.Timer (t_on/t_off, restartable or not) and "
                "edzed.InputExp; 0..6 external events (table events, Goto, unknown) on a 50 ms grid - "
                "before, exactly AT and after expiries, also two in one instant - with 'duration' items "
                "(positive, 0, negative, INF, string); the run continues past the last event; with and "
                "without shutdown(). The interleaving actually taken by asyncio (external events and "
                "timer callbacks with their handle numbers and virtual times) is fed to the acceptor; "
                "observed: time-stamped on_enter events, final state, get_state()[1], timer handles "
                "still pending (also 200 s after the stop). Non-trivial = at least one timer fired.")
    run.assumptions = ["asyncio runs timer handles in (when, creation) order - validated by the acceptor on "
                       "every case, not proved"]
    cases = [gen_case(run.rng) for _ in range(500 if run.tier == 'quick' else 24000)]
    for c in cases:
        run.count('kind_' + c['kind'])
    res = common.standard_flow(run, spec, cases)
    check_restored_timer(run)
    for c, o, ch in res:
        for s in o.get('steps', []):
            run.count('step_' + s[0])
        if 'init_error' in o:
            run.count('init_error')
            if c['kind'] == 'generic' and not init_failure_possible(c['def']):
                # every timed state has a positive or infinite duration and nothing is chained at
                # start-up: neither the code nor the model knows a reason for the start-up to fail
                run.count('init_error_without_cause')
                run.violation('monitor', dict(case=c, observed=o),
                              f"the start-up of a timed FSM failed ({o['init_error']}) although every timed "
                              f"state has a positive duration and no action chains another event: {c['def']}",
                              clause='startup_failed_without_cause', concrete=True)


def check_restored_timer(run, only=None):
    """'entering a timed state always cancels the previous timer ... at most one timer pending ... no timed
    event fires after the simulation has stopped' - for a timer that was set by the restoration of a
    saved state (a persistent Timer / InputExp restarted in its timed state with time remaining): leaving
    the state cancels it, a re-entered state runs for its full duration, a stop cancels it."""
    for kind in ('timer_reentered', 'inputexp_reentered', 'timer_stopped'):
        if only is not None and kind != only:
            continue
        obs = dict(restored=None, mid=None, late=None, after_stop=None, pending=None, harness=None)
        store = {}
        seen = []

        def one_run(phase, kind=kind, obs=obs, store=store, seen=seen):
            async def main(loop):
                edzed.reset_circuit()
                circuit = edzed.get_circuit()
                if kind.startswith('timer'):
                    blk = edzed.Timer('blk', t_on=1.0, persistent=True)
                else:
                    blk = edzed.InputExp('blk', duration=1.0, expired='EXP', persistent=True)
                orig = blk.event

                def wrapped(etype, /, **data):
                    seen.append([phase, round(loop.time(), 3), str(etype)])
                    return orig(etype, **data)
                blk.event = wrapped
                circuit.set_persistent_data(store)
                task = asyncio.create_task(circuit.run_forever())
                await circuit.wait_init()
                if phase == 'first':
                    if kind.startswith('timer'):
                        blk.event('start')
                    else:
                        blk.event('put', value='V1')
                    await asyncio.sleep(0.2)
                else:
                    obs['restored'] = blk.state
                    if kind != 'timer_stopped':
                        await asyncio.sleep(0.1)
                        if kind.startswith('timer'):
                            blk.event('stop')
                            await asyncio.sleep(0.1)
                            blk.event('start')
                        else:
                            await asyncio.sleep(0.1)
                            blk.event('put', value='V2')       # re-enters 'valid': a new full second
                        await asyncio.sleep(0.95)
                        obs['mid'] = blk.state                  # 1.15 s: the new timer has 50 ms to go
                        await asyncio.sleep(0.2)
                        obs['late'] = blk.state
                await circuit.shutdown()
                await asyncio.wait([task], timeout=2.0)
                if phase == 'second':
                    n0 = len(seen)
                    await asyncio.sleep(5)
                    obs['after_stop'] = seen[n0:]
                    obs['pending'] = [repr(h)[:80] for h in loop.pending_timers()]
            vloop.run_virtual(main, wall_limit_s=10.0)
        try:
            one_run('first')
            one_run('second')
        except BaseException as err:                          # noqa
            obs['harness'] = repr(err)[:200]
        finally:
            edzed.reset_circuit()
        run.add_case(dict(restored_timer=kind), True)
        run.count('restored_timer')
        timed, idle = ('on', 'off') if kind.startswith('timer') else ('valid', 'expired')
        ok = (obs['harness'] is None and obs['restored'] == timed and obs['after_stop'] == [] and obs['pending'] == []
              and (kind == 'timer_stopped' or (obs['mid'] == timed and obs['late'] == idle)))
        run.add_obligation(ok)
        if not ok:
            run.violation('monitor', dict(case=dict(restored_timer=kind), observed=dict(obs, events=seen[-8:])),
                          f"persistent {kind.split('_')[0]} restarted in its timed state (1 s, 0.2 s used): restored state "
                          f"{obs['restored']!r}; the state is left and re-entered 0.2 s after the restart: state at "
                          f"1.15 s {obs['mid']!r} (expected {timed!r}: the new timer has 50 ms to go), at 1.35 s "
                          f"{obs['late']!r} (expected {idle!r}); events after the stop {obs['after_stop']}, timers "
                          f"still pending {obs['pending']}; harness: {obs['harness']}",
                          clause='restored_timer:' + kind, concrete=True)


def replay(run, path):
    payload, case = common.load_replay_case(path)
    if isinstance(case, dict) and 'restored_timer' in case:
        return common.directed_replay(run, path, lambda: check_restored_timer(run, case['restored_timer']))
    if payload.get('clause') == 'startup_failed_without_cause':
        def again():
            o = C04().run_impl(case)
            if 'init_error' in o and not init_failure_possible(case['def']):
                run.violation('monitor', dict(case=case, observed=o),
                              f"the start-up of a timed FSM failed ({o['init_error']}) without a cause: {case['def']}",
                              clause='startup_failed_without_cause', concrete=True)
        return common.directed_replay(run, path, again)
    return common.std_replay(run, C04(), path)
