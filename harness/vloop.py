"""
Deterministic virtual-time asyncio loop and clock shims for running the real edzed.

Time is kept in integer microseconds.  Every positive sleep advances the clock
by at least 1 us and every wall-clock read costs `read_cost_us` (>= 1) us; with
a clock that stands still while code runs, cron's "woken early" logic live-locks
(see DESIGN.md section 12).
"""
from __future__ import annotations

import asyncio
import datetime as _datetime
import math
import selectors
import sys
import time as _time

EPOCH_DEFAULT = 1_700_000_000          # 2023-11-14T22:13:20Z, arbitrary fixed epoch


class _VSelector(selectors.BaseSelector):
    """Wraps the real selector; instead of blocking it advances the virtual clock."""

    def __init__(self, loop_ref):
        self._real = selectors.DefaultSelector()
        self._loop_ref = loop_ref

    def register(self, fileobj, events, data=None):
        return self._real.register(fileobj, events, data)

    def unregister(self, fileobj):
        return self._real.unregister(fileobj)

    def modify(self, fileobj, events, data=None):
        return self._real.modify(fileobj, events, data)

    def close(self):
        self._real.close()

    def get_map(self):
        return self._real.get_map()

    def get_key(self, fileobj):
        return self._real.get_key(fileobj)

    def select(self, timeout=None):
        loop = self._loop_ref
        ready = self._real.select(0)
        if ready:
            return ready
        if timeout is None:
            # nothing scheduled, nothing ready: a real loop would block forever
            raise VirtualDeadlock("virtual loop: nothing to run and nothing scheduled")
        if timeout > 0:
            loop._advance_to_next(timeout)
        return []


class VirtualDeadlock(RuntimeError):
    pass


class VirtualLoop(asyncio.SelectorEventLoop):
    def __init__(self, epoch: int = EPOCH_DEFAULT, read_cost_us: int = 1, latency=None):
        self.vt_us = 0                  # loop clock, integer microseconds
        self.wall_offset_us = epoch * 1_000_000   # wall = loop + offset (changed by clock jumps)
        self.read_cost_us = read_cost_us
        self.latency = latency          # callable() -> extra us added to each wake-up, or None
        self.max_vt_us = None           # optional horizon: stop the run when exceeded
        self.wall_reads = 0
        super().__init__(selector=_VSelector(self))
        self._clock_resolution = 1e-9

    # --- clocks
    def time(self) -> float:
        return self.vt_us / 1e6

    def wall_us(self) -> int:
        return self.vt_us + self.wall_offset_us

    def read_wall(self) -> float:
        """A wall-clock read as seen by edzed: costs read_cost_us."""
        self.wall_reads += 1
        self.vt_us += self.read_cost_us
        return self.wall_us() / 1e6

    def jump_wall(self, delta_us: int) -> None:
        self.wall_offset_us += delta_us

    def _advance_to_next(self, timeout: float) -> None:
        step = max(1, math.ceil(timeout * 1e6 - 1e-6))
        if self.latency is not None:
            step += max(0, int(self.latency()))
        self.vt_us += step
        if self.max_vt_us is not None and self.vt_us > self.max_vt_us:
            raise VirtualHorizon()

    # --- introspection for leak checks
    def pending_timers(self):
        return [h for h in self._scheduled if not h.cancelled()]


class VirtualHorizon(RuntimeError):
    pass


class TimeShim:
    """Replacement for the module `time` inside edzed modules."""

    def __init__(self, loop: VirtualLoop):
        self._loop = loop

    def time(self) -> float:
        return self._loop.read_wall()

    def monotonic(self) -> float:
        return self._loop.time()

    def sleep(self, secs: float) -> None:
        if secs < 0:
            raise ValueError("sleep length must be non-negative")      # as time.sleep does
        self._loop.vt_us += max(0, math.ceil(secs * 1e6))

    def __getattr__(self, name):
        return getattr(_time, name)


class _VDateTime(_datetime.datetime):
    _loop = None
    _utcmode = True

    @classmethod
    def now(cls, tz=None):
        ts = cls._loop.read_wall()
        us = round(ts * 1e6)
        base = _datetime.datetime(1970, 1, 1) + _datetime.timedelta(microseconds=us)
        if tz is not None:
            base = base.replace(tzinfo=_datetime.timezone.utc).astimezone(tz)
        return base

    @classmethod
    def utcnow(cls):
        return cls.now()

    @classmethod
    def today(cls):
        return cls.now()


class DtShim:
    """Replacement for the module `datetime` (imported `as dt`) inside edzed modules."""

    def __init__(self, loop: VirtualLoop):
        self.datetime = type('VDateTime', (_VDateTime,), {'_loop': loop})

    def __getattr__(self, name):
        return getattr(_datetime, name)


_TIME_MODULES = ('edzed.fsm', 'edzed.addons', 'edzed.simulator', 'edzed.utils.looptimes',
                 'edzed.blocklib.cron')
_DT_MODULES = ('edzed.blocklib.cron', 'edzed.blocklib.timedate')


def install_shims(loop: VirtualLoop):
    import edzed  # noqa: F401  (imported from /repo through PYTHONPATH)
    saved = []
    tshim = TimeShim(loop)
    for modname in _TIME_MODULES:
        mod = sys.modules.get(modname)
        if mod is not None and hasattr(mod, 'time'):
            saved.append((mod, 'time', mod.time))
            mod.time = tshim
    dshim = DtShim(loop)
    for modname in _DT_MODULES:
        mod = sys.modules.get(modname)
        if mod is not None and hasattr(mod, 'dt'):
            saved.append((mod, 'dt', mod.dt))
            mod.dt = dshim
    return saved


def remove_shims(saved):
    for mod, name, orig in saved:
        setattr(mod, name, orig)


class HarnessTimeout(BaseException):
    """The implementation kept the (real) CPU busy for too long inside one virtual run."""


def run_virtual(main, *, epoch: int = EPOCH_DEFAULT, read_cost_us: int = 1, latency=None,
                horizon_s: float | None = None, shims: bool = True, wall_limit_s: float = 20.0):
    """
    Run coroutine function main(loop) to completion under a fresh virtual loop.
    Returns (result, loop).  The loop is closed; vt_us etc. remain readable.
    """
    loop = VirtualLoop(epoch=epoch, read_cost_us=read_cost_us, latency=latency)
    if horizon_s is not None:
        loop.max_vt_us = int(horizon_s * 1e6)
    saved = install_shims(loop) if shims else []
    asyncio.set_event_loop(loop)

    def on_alarm(signum, frame):
        raise HarnessTimeout(f"no progress after {wall_limit_s} s of CPU time (or {wall_limit_s * 10} s of real time)")
    import signal
    # The limit is counted in CPU time of this process (ITIMER_PROF), so that a heavily loaded
    # machine cannot make a healthy run look like a hang; a generous real-time limit stays as a
    # fall-back for a run that blocks without using the CPU.
    old_handler = signal.signal(signal.SIGALRM, on_alarm)
    old_prof = signal.signal(signal.SIGPROF, on_alarm)
    signal.setitimer(signal.ITIMER_PROF, wall_limit_s, 0.5)    # repeats: a raise inside a GC callback is swallowed
    signal.setitimer(signal.ITIMER_REAL, wall_limit_s * 10, 0.5)
    try:
        result = loop.run_until_complete(main(loop))
        return result, loop
    finally:
        signal.setitimer(signal.ITIMER_PROF, 0)
        signal.setitimer(signal.ITIMER_REAL, 0)
        signal.signal(signal.SIGALRM, old_handler)
        signal.signal(signal.SIGPROF, old_prof)
        remove_shims(saved)
        try:
            # cancel leftovers so that closing the loop is quiet
            for t in asyncio.all_tasks(loop):
                t.cancel()
            loop.run_until_complete(asyncio.sleep(0))
        except Exception:
            pass
        asyncio.set_event_loop(None)
        loop.close()
