"""C10 - instability detection: cyclic networks, event feedback loops and path-rich acyclic networks"""
from __future__ import annotations

from . import common
from .c01 import SimSpec, BOOLV, gen_acyclic


class C10Spec(SimSpec):
    verdict_fn = 'c10_verdict'

    def clause(self, case, obs):
        return case.get('family', '?') + {'EInstability': ':unstable', 'HANG': ':hang'}.get(obs.get('end'), ':settled')


def gen_cyclic(rng):
    n = rng.randrange(2, 8)
    blocks = [dict(name='s0', kind='input', init=rng.choice(BOOLV))]
    names = [f"b{k}" for k in range(n)]
    for k in range(n):
        kind = rng.choice(['not', 'xor', 'or', 'and', 'not', 'xor'])
        pool = names + ['s0']
        if kind == 'not':
            ins = [['name', names[(k - 1) % n] if rng.random() < 0.7 else rng.choice(pool)]]
        else:
            ins = [['name', names[(k - 1) % n] if rng.random() < 0.6 else rng.choice(pool)]]
            ins += [['name', rng.choice(pool)] for _ in range(rng.choice([0, 1, 1, 2]))]
        blocks.append(dict(name=names[k], kind=kind, ins={'_': ins}, events=[]))
    bursts = [[['s0', 'put', rng.choice(BOOLV)]] for _ in range(rng.randrange(0, 4))]
    return dict(blocks=blocks, bursts=bursts, family='cyclic')


def gen_event_loop(rng):
    """feedback closed through on_output events: Input -> cblocks -> 'put' back into the Input"""
    blocks = [dict(name='s0', kind='input', init=rng.choice(BOOLV)),
              dict(name='s1', kind='input', init=rng.choice(BOOLV))]
    n = rng.randrange(1, 5)
    prev = 's0'
    for k in range(n):
        kind = rng.choice(['not', 'or', 'xor', 'and'])
        ins = [['name', prev]] if kind == 'not' else [['name', prev], ['name', rng.choice(['s0', 's1'])]]
        blocks.append(dict(name=f"b{k}", kind=kind, ins={'_': ins}, events=[]))
        prev = f"b{k}"
    blocks[-1]['events'].append(dict(dest='s0', etype=rng.choice(['put', 'cond']), nfu=rng.random() < 0.3))
    if rng.random() < 0.3 and n > 1:
        blocks[2]['events'].append(dict(dest='s1', etype='put', nfu=False))
    if rng.random() < 0.4:
        # a gate fed through '_not_NAME' shortcuts: the inverters are created by the finalisation and
        # count as blocks of the circuit (the limit is 3 evaluations per block of the FINAL circuit)
        blocks.append(dict(name='gate', kind=rng.choice(['and', 'or']),
                           ins={'_': [['not', 's0'], ['not', 's1']]}, events=[]))
    bursts = [[[rng.choice(['s0', 's1']), 'put', rng.choice(BOOLV)]] for _ in range(rng.randrange(0, 4))]
    return dict(blocks=blocks, bursts=bursts, family='event_loop')


def path_sum(blocks):
    paths = {}
    total = 0
    for b in blocks:
        if b['kind'] in ('input', 'counter'):
            continue
        preds = {r[1] for r in b['ins']['_'] if r[1] in paths}
        paths[b['name']] = 1 + sum(paths[p] for p in preds)
        total += paths[b['name']]
    return total


def gen_layered(rng):
    """acyclic, no feedback, one change per burst; path sums around the 3*|blocks| margin"""
    blocks = [dict(name='s0', kind='input', init=rng.choice(BOOLV)),
              dict(name='s1', kind='input', init=rng.choice(BOOLV))]
    layers = rng.randrange(1, 5)
    prev = ['s0', 's1']
    k = 0
    for _ in range(layers):
        cur = []
        for _ in range(rng.randrange(1, 4)):
            kind = rng.choice(['xor', 'xor', 'or', 'and', 'not'])
            srcs = rng.sample(prev, min(len(prev), rng.choice([1, 2, 2, 3])))
            if kind == 'not':
                srcs = srcs[:1]
            blocks.append(dict(name=f"b{k}", kind=kind, ins={'_': [['name', s] for s in srcs]}, events=[]))
            cur.append(f"b{k}")
            k += 1
        prev = cur + (prev[:1] if rng.random() < 0.3 else [])
    bursts = [[[rng.choice(['s0', 's1']), 'put', rng.choice(BOOLV)]] for _ in range(rng.randrange(1, 6))]
    total = path_sum(blocks)
    return dict(blocks=blocks, bursts=bursts,
                family='few_paths' if total <= 3 * len(blocks) else 'many_paths')


def check(run):
    spec = C10Spec()
    run.rule = ("random cyclic networks of 2..7 Not/Xor/Or/And blocks (rings with extra chords, some "
                "with and some without a consistent assignment), feedback loops closed through "
                "on_output 'put'/EventCond events into the Inputs, and layered acyclic networks whose "
                "path sum is at most / above 3*|blocks| with one source change per burst; the observed "
                "schedule must be accepted by the Coq acceptor (instability error exactly at the "
                "(limit+1)-th evaluation of a burst) and satisfy the C10 monitor (no error for a "
                "topologically numbered few-paths circuit, idle snapshots consistent). Non-trivial = "
                ">= 3 evaluations; distinct by JSON.")
    n = 150 if run.tier == 'quick' else 6000
    cases = ([gen_cyclic(run.rng) for _ in range(n)] + [gen_event_loop(run.rng) for _ in range(n)]
             + [gen_layered(run.rng) for _ in range(n)])
    g = [gen_acyclic(run.rng, maxc=8) for _ in range(n // 2)]
    for c in g:
        c['family'] = 'random_acyclic_with_feedback'
    cases += g
    for c in cases:
        run.count('family_' + c['family'])
    res = common.standard_flow(run, spec, cases)
    for c, o, ch in res:
        run.count('end_' + str(o.get('end')))
        run.count(c['family'] + ('_unstable' if o.get('end') == 'EInstability' else '_settled'))


def replay(run, path):
    return common.std_replay(run, C10Spec(), path)
