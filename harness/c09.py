"""C09 - first error wins: error sources fired at chosen virtual instants vs coq/Model/Errors.v"""
from __future__ import annotations

import asyncio

import edzed

from . import common, vloop
from .common import clist, cbool, cz, copt

IMPORTS = "From Verif Require Import Values Errors."


class Tagged(Exception):
    def __init__(self, tag):
        super().__init__(f"tagged error {tag}")
        self.tag = tag


def tag_of(exc):
    seen = 0
    while exc is not None and seen < 10:
        if isinstance(exc, Tagged):
            return exc.tag
        for arg in getattr(exc, 'args', ()):
            if isinstance(arg, Tagged):
                return arg.tag
        exc = exc.__cause__ or exc.__context__
        seen += 1
    return None


FATAL = ['handler', 'calc', 'montask', 'abort', 'ctrl_abort', 'ctrl_shutdown', 'shutdown', 'handler_direct',
         'sim_abort_calc', 'sim_stop_calc', 'sim_abort_only', 'sim_stop_only']
HARMLESS = ['param', 'unknown']


class C09(common.Spec):
    imports = IMPORTS
    case_type = 'ecase'
    verdict_fn = 'e_verdict'
    shard = 200

    def run_impl(self, cases):
        return [self._run_one(c) for c in cases]

    def _run_one(self, case):
        log = []
        obs = dict(log=log, sups=[], error=None, run=None, shutdown=None, ready_after=None, harness=None)

        async def main(loop):
            edzed.reset_circuit()
            circuit = edzed.get_circuit()

            class TaggedCircuit(Tagged, edzed.EdzedCircuitError):
                pass

            class TaggedInvalid(Tagged, edzed.EdzedInvalidState):
                pass

            class TaggedEdzed(Tagged, edzed.EdzedError):
                pass
            class TaggedType(Tagged, TypeError):
                pass            # a TypeError raised INSIDE the handler is not a parameter error

            class TaggedKey(Tagged, KeyError):
                pass
            handler_exc = {'circuit': TaggedCircuit, 'invalid': TaggedInvalid, 'edzed': TaggedEdzed,
                           'type': TaggedType, 'key': TaggedKey}.get(
                case.get('handler_exc'), Tagged)

            class HP(edzed.SBlock):
                def init_regular(self):
                    self.set_output(0)

                def _event_boom(self, *, value, **_d):
                    log.append(['src', 'handler', value])
                    # "an exception raised inside an event handler": of ANY class, edzed's own included
                    raise handler_exc(value)

                def _event_needs(self, *, needed, **_d):
                    return None

                def _event_relay(self, *, value, **_d):
                    # reached from a CBlock's on_output, i.e. inside the simulation task, in the same
                    # evaluation round as the failing calc_output of the next block
                    if isinstance(value, tuple) and value and value[0] in ('boom', 'quiet'):
                        if value[2] == 'abort':
                            log.append(['src', 'abort', value[1] + 500])
                            self.circuit.abort(Tagged(value[1] + 500))
                        else:
                            self.circuit.abort(asyncio.CancelledError('stop requested by a block'))

                def stop(self):
                    if case.get('stop_error'):
                        raise RuntimeError('stop failed')

            class MT(edzed.AddonMainTask, edzed.SBlock):
                def init_regular(self):
                    self.set_output(0)

                async def _maintask(self):
                    self.wake = asyncio.Event()
                    await self.wake.wait()
                    log.append(['src', 'montask', self.fail_tag])
                    raise Tagged(self.fail_tag)

            class AI(edzed.AddonAsync, edzed.SBlock):
                async def init_async(self):
                    raise RuntimeError('async init failed')

                def init_from_value(self, value):
                    self.set_output(value)

            class SI(edzed.SBlock):
                """its synchronous initialisation fails"""
                def init_regular(self):
                    log.append(['src', 'syncinit', 77])
                    raise Tagged(77)

                def _event_put(self, **_d):
                    self.set_output(1)

            class IA(edzed.SBlock):
                """calls abort() from its synchronous initialisation (inside the simulation task) and
                returns normally"""
                def init_regular(self):
                    self.set_output(0)
                    log.append(['src', 'abort', 88])
                    self.circuit.abort(Tagged(88))

            class PR(edzed.AddonPersistence, edzed.SBlock):
                def get_state(self):
                    return self.output

                def _restore_state(self, state):
                    self.set_output(state)         # sends on_output from inside the restoration

                def init_regular(self):
                    if not self.is_initialized():
                        self.set_output(0)

            class AS(edzed.AddonAsync, edzed.SBlock):
                async def init_async(self):
                    await asyncio.sleep(0.001)
                    self.set_output(1)             # sends on_output from inside the init task

            def calc(v):
                if circuit.error is not None and not isinstance(circuit.error, asyncio.CancelledError):
                    # an evaluation although an error has already terminated the simulation
                    obs['late_evals'] = obs.get('late_evals', 0) + 1
                if isinstance(v, tuple) and v and v[0] == 'boom':
                    log.append(['src', 'calc', v[1]])
                    raise Tagged(v[1])
                return v
            class AStop(edzed.AddonAsync, edzed.SBlock):
                """a block with asynchronous clean-up whose synchronous stop() fails"""
                def init_regular(self):
                    self.set_output(0)

                def stop(self):
                    raise RuntimeError('stop failed (block with stop_async)')

                async def stop_async(self):
                    await asyncio.sleep(0)
            hp = HP('hp')
            mt = MT('mt')
            if case.get('stop_error') == 'async':
                AStop('astop', stop_timeout=1.0)
            trig = edzed.Input('trig', initdef=0)
            edzed.FuncBlock('fb', func=calc).connect(trig)
            trig2 = edzed.Input('trig2', initdef=0)
            edzed.FuncBlock('fb2', func=lambda v: v, on_output=edzed.Event(hp, 'relay')).connect(trig2)
            edzed.FuncBlock('fb3', func=calc).connect('fb2')
            sie = case.get('sync_init_error')
            if sie == 'via_restore':
                circuit.set_persistent_data({"<PR 'pr'>": 5, 'edzed-stop-time': 1.0})
                PR('pr', persistent=True, on_output=edzed.Event('si', 'put'))
            elif sie == 'via_async':
                AS('as_', on_output=edzed.Event('si', 'put'))
            if sie == 'abort_in_init':
                IA('ia')
            elif sie:
                SI('si')
            if case.get('async_init_error'):
                AI('ai', initdef=1)
            if case.get('restore_error') and sie != 'via_restore':
                # restoring the saved state fails - with an exception of ANY class: only logged
                exc_cls = {True: ValueError, 'runtime': RuntimeError, 'os': OSError, 'custom': Tagged,
                           'circuit': edzed.EdzedCircuitError, 'key': KeyError}[case['restore_error']]

                class RB(edzed.AddonPersistence, edzed.SBlock):
                    def _restore_state(self, state):
                        raise exc_cls(4711)

                    def get_state(self):
                        return self.output

                    def init_regular(self):
                        self.set_output(0)
                circuit.set_persistent_data({"<RB 'rb'>": 5, 'edzed-stop-time': 1.0})
                RB('rb', persistent=True)
            edzed.Event('_ctrl', 'abort')          # makes the control block exist
            orig_abort = circuit.abort

            def abort(exc):
                if obs.get('finished'):
                    return orig_abort(exc)        # the harness's own reset_circuit() afterwards
                if isinstance(exc, asyncio.CancelledError):
                    log.append(['abort', 'cancel', None])
                else:
                    log.append(['abort', 'exc', tag_of(exc)])
                return orig_abort(exc)
            circuit.abort = abort
            for t, kind, tag in case['events']:
                if kind == 'abort_before':
                    log.append(['src', 'abort', tag])
                    circuit.abort(Tagged(tag))
                elif kind == 'cancel_before':
                    # a stop request before the start (logged by the abort wrapper as a cancellation)
                    circuit.abort(asyncio.CancelledError('stop requested before the start'))

            async def sup(i, spec):
                t, what, tag = spec
                if what == 'forever':
                    await asyncio.sleep(10 ** 6)
                await asyncio.sleep(max(0.0, t / 1e6 - loop.time()))
                if what == 'fail':
                    log.append(['sup', i, 'fail', tag])
                    raise Tagged(tag)
                log.append(['sup', i, 'ok', None])
            run_task = asyncio.create_task(
                edzed.run(*[sup(i, s) for i, s in enumerate(case['sups'])], catch_sigterm=False))
            sh_tasks = []

            async def do_shutdown():
                try:
                    await circuit.shutdown()
                    return ['none']
                except BaseException as err:
                    return ['raises', tag_of(err)]
            try:
                await circuit.wait_init()
                started = True
            except BaseException:
                started = False
            if started:
                for t, kind, tag in case['events']:
                    if kind in ('abort_before', 'cancel_before'):
                        continue
                    delay = t / 1e6 - loop.time()
                    if delay > 0:
                        await asyncio.sleep(delay)
                    if run_task.done():
                        break
                    try:
                        if kind == 'handler':
                            edzed.ExtEvent(hp, 'boom').send(tag)
                        elif kind == 'handler_direct':
                            hp.event('boom', value=tag)
                        elif kind == 'calc':
                            edzed.ExtEvent(trig).send(('boom', tag))
                        elif kind == 'sim_abort_calc':
                            edzed.ExtEvent(trig2).send(('boom', tag, 'abort'))
                        elif kind == 'sim_stop_calc':
                            edzed.ExtEvent(trig2).send(('boom', tag, 'stop'))
                        elif kind == 'sim_abort_only':
                            # abort() from inside the simulation task and nothing else fails
                            edzed.ExtEvent(trig2).send(('quiet', tag, 'abort'))
                        elif kind == 'sim_stop_only':
                            edzed.ExtEvent(trig2).send(('quiet', tag, 'stop'))
                        elif kind == 'montask':
                            mt.fail_tag = tag
                            mt.wake.set()
                        elif kind == 'abort':
                            log.append(['src', 'abort', tag])
                            circuit.abort(Tagged(tag))
                        elif kind == 'ctrl_abort':
                            log.append(['src', 'ctrl_abort', tag])
                            edzed.ExtEvent('_ctrl', 'abort').send(error=Tagged(tag))
                        elif kind == 'ctrl_shutdown':
                            log.append(['src', 'ctrl_shutdown', None])
                            edzed.ExtEvent('_ctrl', 'shutdown').send()
                        elif kind == 'shutdown':
                            sh_tasks.append(asyncio.create_task(do_shutdown()))
                            await asyncio.sleep(0)
                        elif kind == 'param':
                            log.append(['src', 'param', None])
                            edzed.ExtEvent(hp, 'needs').send()
                        elif kind == 'unknown':
                            log.append(['src', 'unknown', None])
                            edzed.ExtEvent(hp, 'nosuch').send()
                    except (Tagged, TypeError, edzed.EdzedError):
                        # the caller catches whatever event()/send() raise
                        if log and log[-1][:2] == ['src', kind] and kind in ('ctrl_abort', 'ctrl_shutdown'):
                            log.pop()          # refused: the circuit was no longer ready
                        elif kind in ('param', 'unknown'):
                            pass
                    # "once the simulation has stopped the circuit is not ready": from the moment an error
                    # or a stop request has reached the simulator, also while the clean-up is still running
                    if circuit.error is not None and circuit.is_ready():
                        obs['ready_while_stopping'] = True
                if not run_task.done():
                    await asyncio.sleep(case['tail_us'] / 1e6)
                if not run_task.done() and not any(e[0] == 'abort' for e in log):
                    sh_tasks.append(asyncio.create_task(do_shutdown()))
            try:
                await run_task
                obs['run'] = ['none']
            except BaseException as err:
                obs['run'] = ['raises', tag_of(err)]
            for t in sh_tasks:
                obs['shutdown'] = await t
            if not sh_tasks:
                # shutdown() after the end: re-raises the error that stopped the simulation
                obs['shutdown'] = await do_shutdown()
            err = circuit.error
            obs['error'] = None if err is None else (['cancel'] if isinstance(err, asyncio.CancelledError)
                                                      else ['exc', tag_of(err)])
            obs['ready_after'] = circuit.is_ready() or bool(obs.get('ready_while_stopping'))
            obs['finished'] = True

        try:
            vloop.run_virtual(main, wall_limit_s=8.0)
        except vloop.HarnessTimeout:
            obs['harness'] = 'HANG'
        except Exception as err:
            obs['harness'] = repr(err)
        finally:
            edzed.reset_circuit()
        return obs

    def emit(self, case, obs):
        if obs['harness'] is not None or obs['run'] is None:
            return ("{| ec_sources := []; ec_sups := []; ec_error := None; ec_run := ReturnsNone; "
                    "ec_shutdown := None; ec_ready_after := true; ec_abort_log := [] |}")
        kinds = {'handler': 'SHandlerError', 'calc': 'SCalcError', 'montask': 'SMonitoredTask',
                 'abort': 'SAbortCall', 'ctrl_abort': 'SCtrlAbort', 'syncinit': 'SSyncInitError'}
        sources, abort_log = [], []
        log = obs['log']
        for i, e in enumerate(log):
            if e[0] == 'src':
                k = e[1]
                if k in kinds:
                    sources.append(f"{kinds[k]} {cz(e[2] if e[2] is not None else -1)}")
                    if k in ('calc', 'syncinit'):
                        # reaches the simulator through the except clause of run_forever, not abort()
                        abort_log.append(f"DExc {cz(e[2])}")
                elif k == 'ctrl_shutdown':
                    sources.append('SCtrlShutdown')
                elif k == 'shutdown':
                    sources.append('SShutdown')
                elif k == 'param':
                    sources.append('SParamError')
                elif k == 'unknown':
                    sources.append('SUnknownEvent')
            elif e[0] == 'abort':
                abort_log.append('DCancel' if e[1] == 'cancel' else f"DExc {cz(e[2] if e[2] is not None else -1)}")
                if e[1] == 'cancel':
                    prev = log[i - 1] if i else None
                    if not (prev and prev[0] == 'src' and prev[1] == 'ctrl_shutdown'):
                        sources.append('SShutdown')     # shutdown() or run() asked the simulator to stop
        if case.get('async_init_error'):
            sources.insert(0, 'SAsyncInitError')
        if case.get('restore_error') and case.get('sync_init_error') != 'via_restore':
            sources.insert(0, 'SRestoreError')
        if case.get('stop_error'):
            sources.append('SStopError')
        sups = ['SupCancelled'] * len(case['sups'])
        for e in log:
            if e[0] == 'sup':
                sups[e[1]] = 'SupOk' if e[2] == 'ok' else f"SupFailed {cz(e[3])}"

        def outc(o):
            return 'ReturnsNone' if o[0] == 'none' else f"Raises {cz(o[1] if o[1] is not None else -1)}"
        err = obs['error']
        cerr = 'None' if err is None else ('(Some DCancel)' if err[0] == 'cancel'
                                           else f"(Some (DExc {cz(err[1] if err[1] is not None else -1)}))")
        return ("{| ec_sources := %s; ec_sups := %s; ec_error := %s; ec_run := %s; ec_shutdown := %s; "
                "ec_ready_after := %s; ec_abort_log := %s |}") % (
            clist(sources), clist(sups), cerr, outc(obs['run']),
            'None' if obs['shutdown'] is None else f"(Some ({outc(obs['shutdown'])}))",
            cbool(bool(obs['ready_after'])), clist(abort_log))

    def nontrivial(self, case, obs):
        return sum(1 for e in obs['log'] if e[0] in ('src', 'sup')) >= 2

    def shrink(self, case):
        evs = case['events']
        for i in range(len(evs)):
            yield dict(case, events=evs[:i] + evs[i + 1:])
        sups = case['sups']
        for i in range(len(sups)):
            yield dict(case, sups=sups[:i] + sups[i + 1:])
        for k in ('async_init_error', 'restore_error', 'stop_error', 'sync_init_error'):
            if case.get(k):
                yield dict(case, **{k: False})

    def clause(self, case, obs):
        kinds = sorted({e[1] for e in obs['log'] if e[0] == 'src'})
        return 'first_error:' + '+'.join(kinds[:3])

    def describe(self, case, obs):
        return f"{case}: observed {obs}"


def gen_case(rng):
    grid = [100_000, 200_000, 200_000, 300_000]
    events = []
    tag = 1
    for _ in range(rng.randrange(1, 4)):
        kind = rng.choice(FATAL + FATAL + HARMLESS)
        events.append([rng.choice(grid), kind, tag])
        tag += 1
    events.sort(key=lambda e: e[0])
    if rng.random() < 0.06:
        events.insert(0, [0, 'abort_before', 99] if rng.random() < 0.6 else [0, 'cancel_before', None])
    sups = []
    for _ in range(rng.choice([0, 0, 1, 2])):
        what = rng.choice(['forever', 'fail', 'ok'])
        sups.append([rng.choice(grid), what, tag])
        tag += 1
    return dict(events=events, sups=sups, tail_us=rng.choice([0, 150_000]),
                handler_exc=rng.choice(['plain', 'plain', 'circuit', 'invalid', 'edzed', 'type', 'key']),
                async_init_error=rng.random() < 0.15, restore_error=rng.choice([False] * 17 + [True, 'runtime', 'os', 'custom', 'circuit', 'key']),
                stop_error=rng.choice([False] * 11 + [True, 'async']),
                sync_init_error=rng.choice([None] * 12 + ['direct', 'via_restore', 'via_async', 'abort_in_init']))


def check(run):
    spec = C09()
    run.rule = ("orderings of 1..3 error sources (abort()/stop request and a failing calc_output in ONE evaluation round inside the simulation task; failing event handler reached through ExtEvent or "
                "directly, failing calc_output, failing monitored block task, abort(), 'abort' and "
                "'shutdown' control events, shutdown(), abort() before the start, external events with "
                "wrong parameters / unknown type) fired at chosen virtual instants incl. the same "
                "instant, combined with 0..2 supporting coroutines that fail / return / run on, and "
                "with failing async init, failing state restoration and failing stop(); the handler's exception is a "
                "plain Exception subclass or a subclass of EdzedCircuitError / EdzedInvalidState / EdzedError; every "
                "injected exception carries an identity tag. Observed: the order in which things "
                "reached Circuit.abort()/the simulator, Circuit.error, the outcome of run() and "
                "shutdown(), is_ready() afterwards. Non-trivial = >= 2 sources.")
    run.assumptions = ["the delivery order of two errors raised in the same instant by different tasks is "
                       "asyncio's; the observed order is what the model is given (the theorems hold for "
                       "either order)"]
    cases = [gen_case(run.rng) for _ in range(1500 if run.tier == 'quick' else 45000)]
    for c in cases:
        for e in c['events']:
            run.count('src_' + e[1])
    res = common.standard_flow(run, spec, cases)
    # 'the first error terminates the simulation': once Circuit.error holds an error nothing is
    # evaluated any more (e.g. a simulation that starts although its initialisation has failed)
    # (an abort() from inside the simulation task takes effect at the next await: the evaluation round in
    # progress is finished; only cases whose error precedes the start of the simulation are judged here)
    late = [(c, o) for c, o, ch in res if o.get('late_evals') and c.get('sync_init_error')]
    run.add_obligation(not late)
    for c, o in late[:1]:
        run.violation('monitor', dict(case=c, observed={k: v for k, v in o.items() if k != 'log'}),
                      f"{o['late_evals']} evaluation(s) of combinational blocks took place after an error had "
                      f"been delivered to the simulator during the initialisation (Circuit.error {o.get('error')}): {c}",
                      clause='evaluation_after_error', concrete=True)
    for c, o, ch in res:
        run.count('run_' + str(o['run'][0] if o['run'] else None))
        run.count('error_' + str(o['error'][0] if o['error'] else None))
    check_stop_during_async_init(run)


def check_stop_during_async_init(run, only=None):
    """'... always terminates the simulation', 'a cancellation counts as a normal stop': a stop request
    or an error that arrives while the simulator is still waiting for init_async routines (two slow
    ones, 300 and 500 ms) takes effect at once - it does not wait for the routines, and a cancellation
    is not lost."""
    for how in ('abort', 'shutdown', 'cancel_run', 'handler', 'cancel_run_sup', 'abort_sup', 'handler_then_cancel_sup'):
        if only is not None and how != only:
            continue
        obs = dict(run=None, t_end_ms=None, error=None, ready=None, wait_init=None, harness=None)

        async def main(loop, how=how, obs=obs):
            edzed.reset_circuit()
            circuit = edzed.get_circuit()

            class Slow(edzed.AddonPersistence, edzed.AddonAsync, edzed.SBlock):
                # (persistent: its state is to be saved at the stop - which cannot succeed while it is
                # not initialised; that failure is logged, it is not the error of the simulation)
                def __init__(self, *args, delay, **kwargs):
                    self._delay = delay
                    super().__init__(*args, **kwargs)

                def _restore_state(self, state):
                    self.set_output(state)

                async def init_async(self):
                    await asyncio.sleep(self._delay)
                    self.set_output(1)

            class HP(edzed.SBlock):
                def init_regular(self):
                    self.set_output(0)

                def _event_boom(self, **_d):
                    raise Tagged(7)
            circuit.set_persistent_data({})
            Slow('slow1', delay=0.3, init_timeout=2.0, persistent=True)
            Slow('slow2', delay=0.5, init_timeout=2.0, persistent=True, sync_state=False)
            hp = HP('hp')
            async def forever():
                await asyncio.sleep(1000)
            # (with a supporting coroutine run() takes another path through its code)
            run_task = asyncio.create_task(edzed.run(forever(), catch_sigterm=False) if how.endswith('_sup')
                                           else edzed.run(catch_sigterm=False))

            async def waiter():
                try:
                    await circuit.wait_init()
                    obs['wait_init'] = 'returned'
                except BaseException as err:          # noqa
                    obs['wait_init'] = type(err).__name__
            wtask = asyncio.create_task(waiter())
            await asyncio.sleep(0.05)
            t0 = loop.vt_us
            if how in ('abort', 'abort_sup'):
                circuit.abort(Tagged(7))
            elif how == 'shutdown':
                asyncio.create_task(circuit.shutdown())
            elif how in ('cancel_run', 'cancel_run_sup'):
                run_task.cancel()
            else:
                try:
                    hp.event('boom')
                except Tagged:
                    pass
                if how == 'handler_then_cancel_sup':
                    run_task.cancel()          # the error was first: run() reports it
            done, _ = await asyncio.wait([run_task], timeout=5.0)
            obs['t_end_ms'] = (loop.vt_us - t0) // 1000
            if not done:
                obs['run'] = 'still running'
                run_task.cancel()
            elif run_task.cancelled():
                obs['run'] = 'cancelled'
            elif run_task.exception() is not None:
                obs['run'] = ['raises', tag_of(run_task.exception())]
            else:
                obs['run'] = ['returns', run_task.result()]
            await asyncio.wait([wtask], timeout=1.0)
            err = circuit.error
            obs['error'] = None if err is None else ('cancel' if isinstance(err, asyncio.CancelledError)
                                                     else ['exc', tag_of(err)])
            obs['ready'] = circuit.is_ready()
        try:
            vloop.run_virtual(main, wall_limit_s=10.0)
        except BaseException as err:                   # noqa
            obs['harness'] = repr(err)[:200]
        finally:
            edzed.reset_circuit()
        run.add_case(dict(stop_during_async_init=how), True)
        run.count('stop_during_async_init')
        want_run = {'abort': ['raises', 7], 'handler': ['raises', 7], 'shutdown': ['returns', None],
                    'cancel_run': ['returns', None], 'cancel_run_sup': ['returns', None],
                    'abort_sup': ['raises', 7], 'handler_then_cancel_sup': ['raises', 7]}[how]
        want_err = ['exc', 7] if how in ('abort', 'handler', 'abort_sup', 'handler_then_cancel_sup') else 'cancel'
        ok = (obs['harness'] is None and obs['run'] == want_run and obs['error'] == want_err
              and obs['ready'] is False and obs['t_end_ms'] is not None and obs['t_end_ms'] < 100
              and obs['wait_init'] == 'EdzedInvalidState')
        run.add_obligation(ok)
        if not ok:
            run.violation('monitor', dict(case=dict(stop_during_async_init=how), observed=obs),
                          f"'{how}' 50 ms after the start, while two init_async routines (300/500 ms) are running: "
                          f"run() -> {obs['run']} after {obs['t_end_ms']} ms (expected {want_run} within 100 ms), "
                          f"Circuit.error={obs['error']} (expected {want_err}), is_ready()={obs['ready']}, "
                          f"wait_init() -> {obs['wait_init']}; harness: {obs['harness']}",
                          clause='stop_during_async_init:' + how, concrete=True)


def replay(run, path):
    payload, case = common.load_replay_case(path)
    if payload.get('clause') == 'evaluation_after_error':
        def again():
            o = C09().run_impl([case])[0]
            if o.get('late_evals') and case.get('sync_init_error'):
                run.violation('monitor', dict(case=case, observed={k: v for k, v in o.items() if k != 'log'}),
                              f"{o['late_evals']} evaluation(s) after an error had been delivered to the simulator",
                              clause='evaluation_after_error', concrete=True)
        return common.directed_replay(run, path, again)
    if isinstance(case, dict) and 'stop_during_async_init' in case:
        return common.directed_replay(run, path,
                                      lambda: check_stop_during_async_init(run, case['stop_during_async_init']))
    return common.std_replay(run, C09(), path)
