"""Entry point: ./check Cxx [--tier quick|thorough] [--replay FILE]"""
from __future__ import annotations

import argparse
import importlib
import os
import sys
import traceback

from . import common


def main() -> int:
    ap = argparse.ArgumentParser()
    ap.add_argument('prop')
    ap.add_argument('--tier', default=os.environ.get('VERIF_TIER', 'quick'),
                    choices=['quick', 'thorough'])
    ap.add_argument('--replay')
    ap.add_argument('--seed', type=int, default=int(os.environ.get('VERIF_SEED', '20260930')))
    args = ap.parse_args()
    prop = args.prop.upper()
    if not (common.VERIF / 'harness' / f'{prop.lower()}.py').exists():
        print(f"no check for {prop}", file=sys.stderr)
        return 2
    run = common.Run(prop, args.tier, args.seed)
    try:
        # importing the harness module imports edzed from /repo
        mod = importlib.import_module(f'harness.{prop.lower()}')
        common.ensure_build()
        run.proof = common.proof_status(prop)
        run.add_obligation(True, len(run.proof['theorems']))
        if args.replay:
            return mod.replay(run, args.replay)
        for old in common.REPLAYS.glob(f'{prop}-*.json'):
            old.unlink()          # replay files of earlier runs of this check
        mod.check(run)
        return run.finish()
    except common.HarnessProblem as err:
        return unobservable(run, args, str(err))
    except common.Broken as err:
        print(f"BROKEN CHECK {prop}: {err}", file=sys.stderr)
        return 2
    except Exception:
        tb = traceback.format_exc()
        sys.stderr.write(tb)
        return unobservable(run, args, tb)


def unobservable(run, args, text: str) -> int:
    """The harness could not drive or observe the implementation (on the unchanged tree this does not
    happen): the correspondence between model and code no longer checks.  Reported as a violation
    without a failing input, naming the correspondence; the text of the problem is the replay."""
    if args.replay:
        print(text[-3000:])
        print(f"VIOLATION property={run.prop} replay={args.replay} no-failing-input-found")
        return 1
    run.violations = [v for v in run.violations]      # keep what was found before the problem
    run.violation('harness', dict(correspondence=f"harness/{run.prop.lower()}.py drives edzed and feeds "
                                  f"coq/Cases/Cases_{run.prop}_*.v; it could not observe the implementation"),
                  "the correspondence check could not run the implementation as the model expects: "
                  + text[-3000:], clause='implementation_not_observable', concrete=False)
    try:
        return run.finish()
    except Exception:          # noqa
        traceback.print_exc()
        print(f"BROKEN CHECK {run.prop}: internal error", file=sys.stderr)
        return 2


if __name__ == '__main__':
    sys.exit(main())
