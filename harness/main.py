"""Entry point: ./check Cxx [--tier quick|thorough] [--replay FILE]"""
from __future__ import annotations

import argparse
import importlib
import os
import sys
import traceback

from . import common


def main() -> int:
    ap = argparse.ArgumentParser()
    ap.add_argument('prop')
    ap.add_argument('--tier', default=os.environ.get('VERIF_TIER', 'quick'),
                    choices=['quick', 'thorough'])
    ap.add_argument('--replay')
    ap.add_argument('--seed', type=int, default=int(os.environ.get('VERIF_SEED', '20260930')))
    args = ap.parse_args()
    prop = args.prop.upper()
    try:
        mod = importlib.import_module(f'harness.{prop.lower()}')
    except ModuleNotFoundError as err:
        print(f"no check for {prop}: {err}", file=sys.stderr)
        return 2
    run = common.Run(prop, args.tier, args.seed)
    try:
        common.ensure_build()
        run.proof = common.proof_status(prop)
        run.add_obligation(True, len(run.proof['theorems']))
        if args.replay:
            return mod.replay(run, args.replay)
        for old in common.REPLAYS.glob(f'{prop}-*.json'):
            old.unlink()          # replay files of earlier runs of this check
        mod.check(run)
        return run.finish()
    except common.Broken as err:
        print(f"BROKEN CHECK {prop}: {err}", file=sys.stderr)
        return 2
    except Exception:
        traceback.print_exc()
        print(f"BROKEN CHECK {prop}: internal error", file=sys.stderr)
        return 2


if __name__ == '__main__':
    sys.exit(main())
