(* C09 - the first error stops the simulation and is the one that gets reported. *)
From Verif Require Import Values Errors ErrorsProofs.
Open Scope list_scope.
Open Scope Z_scope.

Theorem C09_error_write_once : forall e ss, deliver_all (Some e) ss = Some e.
Proof. exact error_write_once. Qed.

(* for every ordering of error sources: the recorded error is the first one delivered *)
Theorem C09_error_is_first : forall ss1 s d ss2,
  Forall (fun x => delivered x = None) ss1 -> delivered s = Some d ->
  deliver_all None (ss1 ++ s :: ss2) = Some d.
Proof. exact error_is_first. Qed.

Theorem C09_harmless_sources_never_stop : forall ss,
  Forall (fun x => delivered x = None) ss -> deliver_all None ss = None.
Proof. exact nothing_delivered. Qed.

Theorem C09_fatal_sources : forall s,
  (exists d, delivered s = Some d) <->
  match s with
  | SHandlerError _ | SCalcError _ | SSyncInitError _ | SMonitoredTask _ | SAbortCall _
  | SCtrlAbort _ | SCtrlShutdown | SShutdown => True
  | _ => False
  end.
Proof. exact fatal_sources. Qed.

Theorem C09_cancel_is_normal : forall sups,
  shutdown_result (Some DCancel) = ReturnsNone /\
  (first_failed sups = None -> run_result (Some DCancel) sups = ReturnsNone).
Proof. exact cancel_is_normal. Qed.

Theorem C09_raised_is_first : forall t sups,
  run_result (Some (DExc t)) sups = Raises t /\ shutdown_result (Some (DExc t)) = Raises t.
Proof. exact raised_is_first. Qed.

Theorem C09_supporting_task_error_reported : forall e sups t,
  (e = None \/ e = Some DCancel) -> first_failed sups = Some t -> run_result e sups = Raises t.
Proof. exact supporting_task_error_reported. Qed.

Theorem C09_first_failed_is_lowest_index : forall pre t post,
  Forall (fun x => match x with SupFailed _ => False | _ => True end) pre ->
  first_failed (pre ++ SupFailed t :: post) = Some t.
Proof. exact first_failed_is_lowest_index. Qed.

Print Assumptions C09_error_write_once.
Print Assumptions C09_error_is_first.
Print Assumptions C09_harmless_sources_never_stop.
Print Assumptions C09_fatal_sources.
Print Assumptions C09_cancel_is_normal.
Print Assumptions C09_raised_is_first.
Print Assumptions C09_supporting_task_error_reported.
Print Assumptions C09_first_failed_is_lowest_index.
