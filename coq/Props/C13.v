(* C13 - interval specifications mean the same in every accepted notation. *)
From Verif Require Import Values Interval IntervalParse IntervalProofs IntervalProofs2.
Open Scope list_scope.
Open Scope Z_scope.

(* Model/Interval.v: numeric semantics (normalisation, sorting, membership, as_list, as_string);
   Model/IntervalParse.v: the string notations.  Every notation is mapped to the one numeric normal
   form (model_interval), so "all notations of one interval normalise to the same form" is decided by
   the correspondence of each notation with the model plus the monitor's comparison of the forms. *)

(* membership: time-of-day ranges are left-closed/right-open on the circle of one day and wrap
   around midnight when stop is not after start; equal endpoints are the whole day *)
Theorem C13_time_contains_spec : forall a b x,
  valid_time a = true -> valid_time b = true -> valid_time x = true ->
  in_range_k KTime (a, b) x = cyc_open day_us (time_key a) (time_key b) (time_key x).
Proof. exact time_contains_spec. Qed.

Theorem C13_time_whole_day : forall a x, valid_time a = true -> valid_time x = true ->
  in_range_k KTime (a, a) x = true.
Proof. exact time_whole_day. Qed.

(* for distinct endpoints the ranges (a, b) and (b, a) partition the day: every moment is in
   exactly one of them (left-closed/right-open on both, so the endpoints are not shared) *)
Theorem C13_time_ranges_partition_day : forall a b x,
  valid_time a = true -> valid_time b = true -> valid_time x = true -> time_key a <> time_key b ->
  in_range_k KTime (a, b) x = negb (in_range_k KTime (b, a) x).
Proof. exact time_ranges_partition_day. Qed.

Example C13_partition_nonvacuous :
  valid_time [22; 30; 0; 0] = true /\ valid_time [6; 0; 0; 0] = true /\ valid_time [6; 0; 0; 0] = true /\
  in_range_k KTime ([22; 30; 0; 0], [6; 0; 0; 0]) [6; 0; 0; 0] = false /\
  in_range_k KTime ([6; 0; 0; 0], [22; 30; 0; 0]) [6; 0; 0; 0] = true.
Proof. vm_compute. repeat split; reflexivity. Qed.

(* date ranges are inclusive and wrap around the year end (366-day circle) *)
Theorem C13_date_contains_spec : forall a b x,
  valid_date a = true -> valid_date b = true -> valid_date x = true ->
  in_range_k KDate (a, b) x = cyc_closed 366 (date_key a) (date_key b) (date_key x).
Proof. exact date_contains_spec. Qed.

(* date-time ranges never wrap *)
Theorem C13_datetime_never_wraps : forall a b x, lex_le b a = true -> in_range_k KDateTime (a, b) x = false.
Proof. exact datetime_never_wraps. Qed.

(* normal form: full length, range-checked, idempotent, sorted - for every input and notation *)
Theorem C13_endpoint_full_length : forall k l p, norm_endpoint k l = Some p ->
  List.length p = ep_len k /\
  match k with KTime => valid_time p | KDate => valid_date p | KDateTime => valid_datetime p end = true.
Proof. exact norm_endpoint_full_length. Qed.

Theorem C13_endpoint_idempotent : forall k l p, norm_endpoint k l = Some p -> norm_endpoint k p = Some p.
Proof. exact norm_endpoint_idem. Qed.

Theorem C13_normal_form_sorted : forall k i rs, model_interval k i = Some rs -> sorted_ranges rs = true.
Proof. exact model_interval_sorted. Qed.

(* the string rendering read back: str(time) of EVERY valid time of day (whole seconds by a finite
   sweep over the 86 400 values, the six fraction digits and the splitting at the decimal point
   in general); every day of the leap year; complete interval strings and date-times are decided
   by the correspondence run only *)
Theorem C13_time_string_roundtrip : forall h m s u, valid_time [h; m; s; u] = true ->
  parse_time_str (render_time [h; m; s; u]) = Some [h; m; s; u].
Proof. exact time_string_roundtrip_full. Qed.

Theorem C13_fraction_digits : forall u, 0 <= u <= 999999 -> frac_us (dec_fixed 6 u) = u.
Proof. exact frac_us_dec_fixed. Qed.

Theorem C13_date_string_roundtrip : forall d, valid_date d = true -> parse_date_str (render_date d) = Some d.
Proof. exact date_string_roundtrip. Qed.

(* month names in lower/upper/capitalised spelling cut to any length >= 3 (finite sweep) *)
Theorem C13_month_names_any_case :
  forallb (fun m => forallb (fun nm => match name_to_month nm with Some m' => m =? m' | None => false end)
                            (name_variants m)) all_months = true.
Proof. exact month_names_any_case. Qed.

Print Assumptions C13_time_contains_spec.
Print Assumptions C13_time_whole_day.
Print Assumptions C13_date_contains_spec.
Print Assumptions C13_datetime_never_wraps.
Print Assumptions C13_endpoint_full_length.
Print Assumptions C13_endpoint_idempotent.
Print Assumptions C13_normal_form_sorted.
Print Assumptions C13_time_string_roundtrip.
Print Assumptions C13_fraction_digits.
Print Assumptions C13_date_string_roundtrip.
Print Assumptions C13_month_names_any_case.
Print Assumptions C13_time_ranges_partition_day.
