(* C16 - event filters form an ordered pipeline that can edit or veto an event. *)
From Verif Require Import Values Filters FiltersProofs.
Open Scope Z_scope.
Open Scope string_scope.

(* --- the pipeline: ordered, left to right; composition law over any split point *)
Theorem C16_pipeline_app : forall fs gs d,
  pipeline (fs ++ gs) d = match pipeline fs d with Ok (Some d') => pipeline gs d' | x => x end.
Proof. exact pipeline_app. Qed.

Theorem C16_first_false_ends_pipeline : forall pre f post d d1,
  pipeline pre d = Ok (Some d1) -> f d1 = FReject -> pipeline (pre ++ f :: post) d = Ok None.
Proof. exact pipeline_first_reject. Qed.

Theorem C16_mapping_replaces_data : forall pre f post d d1 d2,
  pipeline pre d = Ok (Some d1) -> f d1 = FReplace d2 ->
  pipeline (pre ++ f :: post) d = pipeline post d2.
Proof. exact pipeline_replace. Qed.

Theorem C16_true_result_passes_data_on : forall pre f post d d1,
  pipeline pre d = Ok (Some d1) -> f d1 = FPass ->
  pipeline (pre ++ f :: post) d = pipeline post d1.
Proof. exact pipeline_pass. Qed.

Theorem C16_send_sets_source : forall src fs d,
  send src fs d = pipeline fs (dset d "source" (VStr src)) /\
  dget (dset d "source" (VStr src)) "source" = Some (VStr src).
Proof. exact send_sets_source. Qed.

(* --- Edge: the complete truth table, all flags, all values *)
Theorem C16_edge_truth_table : forall c p v,
  edge_pass c p v = true <->
  (p = VUndef /\ truthy v = true /\ eff_urise c = true) \/
  (p = VUndef /\ truthy v = false /\ e_ufall c = true) \/
  (p <> VUndef /\ truthy p = false /\ truthy v = true /\ e_rise c = true) \/
  (p <> VUndef /\ truthy p = true /\ truthy v = false /\ e_fall c = true).
Proof. exact edge_truth_table. Qed.

Theorem C16_edge_urise_default : forall c, e_urise c = None -> eff_urise c = e_rise c.
Proof. exact edge_urise_default. Qed.

Theorem C16_not_from_undef : forall d,
  not_from_undef d = FReject <-> (dget d "previous" = None \/ dget d "previous" = Some VUndef).
Proof. exact not_from_undef_spec. Qed.

(* --- Delta: for every sequence and delta, a value passes iff nothing passed before or it
   differs from the last PASSED value by at least delta; the pass/drop list is unique *)
Theorem C16_delta_satisfies_spec : forall delta vs last,
  delta_monitor delta last vs (delta_run delta last vs) = true.
Proof. exact delta_run_satisfies_monitor. Qed.

Theorem C16_delta_spec_unique : forall delta vs last ps,
  delta_monitor delta last vs ps = true -> ps = delta_run delta last vs.
Proof. exact delta_monitor_unique. Qed.

Theorem C16_delta_state_is_last_passed : forall delta vs last,
  delta_state delta last vs = last_passed last vs (delta_run delta last vs).
Proof. exact delta_state_is_last_passed. Qed.

Theorem C16_delta_agree_implies_monitor : forall c, dcase_agree c = true -> dcase_monitor c = true.
Proof. exact delta_agree_implies_monitor. Qed.

Theorem C16_if_output : forall o d,
  (truthy o = true -> if_output o d = FReplace d) /\ (truthy o = false -> if_output o d = FReject).
Proof. exact if_output_spec. Qed.

Theorem C16_if_not_initialized : forall o d,
  (o = VUndef -> if_not_initialized o d = FReplace d) /\
  (o <> VUndef -> if_not_initialized o d = FReject).
Proof. exact if_not_initialized_spec. Qed.

(* --- DataEdit: each operation is the dictionary operation of its documentation (stated
   extensionally through lookups), a chain is its operations applied left to right *)
Theorem C16_op_add : forall kvs d k, exists d', de_apply (OpAdd kvs) d = DOk d' /\
  dget d' k = match dget (rev kvs) k with Some v => Some v | None => dget d k end.
Proof. exact op_add_spec. Qed.

Theorem C16_op_setdefault : forall kvs d k, exists d', de_apply (OpSetdefault kvs) d = DOk d' /\
  dget d' k = match dget d k with Some v => Some v | None => dget kvs k end.
Proof. exact op_setdefault_spec. Qed.

Theorem C16_op_delete : forall ks d k,
  de_apply (OpDelete ks) d = DOk (fold_left ddel ks d) /\
  dget (fold_left ddel ks d) k = if str_in k ks then None else dget d k.
Proof. exact op_delete_spec. Qed.

Theorem C16_op_permit : forall ks d k, exists d', de_apply (OpPermit ks) d = DOk d' /\
  dget d' k = if str_in k ks then dget d k else None.
Proof. exact op_permit_spec. Qed.

Theorem C16_op_copy : forall s t d,
  match dget d s with
  | None => de_apply (OpCopy s t) d = DErr EKey
  | Some v => exists d', de_apply (OpCopy s t) d = DOk d' /\
                         dget d' t = Some v /\ forall k, k <> t -> dget d' k = dget d k
  end.
Proof. exact op_copy_spec. Qed.

Theorem C16_op_rename : forall s t d,
  match dget d s with
  | None => de_apply (OpRename s t) d = DErr EKey
  | Some v => exists d', de_apply (OpRename s t) d = DOk d' /\ dget d' s = None /\
                         (t <> s -> dget d' t = Some v) /\
                         forall k, k <> t -> k <> s -> dget d' k = dget d k
  end.
Proof. exact op_rename_spec. Qed.

Theorem C16_op_modify : forall k f d,
  match dget d k with
  | None => de_apply (OpModify k f) d = DErr EKey
  | Some v =>
      match apply_mfun f v with
      | MReject => de_apply (OpModify k f) d = DReject
      | MDelete => exists d', de_apply (OpModify k f) d = DOk d' /\ dget d' k = None /\
                              forall k2, k2 <> k -> dget d' k2 = dget d k2
      | MVal v' => exists d', de_apply (OpModify k f) d = DOk d' /\ dget d' k = Some v' /\
                              forall k2, k2 <> k -> dget d' k2 = dget d k2
      end
  end.
Proof. exact op_modify_spec. Qed.

Theorem C16_op_add_output : forall k o d, exists d', de_apply (OpAddOutput k o) d = DOk d' /\
  dget d' k = Some o /\ forall k2, k2 <> k -> dget d' k2 = dget d k2.
Proof. exact op_add_output_spec. Qed.

Theorem C16_dataedit_chain : forall a b d,
  de_chain (a ++ b) d = match de_chain a d with DOk d' => de_chain b d' | x => x end.
Proof. exact dataedit_chain_app. Qed.

(* non-vacuity: an editing, a passing and a rejecting filter; an empty mapping is NOT a veto *)
Example C16_nonvacuous :
  send "src" (map run_filt [F_dataedit [OpAdd [("a", VInt 1)]; OpRename "a" "b"]; F_key "b";
                            F_dataedit [OpPermit []]]) [("value", VInt 5)] = Ok (Some [])
  /\ send "src" (map run_filt [F_key "value"; F_const true]) [("value", VInt 0)] = Ok None.
Proof. vm_compute. split; reflexivity. Qed.

Print Assumptions C16_pipeline_app.
Print Assumptions C16_first_false_ends_pipeline.
Print Assumptions C16_mapping_replaces_data.
Print Assumptions C16_true_result_passes_data_on.
Print Assumptions C16_send_sets_source.
Print Assumptions C16_edge_truth_table.
Print Assumptions C16_edge_urise_default.
Print Assumptions C16_not_from_undef.
Print Assumptions C16_delta_satisfies_spec.
Print Assumptions C16_delta_spec_unique.
Print Assumptions C16_delta_state_is_last_passed.
Print Assumptions C16_delta_agree_implies_monitor.
Print Assumptions C16_if_output.
Print Assumptions C16_if_not_initialized.
Print Assumptions C16_op_add.
Print Assumptions C16_op_setdefault.
Print Assumptions C16_op_delete.
Print Assumptions C16_op_permit.
Print Assumptions C16_op_copy.
Print Assumptions C16_op_rename.
Print Assumptions C16_op_modify.
Print Assumptions C16_op_add_output.
Print Assumptions C16_dataedit_chain.
