(* C02 - output events reproduce the source block's output history exactly. *)
From Verif Require Import Values Filters Events EventsProofs.
Open Scope string_scope.
Open Scope list_scope.

(* for every history of assignments, every initial output and every configured on_output event *)
Theorem C02_on_output_is_the_change_history : forall nout nevery i vs out, (i < nout)%nat ->
  map pv (filter (is_out i) (List.concat (history nout nevery out vs))) = changes out vs.
Proof. exact on_output_values. Qed.

Theorem C02_on_output_chain : forall vs out, chained out (changes out vs).
Proof. exact on_output_chain. Qed.

Theorem C02_last_change_is_final_output : forall vs out,
  final_output out vs = match rev (changes out vs) with (_, v) :: _ => v | [] => out end.
Proof. exact changes_final. Qed.

Theorem C02_on_every_output_values : forall nout nevery j vs out, (j < nevery)%nat ->
  map pv (filter (is_every j) (List.concat (history nout nevery out vs))) = every_pairs out vs.
Proof. exact every_output_values. Qed.

Theorem C02_on_every_output_count : forall out vs,
  List.length (every_pairs out vs) = List.length vs.
Proof. exact every_output_count. Qed.

Theorem C02_emission_order : forall nout nevery out v,
  py_eq out v = false ->
  map em_kind (snd (set_output nout nevery out v)) = map EOut (seq 0 nout) ++ map EEvery (seq 0 nevery).
Proof. exact emission_order. Qed.

Theorem C02_unchanged_assignment : forall nout nevery out v,
  py_eq out v = true ->
  set_output nout nevery out v =
  (out, map (fun j => {| em_kind := EEvery j; em_prev := out; em_val := v |}) (seq 0 nevery)).
Proof. exact emission_unchanged. Qed.

Theorem C02_emission_data : forall nout nevery out v e,
  In e (snd (set_output nout nevery out v)) -> em_prev e = out /\ em_val e = v.
Proof. exact emission_data. Qed.

Theorem C02_destination_gets_pipeline_result : forall src prev v e,
  deliver_one src prev v e =
  match send src (map run_filt (ev_filters e)) (base_data prev v) with
  | Ok (Some d) => [(ev_dest e, d)] | _ => [] end.
Proof. exact delivery_is_pipeline_result. Qed.

Theorem C02_unfiltered_delivery : forall src prev v dest,
  deliver_one src prev v {| ev_filters := []; ev_dest := dest |} =
  [(dest, [("trigger", VStr "output"); ("previous", prev); ("value", v); ("source", VStr src)])].
Proof. exact unfiltered_delivery. Qed.

(* non-vacuity: 1, True, 1.0 are one value; None and () are changes *)
Example C02_nonvacuous :
  changes VUndef [VInt 1; VBool true; VFlt 1; VNone; VNone; VTup []; VInt 1]
  = [(VUndef, VInt 1); (VInt 1, VNone); (VNone, VTup []); (VTup [], VInt 1)]
  /\ List.length (every_pairs VUndef [VInt 1; VBool true; VFlt 1; VNone]) = 4%nat.
Proof. vm_compute. split; reflexivity. Qed.

Print Assumptions C02_on_output_is_the_change_history.
Print Assumptions C02_on_output_chain.
Print Assumptions C02_last_change_is_final_output.
Print Assumptions C02_on_every_output_values.
Print Assumptions C02_on_every_output_count.
Print Assumptions C02_emission_order.
Print Assumptions C02_unchanged_assignment.
Print Assumptions C02_emission_data.
Print Assumptions C02_destination_gets_pipeline_result.
Print Assumptions C02_unfiltered_delivery.
