(* C05 - after start-up every block has a valid output, taken from the documented sources. *)
From Verif Require Import Values Init InitProofs InitFatalProofs InitLogProofs.
Open Scope list_scope.
Open Scope Z_scope.

(* Model/Init.v is Circuit.init_sblock, the three start-up phases with _run_tasks and the early
   initialisation by a pending event, for ANY list of blocks (any combination of sources, any
   init-time event topology (cycles included: recursive event() calls are refused), any creation order - the list order).  About every run of it: *)

(* each sequential block runs restore / init_regular / init_from_value at most once each and in
   this order, whatever events arrive while it or another block is being initialised
   (allowed st p: p is the block's own sequence of routines, st its init_steps_completed) *)
Theorem C05_init_step_machine : forall T b,
  let s := fst (fst (run_init T)) in allowed (steps s b) (proj b (ilog s)).
Proof. intros T b. exact (init_step_machine T b). Qed.

Theorem C05_allowed_means_once_in_order : forall st p, allowed st p ->
  p = [] \/ p = [TR] \/ p = [TG] \/ p = [TR; TG] \/ p = [TG; TF] \/ p = [TR; TG; TF].
Proof. exact allowed_order. Qed.

(* the invariant is preserved by every step of the mutually recursive init/event/output cascade,
   and a block whose own step is in progress (negative counter) is left alone by the cascade *)
Theorem C05_cascade_preserves : forall fuel T s b,
  Good s (set_output fuel T s b) /\ Good s (event_put fuel T s b) /\
  forall full, Good s (init_sblock fuel T s b full).
Proof. exact init_good. Qed.

(* an event that arrives before a block finished its synchronous steps makes those steps run
   first: the handler is entered only with all steps completed (or the start-up already failed) *)
Theorem C05_event_runs_sync_steps_first : forall f T s b,
  halt s = false -> active s b = false -> 0 <= steps s b < 2 ->
  let r := init_sblock f T (set_active (set_active s b true) b false) b true in
  halt r = false -> steps r b = 2.
Proof. exact event_runs_sync_steps_first. Qed.

(* the asynchronous routine: only for blocks still uninitialised, only with a positive
   init_timeout, one task per block, never waited for longer than the largest init_timeout, and
   a routine that finishes within its own timeout is never cancelled *)
Theorem C05_async_only_if : forall T s t, In t (async_started T s) ->
  inited s (fst (fst t)) = false /\ 0 < snd (fst t).
Proof. exact async_only_if. Qed.

Theorem C05_async_once : forall T s, NoDup (map (fun t => fst (fst t)) (async_started T s)).
Proof. exact async_once. Qed.

Theorem C05_async_wait_bound : forall T s, snd (async_phase T s) <= max_timeout T.
Proof. exact async_wait_bound. Qed.

Theorem C05_finishes_within_timeout : forall l now fin b tmo d sc,
  In (b, tmo, sc) l -> done_time sc = Some d -> d <= tmo ->
  In (d, b, sc) (snd (run_tasks l now fin)).
Proof. exact finishes_within_timeout. Qed.

(* "when wait_init() returns normally every block's output differs from UNDEF": a start-up of the
   model that succeeds has initialised every block *)
Theorem C05_success_all_initialised : forall T s t,
  run_init T = (s, t, true) -> forall b, (b < List.length T)%nat -> inited s b = true.
Proof. exact success_all_initialised. Qed.

(* "if some block cannot be initialised ... the simulation terminates with an error": a start-up
   in which a failing init_regular was called - by one of the passes, by an event that arrived
   early, from a saved state being restored or from an init_async task (places where errors are
   otherwise only logged) - never succeeds *)
Theorem C05_failing_regular_is_fatal : forall T s t,
  run_init T = (s, t, true) ->
  forall b, In (CRegular b) (ilog s) -> is_regular (spec_of T b) <> GRaises.
Proof. exact failing_regular_is_fatal. Qed.

(* non-vacuity: b0's init_regular raises; it is reached early through the event sent while b1
   restores its state; b2 gives b0 an output later - the start-up fails all the same *)
Example C05_fatal_nonvacuous :
  let p := {| is_persistent := false; is_restore := RAbsent; is_async := None; is_regular := GNoEffect;
              is_initdef := false; is_handler_sets := true; is_dests := [] |} in
  let T := [ {| is_persistent := false; is_restore := RAbsent; is_async := None; is_regular := GRaises;
                is_initdef := false; is_handler_sets := true; is_dests := [] |};
             {| is_persistent := true; is_restore := RSets; is_async := None; is_regular := GNoEffect;
                is_initdef := false; is_handler_sets := true; is_dests := [0%nat] |};
             {| is_persistent := false; is_restore := RAbsent; is_async := None; is_regular := GNoEffect;
                is_initdef := true; is_handler_sets := true; is_dests := [0%nat] |} ] in
  snd (run_init T) = false /\ snd (run_init [p; p]) = false /\
  snd (run_init [ {| is_persistent := false; is_restore := RAbsent; is_async := None; is_regular := GSets;
                     is_initdef := false; is_handler_sets := true; is_dests := [1%nat] |}; p ]) = true.
Proof. vm_compute. repeat split; reflexivity. Qed.

(* "initialised from its sources ...": a routine is only ever called for a block that has that
   source - _restore_state only for persistent blocks with a saved state, init_from_value only
   with an initdef, init_async only with a positive init_timeout *)
Theorem C05_routines_only_where_they_exist : forall T c,
  In c (ilog (fst (fst (run_init T)))) ->
  match c with
  | CRestore b => is_persistent (spec_of T b) = true /\ is_restore (spec_of T b) <> RAbsent
  | CFromValue b => is_initdef (spec_of T b) = true
  | CAsync b => exists tmo sc, is_async (spec_of T b) = Some (tmo, sc) /\ 0 < tmo
  | CRegular _ | CHandler _ => True
  end.
Proof. exact routines_only_where_they_exist. Qed.

(* NOT proved here: "whether start-up succeeds does not depend on the creation order" for the
   model.  It is decided per configuration by running the implementation in every creation order
   (icase_monitor, ic_perm_ok) - exhaustive for the sampled configurations, not a theorem. *)

Print Assumptions C05_init_step_machine.
Print Assumptions C05_allowed_means_once_in_order.
Print Assumptions C05_cascade_preserves.
Print Assumptions C05_event_runs_sync_steps_first.
Print Assumptions C05_async_only_if.
Print Assumptions C05_async_once.
Print Assumptions C05_async_wait_bound.
Print Assumptions C05_finishes_within_timeout.
Print Assumptions C05_success_all_initialised.
Print Assumptions C05_failing_regular_is_fatal.
Print Assumptions C05_routines_only_where_they_exist.
