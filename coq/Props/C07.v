(* C07 - TimeDate and TimeSpan outputs follow the wall clock. *)
From Verif Require Import Values Interval TimeDate TimeDateProofs CronProofs.
Open Scope list_scope.
Open Scope Z_scope.

(* Model/TimeDate.v: pred = TimeDate.recalc / TimeSpan.recalc on the membership rules of
   Interval.v (C13); alarm_points = the times of day a block registers with cron; timetable,
   bisect_left and sleeptime_us = the scheduling arithmetic of Cron._maintask. *)

(* recalculating at the alarm points suffices: between two readings of the same day with no
   alarm point in between the documented predicate does not change *)
Theorem C07_timedate_constant_between_alarms : forall times dates wds r1 r2,
  match times with Some t => ranges_valid t | None => True end ->
  r_date r1 = r_date r2 -> r_wd r1 = r_wd r2 ->
  valid_time (r_tod r1) = true -> valid_time (r_tod r2) = true ->
  time_key (r_tod r1) <= time_key (r_tod r2) ->
  (forall p, In p (alarm_points (CTimeDate times dates wds) r1) ->
             ~ (time_key (r_tod r1) < time_key p <= time_key (r_tod r2))) ->
  pred (CTimeDate times dates wds) r1 = pred (CTimeDate times dates wds) r2.
Proof. exact timedate_constant_between_alarms. Qed.

Theorem C07_timespan_constant : forall span x1 x2,
  (forall r, In r span ->
     (lex_le (fst r) x1 = lex_le (fst r) x2) /\ (lex_lt x1 (snd r) = lex_lt x2 (snd r))) ->
  contains KDateTime span x1 = contains KDateTime span x2.
Proof. exact timespan_constant. Qed.

(* False when nothing is configured or a given set is empty *)
Theorem C07_unconfigured_false : forall r, pred (CTimeDate None None None) r = false.
Proof. exact unconfigured_false. Qed.
Theorem C07_empty_times_false : forall dates wds r, pred (CTimeDate (Some []) dates wds) r = false.
Proof. exact empty_times_false. Qed.
Theorem C07_empty_weekdays_false : forall times dates r, pred (CTimeDate times dates (Some [])) r = false.
Proof. exact empty_weekdays_false. Qed.

(* scheduling arithmetic *)
Theorem C07_sleeptime_spec : forall now w, valid_time now = true -> valid_time w = true ->
  (time_key now <= time_key w -> 0 <= sleeptime_us now w /\
      (sleeptime_us now w = time_key w - time_key now \/
       sleeptime_us now w = time_key w - time_key now + day_us)) /\
  (nth 0 now 0 = 23 -> nth 0 w 0 = 0 ->
      sleeptime_us now w = (time_key w - time_key now) mod day_us /\ 0 < sleeptime_us now w <= 2 * hour_us).
Proof. exact sleeptime_spec. Qed.

Theorem C07_alarms_in_timetable : forall alarms a, In a alarms -> In a (timetable alarms).
Proof. exact alarms_in_timetable. Qed.

(* because of the 24 hourly entries there is always a wake-up at most one hour ahead: a forward
   clock jump is noticed (the check at the wake-up resets and recalculates) within the hour *)
Theorem C07_hourly_wakeup_exists : forall alarms now, valid_time now = true ->
  exists e, In e (timetable alarms) /\ 0 < (time_key e - time_key now) mod day_us <= hour_us.
Proof. exact hourly_wakeup_exists. Qed.

Theorem C07_bisect_left_spec : forall tt x,
  (forall i, (i < bisect_left tt x)%nat -> lex_lt (nth i tt []) x = true) /\
  (forall y, nth_error tt (bisect_left tt x) = Some y -> lex_lt y x = false).
Proof. exact bisect_left_spec. Qed.

(* the timetable is strictly sorted (by the microsecond of the day), so the index arithmetic of
   Cron._maintask never skips an alarm point: *)
Theorem C07_timetable_sorted : forall alarms,
  all_valid alarms -> all_valid (timetable alarms) /\ sorted_keys (timetable alarms).
Proof. exact timetable_sorted. Qed.

(* after a start, a reload (a block was reconfigured) or a reset (clock jump): the wake-up chosen
   by bisect_left is the first alarm point that is not over; if no entry is left today every
   alarm point is over and the index wraps to 00:00:00 *)
Theorem C07_fresh_wakeup_skips_nothing : forall alarms now,
  all_valid alarms -> valid_time now = true ->
  let tt := timetable alarms in
  let i := bisect_left tt now in
  ((i < List.length tt)%nat ->
     In (nth i tt []) tt /\ time_key now <= time_key (nth i tt []) /\
     forall a, In a alarms -> time_key now <= time_key a -> time_key (nth i tt []) <= time_key a) /\
  ((i >= List.length tt)%nat -> forall a, In a alarms -> time_key a < time_key now).
Proof. exact fresh_wakeup_skips_nothing. Qed.

(* the wake-ups that follow (index + 1): no alarm point lies strictly between two consecutive
   wake-ups, and none after the last entry of the day - together with
   C07_timedate_constant_between_alarms: recalculating at the wake-ups keeps every output equal to
   its predicate *)
Theorem C07_next_wakeup_skips_nothing : forall alarms i,
  all_valid alarms ->
  let tt := timetable alarms in
  (S i < List.length tt)%nat ->
  time_key (nth i tt []) < time_key (nth (S i) tt []) /\
  forall a, In a alarms -> ~ (time_key (nth i tt []) < time_key a < time_key (nth (S i) tt [])).
Proof. exact next_wakeup_skips_nothing. Qed.

Theorem C07_last_wakeup_skips_nothing : forall alarms,
  all_valid alarms ->
  let tt := timetable alarms in
  forall a, In a alarms -> time_key a <= time_key (nth (List.length tt - 1) tt []).
Proof. exact last_wakeup_skips_nothing. Qed.

(* NOT theorems: that the asyncio task wakes up close to the requested time and that every alarm
   point gets its recalculation (the _maintask loop with its three-step sleep is tied by the
   replay of its debug log, cron_replay, and the property itself is decided on the sampled outputs
   by wcase_monitor). *)

Print Assumptions C07_timedate_constant_between_alarms.
Print Assumptions C07_timespan_constant.
Print Assumptions C07_unconfigured_false.
Print Assumptions C07_empty_times_false.
Print Assumptions C07_empty_weekdays_false.
Print Assumptions C07_sleeptime_spec.
Print Assumptions C07_alarms_in_timetable.
Print Assumptions C07_hourly_wakeup_exists.
Print Assumptions C07_bisect_left_spec.
Print Assumptions C07_timetable_sorted.
Print Assumptions C07_fresh_wakeup_skips_nothing.
Print Assumptions C07_next_wakeup_skips_nothing.
Print Assumptions C07_last_wakeup_skips_nothing.
