(* C17 - an Input never outputs a value that its validators reject. *)
From Verif Require Import Values Validate ValidateProofs.
Open Scope Z_scope.

(* For arbitrary validator functions (any presence combination): *)
Theorem C17_put_accept_iff : forall V out v,
  fst (input_put V out v) = true <->
  (allowed_ok V v = true /\ check_ok V v = true /\ exists v', schema_res V v = Some v').
Proof. exact put_accept_iff. Qed.

Theorem C17_put_accept_output : forall V out v v',
  allowed_ok V v = true -> check_ok V v = true -> schema_res V v = Some v' ->
  input_put V out v = (true, v').
Proof. exact put_accept_output. Qed.

Theorem C17_put_reject_frame : forall V out v,
  fst (input_put V out v) = false -> input_put V out v = (false, out).
Proof. exact put_reject_frame. Qed.

Theorem C17_schema_last : forall V v,
  allowed_ok V v && check_ok V v = false -> validate V v = None.
Proof. exact schema_last. Qed.

(* after ANY put sequence the output is the result of the last accepted put ... *)
Theorem C17_output_is_last_accepted : forall V vs out,
  input_final V out vs = match last_accepted V vs with Some o => o | None => out end.
Proof. exact input_final_last_accepted. Qed.

(* ... hence always the start value or schema(v) of a value that passes every validator *)
Theorem C17_output_always_accepted : forall V vs out,
  input_final V out vs = out \/
  exists v, In v vs /\ allowed_ok V v = true /\ check_ok V v = true /\
            schema_res V v = Some (input_final V out vs).
Proof. exact output_always_accepted. Qed.

Theorem C17_initdef_refused : forall V i,
  i <> VUndef -> validate V i = None -> input_create V i = Err EValue.
Proof. exact initdef_refused. Qed.

Theorem C17_restore_validated : forall V i r,
  validate V r = None -> input_start V i (Some r) = input_start V i None.
Proof. exact restore_validated. Qed.

Theorem C17_restore_accepted : forall V i r r',
  validate V r = Some r' -> r' <> VUndef -> input_start V i (Some r) = r'.
Proof. exact restore_accepted. Qed.

Theorem C17_expired_refused : forall V i e, validate V e = None -> iexp_create V i e = Err EValue.
Proof. exact expired_refused. Qed.

Theorem C17_inputexp_put : forall V s v,
  match validate V v with
  | Some v' => iexp_put V s v = (true, IValid v')
  | None => iexp_put V s v = (false, s)
  end.
Proof. exact iexp_put_spec. Qed.

Theorem C17_inputexp_restore_validated : forall V s0 r,
  (validate V r = None -> iexp_start V s0 (Some r) = s0) /\
  (forall r', validate V r = Some r' -> iexp_start V s0 (Some r) = IValid r').
Proof. exact iexp_restore_validated. Qed.

Theorem C17_agree_implies_monitor : forall k, icase_agree k = true -> icase_monitor k = true.
Proof. exact input_agree_implies_monitor. Qed.

(* non-vacuity: allowed={1,2} (1 == True is a member), check rejects 2, schema doubles ints and raises on True *)
Example C17_nonvacuous :
  let t := {| t_allowed := Some [VInt 1; VInt 2]; t_check := Some [VInt 1; VBool true];
              t_schema := Some [(VInt 1, Some (VInt 2)); (VBool true, None)] |} in
  input_run (mkV t) (VInt 0) [VInt 1; VInt 2; VBool true; VInt 3] =
    [(true, VInt 2); (false, VInt 2); (false, VInt 2); (false, VInt 2)].
Proof. vm_compute. reflexivity. Qed.

Print Assumptions C17_put_accept_iff.
Print Assumptions C17_put_accept_output.
Print Assumptions C17_put_reject_frame.
Print Assumptions C17_schema_last.
Print Assumptions C17_output_is_last_accepted.
Print Assumptions C17_output_always_accepted.
Print Assumptions C17_initdef_refused.
Print Assumptions C17_restore_validated.
Print Assumptions C17_restore_accepted.
Print Assumptions C17_expired_refused.
Print Assumptions C17_inputexp_put.
Print Assumptions C17_inputexp_restore_validated.
Print Assumptions C17_agree_implies_monitor.
