(* C11 - a block never handles two events at the same time. *)
From Verif Require Import Values Dispatch DispatchProofs.
Open Scope list_scope.
Open Scope nat_scope.

(* For every topology (any cycles, self-loops, diamonds), every handler / init script, every
   event and every amount of fuel: *)

(* whatever happens to an event() call - handled, vetoed, "no event", unknown type, wrong
   parameters, handler failure, refused as recursive - all guard flags and handler counters
   are afterwards exactly what they were before *)
Theorem C11_guard_restored : forall fuel T s b et vt s' o,
  deliver fuel T s b et vt = (s', o) -> pres s s'.
Proof. exact deliver_pres. Qed.

Theorem C11_guard_released : forall fuel T s b et vt s' o n,
  all_released n s = true -> deliver fuel T s b et vt = (s', o) -> all_released n s' = true.
Proof. exact guard_released. Qed.

(* no handler of a block ever starts while another handler of the same block is running -
   including inside the "initialisation by an event" window *)
Theorem C11_no_reentry : forall fuel T s b et vt s' o,
  Good s -> reentered s = false -> deliver fuel T s b et vt = (s', o) -> reentered s' = false.
Proof. exact deliver_no_reentry. Qed.

Theorem C11_loop_detected : forall fuel T s b et vt,
  active s b = true -> deliver (S fuel) T s b et vt = (s, OErr ERecursion).
Proof. exact loop_detected. Qed.

Theorem C11_error_through_handler_aborts : forall fuel T s b name acts s4 e vt,
  active s b = false -> ist s b = IDone ->
  hlookup name (b_handlers (get_blk T b)) = Some acts ->
  (forall r, acts <> AParamErr :: r) ->
  run_script (deliver fuel T) (start_handler (set_active s b true) b name) acts = (s4, Some e) ->
  e <> EUnknownEvent ->
  exists s', deliver (S fuel) T s b (ETPlain name) vt = (s', OErr e) /\ aborted s' = true.
Proof. exact handler_error_aborts. Qed.

Theorem C11_cond_none_harmless : forall fuel T s b et vt,
  active s b = false -> resolve et vt = None ->
  exists s', deliver (S fuel) T s b et vt = (s', ONone) /\ aborted s' = aborted s /\ pres s s'.
Proof. exact cond_none_harmless. Qed.

Theorem C11_unknown_event_harmless : forall fuel T s b name vt,
  active s b = false -> ist s b = IDone -> hlookup name (b_handlers (get_blk T b)) = None ->
  exists s', deliver (S fuel) T s b (ETPlain name) vt = (s', OErr EUnknownEvent) /\
             aborted s' = aborted s /\ pres s s'.
Proof. exact unknown_event_harmless. Qed.

Theorem C11_param_error_harmless : forall fuel T s b name rest vt,
  active s b = false -> ist s b = IDone ->
  hlookup name (b_handlers (get_blk T b)) = Some (AParamErr :: rest) ->
  exists s', deliver (S fuel) T s b (ETPlain name) vt = (s', OErr EParam) /\
             aborted s' = aborted s /\ pres s s'.
Proof. exact param_error_harmless. Qed.

Theorem C11_filter_veto_harmless : forall df s sd r,
  s_pass sd = false -> run_script df s (ASend sd :: r) = run_script df s r.
Proof. exact filter_veto_harmless. Qed.

Theorem C11_agree_implies_monitor : forall k, dcase_agree k = true -> dcase_monitor k = true.
Proof. exact dispatch_agree_implies_monitor. Qed.

(* non-vacuity: 0 -> 1 -> 2 -> 0 loop: refused at block 0, aborts, all flags released *)
Example C11_nonvacuous :
  let send d := ASend {| s_dest := d; s_et := ETPlain "go"; s_vt := true; s_pass := true |} in
  let T := [ {| b_handlers := [("go", [send 1])]; b_init := [] |};
             {| b_handlers := [("go", [send 2])]; b_init := [] |};
             {| b_handlers := [("go", [send 0])]; b_init := [] |} ] in
  let s0 := {| active := fun _ => false; ist := fun _ => IDone; running := fun _ => 0;
               aborted := false; reentered := false; hlog := [] |} in
  let '(s', o) := deliver 8 T s0 0 (ETPlain "go") true in
  (o, aborted s', reentered s', all_released 3 s', hlog s')
  = (OErr ERecursion, true, false, true, [(0, "go"); (1, "go"); (2, "go")]%string).
Proof. vm_compute. reflexivity. Qed.

Print Assumptions C11_guard_restored.
Print Assumptions C11_guard_released.
Print Assumptions C11_no_reentry.
Print Assumptions C11_loop_detected.
Print Assumptions C11_error_through_handler_aborts.
Print Assumptions C11_cond_none_harmless.
Print Assumptions C11_unknown_event_harmless.
Print Assumptions C11_param_error_harmless.
Print Assumptions C11_filter_veto_harmless.
Print Assumptions C11_agree_implies_monitor.
