(* C08 - every started block is stopped exactly once and nothing outlives the simulation. *)
From Verif Require Import Values Lifecycle LifecycleProofs LifecycleProofs2.
From Coq Require Import Permutation.
Open Scope list_scope.

(* Model/Lifecycle.v is the clean-up discipline of run_forever/_stop_sblocks as an acceptor over
   the ordered log of start()/stop()/stop_async begin+end (the order inside the two groups of
   blocks is a set order in the code).  For EVERY plan (number of blocks, which have asynchronous
   clean-up, failure before or inside the start loop) and EVERY accepted log - whatever the
   termination cause and instant were: *)

Theorem C08_stop_exactly_started : forall p l, accepted p l = true ->
  starts_of l = started p /\ Permutation (stops_of l) (started p) /\ NoDup (stops_of l).
Proof. exact accepted_stops_exactly_started. Qed.

Theorem C08_async_cleanup_first : forall p l, accepted p l = true ->
  all_saend_before_sync_stop p l = true.
Proof. exact async_cleanup_first. Qed.

Theorem C08_nothing_owed_at_the_end : forall p l s,
  lrun (lstate0 p) l = Some s -> lfinal s = true ->
  ls_astop s = [] /\ ls_abegin s = [] /\ ls_aend s = [] /\ ls_sstop s = [].
Proof. exact accepted_final_nothing_owed. Qed.

(* "their stop_async awaited": in every accepted log stop_async begins exactly once and ends
   (finished, failed or cut off by stop_timeout) exactly once for exactly the started blocks with
   asynchronous clean-up - and for no other block; at every instant an ended one had begun *)
Theorem C08_stop_async_exactly_once : forall p l, accepted p l = true ->
  Permutation (sabegins_of l) (filter (is_async p) (started p)) /\
  Permutation (saends_of l) (filter (is_async p) (started p)) /\
  NoDup (sabegins_of l) /\ NoDup (saends_of l).
Proof. exact stop_async_exactly_once. Qed.

Theorem C08_stop_async_end_after_begin : forall p pre post i, accepted p (pre ++ post) = true ->
  In i (saends_of pre) -> In i (sabegins_of pre).
Proof. exact stop_async_end_after_begin. Qed.

(* non-vacuity: three blocks, block 1 cleaned up asynchronously *)
Example C08_async_nonvacuous :
  let p := {| lp_n := 3%nat; lp_async := [1%nat]; lp_prestart_fail := false; lp_start_fail := None |} in
  let l := [LStart 0%nat; LStart 1%nat; LStart 2%nat; LStop 1%nat; LSaBegin 1%nat; LSaEnd 1%nat; LStop 2%nat; LStop 0%nat] in
  accepted p l = true /\ sabegins_of l = [1%nat] /\ saends_of l = [1%nat] /\
  accepted p [LStart 0%nat; LStart 1%nat; LStart 2%nat; LStop 1%nat; LSaEnd 1%nat; LSaBegin 1%nat; LStop 2%nat; LStop 0%nat] = false /\
  accepted p [LStart 0%nat; LStart 1%nat; LStart 2%nat; LStop 1%nat; LSaBegin 1%nat; LStop 2%nat; LSaEnd 1%nat; LStop 0%nat] = false.
Proof. vm_compute. repeat split; reflexivity. Qed.

(* link: acceptance implies the counting and ordering clauses of the monitor that the harness
   evaluates on the observed log *)
Theorem C08_agree_implies_order : forall p l, accepted p l = true ->
  stops_exactly_started (lp_n p) l = true /\ all_saend_before_sync_stop p l = true.
Proof. exact lifecycle_agree_implies_order. Qed.

(* NOT theorems (observed on the implementation only, see DESIGN.md): that no task or timer is
   pending when run() is over, that stop_data is delivered last, that the circuit can be neither
   restarted nor modified - the asyncio run-time is not modelled. *)

Print Assumptions C08_stop_exactly_started.
Print Assumptions C08_async_cleanup_first.
Print Assumptions C08_nothing_owed_at_the_end.
Print Assumptions C08_agree_implies_order.
Print Assumptions C08_stop_async_exactly_once.
Print Assumptions C08_stop_async_end_after_begin.
