(* C15 - the finalized circuit's connection data is complete, consistent and frozen. *)
From Verif Require Import Values Finalize FinalizeProofs Signature SignatureProofs.
Open Scope string_scope.
Open Scope list_scope.

Theorem C15_object_reference : forall bs n, validate_blk bs (RObj n) = Ok (RBlk n, bs).
Proof. exact validate_obj. Qed.

Theorem C15_constants : forall bs v,
  validate_blk bs (RConstObj v) = Ok (RConst v, bs) /\ validate_blk bs (RVal v) = Ok (RConst v, bs).
Proof. exact validate_const. Qed.

(* a name - plain, '_ctrl' or a '_not_NAME' shortcut - resolves to the block of exactly that
   name; the circuit is unchanged or grows by exactly one block with that unused name *)
Theorem C15_name_reference : forall bs s x bs',
  validate_blk bs (RName s) = Ok (x, bs') ->
  x = RBlk s /\ has_name bs' s = true /\
  (bs' = bs \/ exists b, bs' = bs ++ [b] /\ bd_name b = s /\ has_name bs s = false).
Proof. exact validate_name. Qed.

Theorem C15_inverter_created : forall bs s,
  has_name bs s = false -> String.prefix not_prefix s = true -> sixth_is_underscore s = false ->
  s <> "_ctrl" ->
  validate_blk bs (RName s) =
  Ok (RBlk s, bs ++ [{| bd_name := s; bd_kind := KNot; bd_inputs := [("_", inr [RName (strip_not s)])] |}]).
Proof. exact inverter_created. Qed.

(* exactly one block per name after finalisation: the inverter is unique and shared *)
Theorem C15_names_unique : forall bs bs' m,
  NoDup (names bs) -> finalize bs = Ok (bs', m) -> NoDup (names bs').
Proof. exact finalize_names_unique. Qed.

Theorem C15_conn_biconditional : forall bs m a b,
  In b (names bs) ->
  (In b (oconn bs m a) <-> feeds m a b = true) /\ (In a (iconn m b) <-> feeds m a b = true).
Proof. exact conn_biconditional. Qed.

Theorem C15_unknown_name_error : forall bs s,
  has_name bs s = false -> starts_with_underscore s = false -> validate_blk bs (RName s) = Err EKey.
Proof. exact unknown_name_error. Qed.

Theorem C15_foreign_block_error : forall bs, validate_blk bs RForeign = Err EValue.
Proof. exact validate_foreign. Qed.

Theorem C15_named_resolved : forall bs n w x bs',
  resolve_named bs n w = Ok (x, bs') ->
  x = n /\ exists b, find (fun b => String.eqb (bd_name b) n) bs' = Some b /\
                     (w = NeedS -> bd_kind b = KS).
Proof. exact named_resolved. Qed.

Theorem C15_named_wrong_kind : forall bs n bs1 b,
  validate_blk bs (RName n) = Ok (RBlk n, bs1) ->
  find (fun b => String.eqb (bd_name b) n) bs1 = Some b -> bd_kind b <> KS ->
  resolve_named bs n NeedS = Err EType.
Proof. exact named_wrong_kind. Qed.

(* wrongly shaped inputs make the start fail: the meaning of check_signature() *)
Theorem C15_signature_meaning : forall es bs,
  sig_ok es bs = true <->
  (forall n, In n (map fst es) <-> In n (map fst bs)) /\
  (forall n e, In (n, e) es -> exists v, lookup n bs = Some v /\ item_ok e v = true).
Proof. exact sig_ok_spec. Qed.

Theorem C15_missing_input_fails : forall es bs n,
  In n (map fst es) -> ~ In n (map fst bs) -> sig_ok es bs = false.
Proof. exact missing_input_fails. Qed.

Theorem C15_unexpected_input_fails : forall es bs n,
  In n (map fst bs) -> ~ In n (map fst es) -> sig_ok es bs = false.
Proof. exact unexpected_input_fails. Qed.

(* a group - of any size, the empty group included - where a single input is expected *)
Theorem C15_group_for_single_fails : forall es bs n k,
  In (n, ExSingle) es -> lookup n bs = Some (Some k) -> sig_ok es bs = false.
Proof. exact group_for_single_fails. Qed.

Theorem C15_single_for_group_fails : forall es bs n e,
  In (n, e) es -> e <> ExSingle -> lookup n bs = Some None -> sig_ok es bs = false.
Proof. exact single_for_group_fails. Qed.

Theorem C15_wrong_count_fails : forall es bs n c k,
  In (n, ExCount c) es -> lookup n bs = Some (Some k) -> k <> c -> sig_ok es bs = false.
Proof. exact wrong_count_fails. Qed.

Theorem C15_range_bounds : forall lo hi k,
  item_ok (ExRange lo hi) (Some k) = true <->
  (forall l, lo = Some l -> (l <= k)%nat) /\ (forall h, hi = Some h -> (k <= h)%nat).
Proof. exact range_bounds. Qed.

Theorem C15_signature_link : forall k,
  sig_verdict k = "A"%char -> sc_started k = sig_ok (sc_exp k) (sc_shape k).
Proof. exact sig_link. Qed.

Example C15_signature_nonvacuous :
  sig_ok [("input", ExSingle); ("override", ExSingle)] [("input", None); ("override", None)] = true /\
  sig_ok [("input", ExSingle); ("override", ExSingle)] [("input", Some 0%nat); ("override", None)] = false /\
  sig_ok [("_", ExCount 1)] [("_", Some 2%nat)] = false.
Proof. vm_compute. repeat split. Qed.

(* non-vacuity: two references to '_not_top' share one inverter wired to 'top' *)
Example C15_nonvacuous :
  let bs := [ {| bd_name := "top"; bd_kind := KS; bd_inputs := [] |};
              {| bd_name := "a"; bd_kind := KC; bd_inputs := [("_", inr [RName "_not_top"; RObj "top"])] |};
              {| bd_name := "b"; bd_kind := KC; bd_inputs := [("x", inl (RName "_not_top")); ("k", inl (RVal (VInt 3)))] |} ] in
  match finalize bs with
  | Ok (bs', m) => (names bs', iconn m "_not_top", oconn bs' m "_not_top", oconn bs' m "top")
  | Err _ => ([], [], [], [])
  end = (["top"; "a"; "b"; "_not_top"], ["top"], ["a"; "b"], ["a"; "_not_top"]).
Proof. vm_compute. reflexivity. Qed.

Print Assumptions C15_object_reference.
Print Assumptions C15_constants.
Print Assumptions C15_name_reference.
Print Assumptions C15_inverter_created.
Print Assumptions C15_names_unique.
Print Assumptions C15_conn_biconditional.
Print Assumptions C15_unknown_name_error.
Print Assumptions C15_foreign_block_error.
Print Assumptions C15_named_resolved.
Print Assumptions C15_named_wrong_kind.
Print Assumptions C15_signature_meaning.
Print Assumptions C15_missing_input_fails.
Print Assumptions C15_unexpected_input_fails.
Print Assumptions C15_group_for_single_fails.
Print Assumptions C15_single_for_group_fails.
Print Assumptions C15_wrong_count_fails.
Print Assumptions C15_range_bounds.
Print Assumptions C15_signature_link.
