(* C15 - the finalized circuit's connection data is complete, consistent and frozen. *)
From Verif Require Import Values Finalize FinalizeProofs.
Open Scope string_scope.
Open Scope list_scope.

Theorem C15_object_reference : forall bs n, validate_blk bs (RObj n) = Ok (RBlk n, bs).
Proof. exact validate_obj. Qed.

Theorem C15_constants : forall bs v,
  validate_blk bs (RConstObj v) = Ok (RConst v, bs) /\ validate_blk bs (RVal v) = Ok (RConst v, bs).
Proof. exact validate_const. Qed.

(* a name - plain, '_ctrl' or a '_not_NAME' shortcut - resolves to the block of exactly that
   name; the circuit is unchanged or grows by exactly one block with that unused name *)
Theorem C15_name_reference : forall bs s x bs',
  validate_blk bs (RName s) = Ok (x, bs') ->
  x = RBlk s /\ has_name bs' s = true /\
  (bs' = bs \/ exists b, bs' = bs ++ [b] /\ bd_name b = s /\ has_name bs s = false).
Proof. exact validate_name. Qed.

Theorem C15_inverter_created : forall bs s,
  has_name bs s = false -> String.prefix not_prefix s = true -> sixth_is_underscore s = false ->
  s <> "_ctrl" ->
  validate_blk bs (RName s) =
  Ok (RBlk s, bs ++ [{| bd_name := s; bd_kind := KNot; bd_inputs := [("_", inr [RName (strip_not s)])] |}]).
Proof. exact inverter_created. Qed.

(* exactly one block per name after finalisation: the inverter is unique and shared *)
Theorem C15_names_unique : forall bs bs' m,
  NoDup (names bs) -> finalize bs = Ok (bs', m) -> NoDup (names bs').
Proof. exact finalize_names_unique. Qed.

Theorem C15_conn_biconditional : forall bs m a b,
  In b (names bs) ->
  (In b (oconn bs m a) <-> feeds m a b = true) /\ (In a (iconn m b) <-> feeds m a b = true).
Proof. exact conn_biconditional. Qed.

Theorem C15_unknown_name_error : forall bs s,
  has_name bs s = false -> starts_with_underscore s = false -> validate_blk bs (RName s) = Err EKey.
Proof. exact unknown_name_error. Qed.

Theorem C15_foreign_block_error : forall bs, validate_blk bs RForeign = Err EValue.
Proof. exact validate_foreign. Qed.

Theorem C15_named_resolved : forall bs n w x bs',
  resolve_named bs n w = Ok (x, bs') ->
  x = n /\ exists b, find (fun b => String.eqb (bd_name b) n) bs' = Some b /\
                     (w = NeedS -> bd_kind b = KS).
Proof. exact named_resolved. Qed.

Theorem C15_named_wrong_kind : forall bs n bs1 b,
  validate_blk bs (RName n) = Ok (RBlk n, bs1) ->
  find (fun b => String.eqb (bd_name b) n) bs1 = Some b -> bd_kind b <> KS ->
  resolve_named bs n NeedS = Err EType.
Proof. exact named_wrong_kind. Qed.

(* non-vacuity: two references to '_not_top' share one inverter wired to 'top' *)
Example C15_nonvacuous :
  let bs := [ {| bd_name := "top"; bd_kind := KS; bd_inputs := [] |};
              {| bd_name := "a"; bd_kind := KC; bd_inputs := [("_", inr [RName "_not_top"; RObj "top"])] |};
              {| bd_name := "b"; bd_kind := KC; bd_inputs := [("x", inl (RName "_not_top")); ("k", inl (RVal (VInt 3)))] |} ] in
  match finalize bs with
  | Ok (bs', m) => (names bs', iconn m "_not_top", oconn bs' m "_not_top", oconn bs' m "top")
  | Err _ => ([], [], [], [])
  end = (["top"; "a"; "b"; "_not_top"], ["top"], ["a"; "b"], ["a"; "_not_top"]).
Proof. vm_compute. reflexivity. Qed.

Print Assumptions C15_object_reference.
Print Assumptions C15_constants.
Print Assumptions C15_name_reference.
Print Assumptions C15_inverter_created.
Print Assumptions C15_names_unique.
Print Assumptions C15_conn_biconditional.
Print Assumptions C15_unknown_name_error.
Print Assumptions C15_foreign_block_error.
Print Assumptions C15_named_resolved.
Print Assumptions C15_named_wrong_kind.
