(* C12 - OutputAsync honours its mode for every arrival pattern. *)
From Verif Require Import Values OutputAsync OutputAsyncProofs OutputAsyncProofs2.
Open Scope list_scope.
Open Scope Z_scope.

(* The acceptor (Model/OutputAsync.v) is the specification of the three modes: which step may
   follow which.  For EVERY step list it accepts - any arrival pattern, run durations, failures,
   stop instant, mode, guard time - that ends quiescent: *)

(* exactly one of on_success / on_error / on_cancel per accepted put, and no result event for
   anything that was not put *)
Theorem C12_one_result_per_put : forall c xs s,
  orun c ostate0 xs = Some s -> quiescent s = true ->
  (forall id, In id (puts_of xs) -> count_results id xs = 1%nat) /\
  (forall id, In id (results_of xs) -> In id (puts_of xs)).
Proof. exact one_result_per_put. Qed.

(* the accounting invariant behind it holds in every reachable state *)
Theorem C12_accounting_invariant : forall c xs s,
  orun c ostate0 xs = Some s -> PInv s.
Proof. intros c xs s H. eapply run_PInv; [apply PInv0|exact H]. Qed.

(* mode rules read off the acceptor *)
Theorem C12_wait_one_at_a_time : forall g sc s t id s',
  ostep_do {| o_mode := MWait; o_guard := g; o_selfcancel := sc |} s (OStart t id) = Some s' ->
  active s = [] /\ exists rest, q s = id :: rest.
Proof. exact wait_one_at_a_time. Qed.

(* a run ends "cancelled" only in cancel mode because a newer put is waiting - or because its own
   coroutine raised CancelledError (o_selfcancel: the puts whose coroutine does that) *)
Theorem C12_cancel_only_for_newer_event : forall c s t id s',
  ostep_do c s (OEnd t id OCancelled) = Some s' ->
  In id (o_selfcancel c) \/ (o_mode c = MCancel /\ q s <> []).
Proof. exact cancel_only_for_newer_event. Qed.

Theorem C12_guard_time_exact : forall c s t n s',
  ostep_do c s (OOut t n) = Some s' -> S n = oout s ->
  exists act', drop_due t (active s) = Some act' /\ active s' = act'.
Proof. exact guard_time_exact. Qed.

(* 'wait' mode: the coroutine runs for every event, one at a time, in arrival order - the list
   of started puts followed by the still queued ones is the list of accepted puts *)
Theorem C12_wait_arrival_order : forall c xs s,
  o_mode c = MWait -> orun c ostate0 xs = Some s -> starts_of xs ++ q s = puts_of xs.
Proof. exact wait_arrival_order. Qed.

Theorem C12_wait_runs_every_event_in_order : forall c xs s,
  o_mode c = MWait -> orun c ostate0 xs = Some s -> quiescent s = true ->
  starts_of xs = puts_of xs.
Proof. exact wait_runs_every_event_in_order. Qed.

(* 'cancel' mode: the most recent event is never reported as cancelled and, the history ending
   quiescent, has its one result (success or error): it always runs to completion *)
Theorem C12_cancel_most_recent_completes : forall c xs s p last,
  o_mode c = MCancel -> orun c ostate0 xs = Some s -> quiescent s = true ->
  puts_of xs = p ++ [last] -> ~ In last (o_selfcancel c) ->
  count_results last xs = 1%nat /\ forall t, ~ In (OResult t last OCancelled) xs.
Proof. exact cancel_most_recent_completes. Qed.

(* the output equals the number of runs (a run includes its guard time; a run about to start is
   counted already) in every reachable state *)
Theorem C12_output_counts_runs : forall c xs s,
  orun c ostate0 xs = Some s ->
  oout s = (List.length (active s) + (if starting s then 1 else 0))%nat.
Proof. exact output_counts_runs. Qed.

(* 'wait' and 'cancel' mode: a run starts no sooner than guard_time after the end of the previous
   one, however that one ended (a cancellation cannot shorten it) *)
Theorem C12_guard_separation : forall c pre t1 id1 r mid t2 id2 post s,
  o_mode c <> MStart ->
  orun c ostate0 (pre ++ OEnd t1 id1 r :: mid ++ OStart t2 id2 :: post) = Some s ->
  t1 + o_guard c <= t2.
Proof. exact guard_separation. Qed.

(* 'start' mode: every event starts its own run - each accepted put is started exactly once and
   nothing else is (the acceptor's time check makes "at once" part of every accepted history) *)
(* "at stop ... stop_data processed last": in an observation accepted by the monitor no other run
   starts or ends once the run for the stop_data (put id) has started *)
Theorem C12_stop_data_last : forall id pre t post,
  stop_last id false (pre ++ OStart t id :: post) = true ->
  forall x, In x post -> ~ other_run_step id x.
Proof. exact stop_data_last. Qed.

Theorem C12_start_mode_every_event_runs : forall c xs s,
  o_mode c = MStart -> orun c ostate0 xs = Some s -> quiescent s = true ->
  forall id, cnt id (starts_of xs) = cnt id (puts_of xs) /\ (cnt id (puts_of xs) <= 1)%nat.
Proof. exact start_mode_every_event_runs. Qed.

(* non-vacuity: cancel mode, the second put cancels the first run; guard time 100 ms *)
Example C12_nonvacuous :
  let c := {| o_mode := MCancel; o_guard := 100000; o_selfcancel := [] |} in
  let xs := [OPut 0 1; OOut 0 1; OStart 0 1; OPut 50000 2; OEnd 50000 1 OCancelled;
             OResult 50000 1 OCancelled; OOut 150000 0; OOut 150000 1; OStart 150000 2;
             OEnd 250000 2 OSuccess; OResult 250000 2 OSuccess; OStop 300000; OOut 350000 0] in
  match orun c ostate0 xs with Some s => quiescent s | None => false end = true.
Proof. vm_compute. reflexivity. Qed.

(* ... and a coroutine that ends with a CancelledError of its own in 'wait' mode: reported as
   cancelled, the next event still runs *)
Example C12_selfcancel_nonvacuous :
  let c := {| o_mode := MWait; o_guard := 0; o_selfcancel := [1%nat] |} in
  let xs := [OPut 0 1; OPut 0 2; OOut 0 1; OStart 0 1; OEnd 100000 1 OCancelled; OResult 100000 1 OCancelled;
             OOut 100000 0; OOut 100000 1; OStart 100000 2; OEnd 200000 2 OSuccess; OResult 200000 2 OSuccess;
             OOut 200000 0] in
  match orun c ostate0 xs with Some s => quiescent s | None => false end = true.
Proof. vm_compute. reflexivity. Qed.

Print Assumptions C12_stop_data_last.
Print Assumptions C12_one_result_per_put.
Print Assumptions C12_accounting_invariant.
Print Assumptions C12_wait_one_at_a_time.
Print Assumptions C12_cancel_only_for_newer_event.
Print Assumptions C12_guard_time_exact.
Print Assumptions C12_wait_arrival_order.
Print Assumptions C12_wait_runs_every_event_in_order.
Print Assumptions C12_cancel_most_recent_completes.
Print Assumptions C12_output_counts_runs.
Print Assumptions C12_guard_separation.
Print Assumptions C12_start_mode_every_event_runs.
