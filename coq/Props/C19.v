From Verif Require Import Values Duration.
