(* C19 - duration strings and numbers convert consistently in both directions. *)
From Verif Require Import Values Duration DurationProofs.
Open Scope list_scope.
Open Scope string_scope.

(* timestr() is the inverse of convert() for integers, exactly *)
Theorem C19_timestr_inverse_int : forall n, (0 <= n < 2 ^ 53)%Z ->
  exists s q, timestr_int n = Ok s /\ convert s = Ok q /\ (q == inject_Z n)%Q.
Proof. exact timestr_inverse_int. Qed.

(* the documented unit arithmetic for EVERY traditional string: any subset of the units in the
   order d,h,m,s, any letter case, white space before a number, between number and unit and
   at the end, numbers of any length *)
Theorem C19_convert_unit_arith : forall gs tail,
  gs <> [] -> units_ok 0 gs = true -> all_ws tail = true -> (groups_value gs < 2 ^ 53)%Z ->
  exists q, convert (render gs tail) = Ok q /\ (q == inject_Z (groups_value gs))%Q.
Proof. exact convert_unit_arith. Qed.

Theorem C19_parse_rendered : forall gs idx acc tail f,
  units_ok idx gs = true -> all_ws tail = true -> (List.length gs < f)%nat ->
  parse_trad f (render gs tail) idx acc =
  Some (acc ++ map (fun g => (unit_index g, mkint (rg_n g))) gs)%list.
Proof. exact parse_rendered. Qed.

(* the arithmetic on the recognised groups (both formats share it) *)
Theorem C19_sum_groups_int : forall gs smallest rz,
  Forall int_group gs -> (gs <> [] \/ smallest = false) ->
  (0 <= rz)%Z -> (rz + gsum gs < 2 ^ 53)%Z ->
  exists q, sum_groups gs smallest (rz # 1) = Ok q /\ (q == inject_Z (rz + gsum gs))%Q.
Proof. exact sum_groups_int. Qed.

Theorem C19_nothing_present_rejected : forall r, sum_groups [] true r = Err EValue.
Proof. exact nothing_present_rejected. Qed.

Theorem C19_fraction_in_larger_unit_rejected : forall u x fr rest r,
  n_frac x = Some fr -> sum_groups ((u, x) :: rest) false r = Err EValue.
Proof. exact fraction_in_larger_unit_rejected. Qed.

Theorem C19_calendar_units_rejected : forall u x rest sm r,
  (4 <= u)%nat -> n_frac x = None -> Qeq_bool (to_double (num_value x)) 0 = false ->
  sum_groups ((u, x) :: rest) sm r = Err EValue.
Proof. exact calendar_units_rejected. Qed.

Theorem C19_time_period_spec :
  time_period PNone = Ok None /\
  (forall z, (z < 0)%Z -> (-(2^53) < z)%Z -> time_period (PInt z) = Ok (Some 0%Q)) /\
  (forall q, Qle_bool 0 q = false -> time_period (PFloat q) = Ok (Some 0%Q)) /\
  (forall q, Qle_bool 0 q = true -> time_period (PFloat q) = Ok (Some q)) /\
  time_period POther = Err EType.
Proof. exact time_period_spec. Qed.

(* concrete malformed inputs and the rounding boundaries named in the property (by computation) *)
Example C19_examples :
  forallb (fun s => resq_eqb (convert s) (Err EValue))
    [""; "  "; "P"; "PT"; "P1Y"; "P1M"; "1.5h30m"; "1h1d"; "p1d"; "1 2"; "1.5.5"; "5."; "1dd"] = true /\
  resq_eqb (convert "1d2h3m4.5s") (Ok (93784.5)%Q) = true /\
  resq_eqb (convert "P1DT2H3M4.5S") (Ok (93784.5)%Q) = true /\
  resq_eqb (convert " 20H15 m 10") (Ok 72910%Q) = true /\
  resq_eqb (convert "P0Y0M1D") (Ok 86400%Q) = true /\
  timestr_float (59.9996)%Q 3 = Ok "1m0.000s" /\
  timestr_approx (PyF (59.96)%Q) = Ok "1m0s" /\
  timestr_approx (PyF (0.9996)%Q) = Ok "1.00s".
Proof. vm_compute. repeat split; reflexivity. Qed.

Print Assumptions C19_timestr_inverse_int.
Print Assumptions C19_convert_unit_arith.
Print Assumptions C19_parse_rendered.
Print Assumptions C19_sum_groups_int.
Print Assumptions C19_nothing_present_rejected.
Print Assumptions C19_fraction_in_larger_unit_rejected.
Print Assumptions C19_calendar_units_rejected.
Print Assumptions C19_time_period_spec.
