(* C14 - external events enter only a running circuit and are always marked as external. *)
From Verif Require Import Values ExtEvent ExtEventProofs.
Open Scope string_scope.

Theorem C14_ready_phases : forall p, is_ready p = true <-> (p = PInitialising \/ p = PRunning).
Proof. exact ready_phases. Qed.

Theorem C14_send_iff_ready : forall p dflt v src items,
  (exists d, ext_send p dflt v src items = Delivered d) <-> (is_ready p = true /\ src <> SrcOther).
Proof. exact send_iff_ready. Qed.

Theorem C14_not_ready_refused : forall p dflt v src items,
  is_ready p = false -> ext_send p dflt v src items = Refused EInvalidState.
Proof. exact not_ready_refused. Qed.

(* for EVERY default and caller-supplied source string *)
Theorem C14_delivered_source_prefixed : forall p dflt v src items d,
  ext_send p dflt v src items = Delivered d ->
  exists s, dget d "source" = Some (VStr s) /\ has_ext_prefix s = true.
Proof. exact delivered_source_prefixed. Qed.

Theorem C14_prefixed_source_kept : forall p dflt v s items d,
  ext_send p dflt v (SrcStr s) items = Delivered d -> has_ext_prefix s = true ->
  dget d "source" = Some (VStr s).
Proof. exact delivered_source_kept. Qed.

Theorem C14_value_item : forall p dflt x src items d,
  ext_send p dflt (Some x) src items = Delivered d -> dget d "value" = Some x.
Proof. exact value_item. Qed.

Theorem C14_other_items_unchanged : forall p dflt v src items d k,
  ext_send p dflt v src items = Delivered d -> k <> "source" ->
  (k <> "value" \/ v = None) -> dget d k = dget items k.
Proof. exact other_items_unchanged. Qed.

(* no user-given block name - hence no 'source' of an internal event - starts with _ext_ *)
Theorem C14_user_name_not_ext : forall s, user_name_ok s = true -> has_ext_prefix s = false.
Proof. exact user_name_not_ext. Qed.

(* automatic names _<Class>_<n>: free of the prefix unless the CLASS name starts with ext_ *)
Theorem C14_auto_name_not_ext : forall cls n,
  String.prefix "ext_" cls = false -> (4 <= String.length cls)%nat ->
  has_ext_prefix (auto_name cls n) = false.
Proof. exact auto_name_not_ext. Qed.

(* since the fix in /repo the automatic naming refuses such names, so the statement holds
   without any hypothesis on class names *)
Theorem C14_auto_name_checked_not_ext : forall cls n s,
  auto_name_checked cls n = Ok s -> has_ext_prefix s = false.
Proof. exact auto_name_checked_not_ext. Qed.

Theorem C14_auto_name_agree_implies_monitor : forall cls n obs,
  ncase_agree (NAuto cls n obs) = true -> ncase_monitor (NAuto cls n obs) = true.
Proof. exact ncase_auto_agree_implies_monitor. Qed.

Theorem C14_agree_implies_monitor : forall c, xcase_agree c = true -> xcase_monitor c = true.
Proof. exact xcase_agree_implies_monitor. Qed.

Theorem C14_name_agree_implies_monitor : forall s acc,
  ncase_agree (NUser s acc) = true -> ncase_monitor (NUser s acc) = true.
Proof. exact ncase_user_agree_implies_monitor. Qed.

Example C14_nonvacuous :
  ext_send PRunning "_ext_" (Some (VInt 3)) (SrcStr "gui") [("x", VInt 1)]
  = Delivered [("x", VInt 1); ("value", VInt 3); ("source", VStr "_ext_gui")]
  /\ ext_send PCleaningUp "_ext_" None SrcAbsent [] = Refused EInvalidState.
Proof. vm_compute. split; reflexivity. Qed.

Print Assumptions C14_ready_phases.
Print Assumptions C14_send_iff_ready.
Print Assumptions C14_not_ready_refused.
Print Assumptions C14_delivered_source_prefixed.
Print Assumptions C14_prefixed_source_kept.
Print Assumptions C14_value_item.
Print Assumptions C14_other_items_unchanged.
Print Assumptions C14_user_name_not_ext.
Print Assumptions C14_auto_name_not_ext.
Print Assumptions C14_auto_name_checked_not_ext.
Print Assumptions C14_auto_name_agree_implies_monitor.
Print Assumptions C14_agree_implies_monitor.
Print Assumptions C14_name_agree_implies_monitor.
