(* C06 - saved state always matches the last completed event and survives a restart. *)
From Verif Require Import Values Persist PersistProofs.
Open Scope string_scope.
Open Scope list_scope.
Open Scope Z_scope.

Theorem C06_event_saves : forall cfgs s blk after c,
  nth_error cfgs blk = Some c -> nth_error (ps_persist s) blk = Some true -> p_sync c = true ->
  let s' := pstep_do cfgs s (PEvent blk true after) in
  sget (ps_store s') (p_key c) = Some after /\
  (forall k, k <> p_key c -> sget (ps_store s') k = sget (ps_store s) k) /\
  ps_stop_ts s' = ps_stop_ts s /\ ps_persist s' = ps_persist s.
Proof. exact event_saves. Qed.

Theorem C06_no_sync_no_write : forall cfgs s blk after c ok,
  nth_error cfgs blk = Some c -> p_sync c = false -> ok = true ->
  pstep_do cfgs s (PEvent blk ok after) = s.
Proof. exact no_sync_no_write. Qed.

Theorem C06_handler_error_switches_off : forall cfgs s blk after c,
  nth_error cfgs blk = Some c -> nth_error (ps_persist s) blk = Some true ->
  let s' := pstep_do cfgs s (PEvent blk false after) in
  nth_error (ps_persist s') blk = Some false /\ ps_store s' = ps_store s.
Proof. exact handler_error_switches_off. Qed.

Theorem C06_no_write_after_handler_error : forall cfgs s blk ok after,
  nth_error (ps_persist s) blk = Some false -> pstep_do cfgs s (PEvent blk ok after) = s.
Proof. exact no_write_after_handler_error. Qed.

Theorem C06_stop_writes_timestamp : forall cfgs s t states,
  ps_stop_ts (pstep_do cfgs s (PStop t states)) = Some t.
Proof. exact stop_writes_timestamp. Qed.

Theorem C06_stop_skips_disabled : forall cfgs s t states k,
  (forall i c, nth_error cfgs i = Some c -> p_key c = k -> nth_error (ps_persist s) i <> Some true) ->
  sget (ps_store (pstep_do cfgs s (PStop t states))) k = sget (ps_store s) k.
Proof. exact stop_skips_disabled. Qed.

Theorem C06_failed_start_writes_nothing : forall cfgs s, pstep_do cfgs s PFailedStart = s.
Proof. exact failed_start_writes_nothing. Qed.

Theorem C06_reserved_kept_unused_removed : forall cfgs s k,
  In k (ps_extra (check_data cfgs s)) <-> In k (ps_extra s) /\ is_reserved k = true.
Proof. exact check_data_spec. Qed.

Theorem C06_unused_block_entries_removed : forall cfgs s k,
  (forall c, In c cfgs -> p_persistent c = true -> p_key c <> k) ->
  sget (ps_store (check_data cfgs s)) k = None.
Proof. exact check_data_removes_unused. Qed.

Theorem C06_expiration_rules : forall c ts now st,
  p_persistent c = true ->
  (p_exp c = None -> b_expiry st = None -> restore_decision c ts now (Some st) = Some st) /\
  (forall e, p_exp c = Some e -> e <= 0 -> restore_decision c ts now (Some st) = None) /\
  (forall e t0, p_exp c = Some e -> 0 < e -> ts = Some t0 -> t0 + e < now ->
                restore_decision c ts now (Some st) = None) /\
  (forall e, p_exp c = Some e -> 0 < e -> ts = None -> b_expiry st = None ->
             restore_decision c ts now (Some st) = Some st) /\
  (forall e t0, p_exp c = Some e -> 0 < e -> ts = Some t0 -> now <= t0 + e -> b_expiry st = None ->
                restore_decision c ts now (Some st) = Some st).
Proof. exact expiration_rules. Qed.

Theorem C06_timer_rules : forall c ts now repr w,
  p_persistent c = true -> p_exp c = None ->
  (w <= now -> restore_decision c ts now (Some {| b_repr := repr; b_expiry := Some w |}) = None) /\
  (now < w -> restore_decision c ts now (Some {| b_repr := repr; b_expiry := Some w |})
              = Some {| b_repr := repr; b_expiry := Some w |}).
Proof. exact timer_rules. Qed.

Theorem C06_crash_restart : forall cfgs s blk after c ts now,
  nth_error cfgs blk = Some c -> nth_error (ps_persist s) blk = Some true ->
  p_sync c = true -> p_persistent c = true -> p_exp c = None ->
  (match b_expiry after with Some w => now < w | None => True end) ->
  restore_decision c ts now (sget (ps_store (pstep_do cfgs s (PEvent blk true after))) (p_key c))
  = Some after.
Proof. exact crash_restart. Qed.

Theorem C06_agree_implies_monitor : forall k, pcase_agree k = true -> pcase_monitor k = true.
Proof. exact persist_agree_implies_monitor. Qed.

Print Assumptions C06_event_saves.
Print Assumptions C06_no_sync_no_write.
Print Assumptions C06_handler_error_switches_off.
Print Assumptions C06_no_write_after_handler_error.
Print Assumptions C06_stop_writes_timestamp.
Print Assumptions C06_stop_skips_disabled.
Print Assumptions C06_failed_start_writes_nothing.
Print Assumptions C06_reserved_kept_unused_removed.
Print Assumptions C06_unused_block_entries_removed.
Print Assumptions C06_expiration_rules.
Print Assumptions C06_timer_rules.
Print Assumptions C06_crash_restart.
Print Assumptions C06_agree_implies_monitor.
