(* C18 - Repeat re-sends the latest event at the configured pace and count. *)
From Verif Require Import Values Repeat RepeatProofs RepeatProofs2.
Open Scope list_scope.
Open Scope Z_scope.

(* Every trace the model accepts - any arrival pattern, any interval and count - satisfies the
   monitor, which looks at observed steps only: each copy carries the latest matching event,
   copies of one event are numbered 1,2,3,... and come exactly `interval` apart starting at the
   event, never more than `count`, none is missing when its time has come, events of other
   types are not forwarded, nothing is sent after the stop. *)
Theorem C18_agree_implies_monitor : forall k, rcase_agree k = true -> rcase_monitor k = true.
Proof. exact repeat_agree_implies_monitor. Qed.

Theorem C18_accepted_traces_follow_the_schedule : forall c xs s last n stopped s' tend,
  Rel c s last n stopped -> rrun c s xs = Some s' ->
  r_now s' <= tend -> not_overdue s' tend = true ->
  rmon c xs last n stopped tend = true.
Proof. exact rrun_rmon. Qed.

Theorem C18_newer_event_restarts : forall c s t tag s',
  rstep_do c s (RRecv t tag true true) = Some s' ->
  r_last s' = Some tag /\ r_n s' = 0%nat /\
  r_deadline s' = (if more c 0 then Some (t + rc_interval c) else None).
Proof. exact newer_event_restarts. Qed.

Theorem C18_other_types_ignored : forall c s t tag s',
  rstep_do c s (RRecv t tag false false) = Some s' ->
  r_last s' = r_last s /\ r_n s' = r_n s /\ r_deadline s' = r_deadline s.
Proof. exact other_types_ignored. Qed.

Theorem C18_other_types_not_forwarded : forall c s t tag,
  rstep_do c s (RRecv t tag false true) = None.
Proof. exact other_types_not_forwarded. Qed.

Theorem C18_count_zero_no_copy : forall c s t tag s' t2 tag2 n,
  rc_count c = Some 0%nat -> rstep_do c s (RRecv t tag true true) = Some s' ->
  rstep_do c s' (RResend t2 tag2 n) = None.
Proof. exact count_zero_no_copy. Qed.

Theorem C18_nothing_after_stop : forall c s x, r_stopped s = true ->
  match x with RStop _ => True | _ => rstep_do c s x = None end.
Proof. exact nothing_after_stop. Qed.

(* "until 'count' repetitions have been sent": on EVERY accepted trace, of any length and with
   any number of restarts, the repeat number never exceeds count, no copy is pending once count
   copies were sent, and every single copy in the trace carries a number in 1..count *)
Theorem C18_never_exceeds_count : forall c xs s' k,
  rc_count c = Some k -> rrun c rstate0 xs = Some s' ->
  (r_n s' <= k)%nat /\ (r_n s' = k -> r_deadline s' = None).
Proof. exact repeat_never_exceeds_count. Qed.

Theorem C18_copy_number_bounded : forall c pre t tag n post s' k,
  rc_count c = Some k -> rrun c rstate0 (pre ++ RResend t tag n :: post) = Some s' -> (1 <= n <= k)%nat.
Proof. exact repeat_copy_number_bounded. Qed.

(* non-vacuity of the two: count 2, the trace with both copies is accepted, a third copy is not *)
Example C18_count_nonvacuous :
  let c := {| rc_interval := 100000; rc_count := Some 2%nat |} in
  (exists s, rrun c rstate0 [RRecv 0 1 true true; RResend 100000 1 1; RResend 200000 1 2] = Some s /\
             r_n s = 2%nat /\ r_deadline s = None) /\
  rrun c rstate0 [RRecv 0 1 true true; RResend 100000 1 1; RResend 200000 1 2; RResend 300000 1 3] = None.
Proof. split; [eexists; vm_compute; repeat split; reflexivity|vm_compute; reflexivity]. Qed.

(* non-vacuity: interval 100 ms, count 3; a newer event after the second copy restarts *)
Example C18_nonvacuous :
  let c := {| rc_interval := 100000; rc_count := Some 3%nat |} in
  let k := {| rk_cfg := c;
              rk_steps := [RRecv 0 1 true true; RResend 100000 1 1; RResend 200000 1 2;
                           RRecv 250000 2 true true; RRecv 260000 9 false false;
                           RResend 350000 2 1; RResend 450000 2 2; RResend 550000 2 3;
                           RStop 900000];
              rk_obs := {| ro_end := 1000000; ro_output := 3; ro_data_ok := true |} |} in
  rcase_agree k = true /\ rcase_monitor k = true.
Proof. vm_compute. split; reflexivity. Qed.

Print Assumptions C18_agree_implies_monitor.
Print Assumptions C18_accepted_traces_follow_the_schedule.
Print Assumptions C18_newer_event_restarts.
Print Assumptions C18_other_types_ignored.
Print Assumptions C18_other_types_not_forwarded.
Print Assumptions C18_count_zero_no_copy.
Print Assumptions C18_nothing_after_stop.
Print Assumptions C18_never_exceeds_count.
Print Assumptions C18_copy_number_bounded.
