(* C18 - Repeat re-sends the latest event at the configured pace and count. *)
From Verif Require Import Values Repeat RepeatProofs.
Open Scope list_scope.
Open Scope Z_scope.

(* Every trace the model accepts - any arrival pattern, any interval and count - satisfies the
   monitor, which looks at observed steps only: each copy carries the latest matching event,
   copies of one event are numbered 1,2,3,... and come exactly `interval` apart starting at the
   event, never more than `count`, none is missing when its time has come, events of other
   types are not forwarded, nothing is sent after the stop. *)
Theorem C18_agree_implies_monitor : forall k, rcase_agree k = true -> rcase_monitor k = true.
Proof. exact repeat_agree_implies_monitor. Qed.

Theorem C18_accepted_traces_follow_the_schedule : forall c xs s last n stopped s' tend,
  Rel c s last n stopped -> rrun c s xs = Some s' ->
  r_now s' <= tend -> not_overdue s' tend = true ->
  rmon c xs last n stopped tend = true.
Proof. exact rrun_rmon. Qed.

Theorem C18_newer_event_restarts : forall c s t tag s',
  rstep_do c s (RRecv t tag true true) = Some s' ->
  r_last s' = Some tag /\ r_n s' = 0%nat /\
  r_deadline s' = (if more c 0 then Some (t + rc_interval c) else None).
Proof. exact newer_event_restarts. Qed.

Theorem C18_other_types_ignored : forall c s t tag s',
  rstep_do c s (RRecv t tag false false) = Some s' ->
  r_last s' = r_last s /\ r_n s' = r_n s /\ r_deadline s' = r_deadline s.
Proof. exact other_types_ignored. Qed.

Theorem C18_other_types_not_forwarded : forall c s t tag,
  rstep_do c s (RRecv t tag false true) = None.
Proof. exact other_types_not_forwarded. Qed.

Theorem C18_count_zero_no_copy : forall c s t tag s' t2 tag2 n,
  rc_count c = Some 0%nat -> rstep_do c s (RRecv t tag true true) = Some s' ->
  rstep_do c s' (RResend t2 tag2 n) = None.
Proof. exact count_zero_no_copy. Qed.

Theorem C18_nothing_after_stop : forall c s x, r_stopped s = true ->
  match x with RStop _ => True | _ => rstep_do c s x = None end.
Proof. exact nothing_after_stop. Qed.

(* non-vacuity: interval 100 ms, count 3; a newer event after the second copy restarts *)
Example C18_nonvacuous :
  let c := {| rc_interval := 100000; rc_count := Some 3%nat |} in
  let k := {| rk_cfg := c;
              rk_steps := [RRecv 0 1 true true; RResend 100000 1 1; RResend 200000 1 2;
                           RRecv 250000 2 true true; RRecv 260000 9 false false;
                           RResend 350000 2 1; RResend 450000 2 2; RResend 550000 2 3;
                           RStop 900000];
              rk_obs := {| ro_end := 1000000; ro_output := 3; ro_data_ok := true |} |} in
  rcase_agree k = true /\ rcase_monitor k = true.
Proof. vm_compute. split; reflexivity. Qed.

Print Assumptions C18_agree_implies_monitor.
Print Assumptions C18_accepted_traces_follow_the_schedule.
Print Assumptions C18_newer_event_restarts.
Print Assumptions C18_other_types_ignored.
Print Assumptions C18_other_types_not_forwarded.
Print Assumptions C18_count_zero_no_copy.
Print Assumptions C18_nothing_after_stop.
