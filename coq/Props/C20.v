(* C20 - Counter arithmetic is exact and stays within the modulo range.
   Only statements, each closed by an exact reference to Proofs/. *)
From Verif Require Import Values Counter CounterProofs.
Open Scope Q_scope.

(* For every configuration without a zero modulo and EVERY event list: the output equals
   the plain reference accumulator (never reduced on the way) reduced once. *)
Theorem C20_reduction_commutes : forall c evs out acc,
  mod_ok (cmod c) -> out == setmod (cmod c) acc ->
  cfinal c out evs == setmod (cmod c) (fold_left (acc_step (cinit c)) evs acc).
Proof. exact counter_reduction_commutes. Qed.

Theorem C20_in_range : forall c mm evs out,
  cmod c = Some mm -> 0 < mm -> (0 <= out /\ out < mm) ->
  Forall (fun xo => 0 <= snd xo /\ snd xo < mm) (crun c out evs).
Proof. exact counter_in_range. Qed.

Theorem C20_start_reduced : forall c r mm,
  cmod c = Some mm -> 0 < mm -> 0 <= cstart c r /\ cstart c r < mm.
Proof. exact counter_start_reduced. Qed.

Theorem C20_event_returns_output : forall c out e q o, cstep c out e = (Ok q, o) -> q = o.
Proof. exact counter_event_returns_output. Qed.

Theorem C20_faulty_event_no_change : forall c out e k o,
  cstep c out e = (Err k, o) ->
  o = out /\ (e = Put None /\ k = EParam \/ e = Unknown /\ k = EUnknownEvent).
Proof. exact counter_faulty_event_no_change. Qed.

Theorem C20_modulo_zero_refused : forall m i, m == 0 -> ccreate (Some m) i = Err EValue.
Proof. exact counter_modulo_zero_refused. Qed.

(* The link used by the correspondence check: a run of the implementation on which the
   model agrees satisfies the monitor, which speaks about observed values only. *)
Theorem C20_agree_implies_monitor : forall k, case_agree k = true -> case_monitor k = true.
Proof. exact counter_agree_implies_monitor. Qed.

(* non-vacuity: a concrete case with modulo 7, negative amounts and a faulty put *)
Example C20_nonvacuous :
  let k := {| k_mod := Some 7; k_init := 30 # 1; k_restored := None; k_created := true;
              k_start := 2;
              k_evs := [Inc None; Dec (Some 10); Put None; Put (Some (-1)); Reset];
              k_obs := [(OVal 3, 3); (OVal 0, 0); (OErr EParam, 0); (OVal 6, 6); (OVal 2, 2)] |} in
  case_agree k = true /\ case_monitor k = true.
Proof. vm_compute. split; reflexivity. Qed.

Print Assumptions C20_reduction_commutes.
Print Assumptions C20_in_range.
Print Assumptions C20_start_reduced.
Print Assumptions C20_event_returns_output.
Print Assumptions C20_faulty_event_no_change.
Print Assumptions C20_modulo_zero_refused.
Print Assumptions C20_agree_implies_monitor.
