(* C20 - Counter arithmetic is exact and stays within the modulo range.
   Only statements, each closed by an exact reference to Proofs/. *)
From Verif Require Import Values Counter CounterProofs.
From Coq Require Import Permutation.
Open Scope Q_scope.

(* For every configuration without a zero modulo and EVERY event list: the output equals
   the plain reference accumulator (never reduced on the way) reduced once. *)
Theorem C20_reduction_commutes : forall c evs out acc,
  mod_ok (cmod c) -> out == setmod (cmod c) acc ->
  cfinal c out evs == setmod (cmod c) (fold_left (acc_step (cinit c)) evs acc).
Proof. exact counter_reduction_commutes. Qed.

Theorem C20_in_range : forall c mm evs out,
  cmod c = Some mm -> 0 < mm -> (0 <= out /\ out < mm) ->
  Forall (fun xo => 0 <= snd xo /\ snd xo < mm) (crun c out evs).
Proof. exact counter_in_range. Qed.

Theorem C20_start_reduced : forall c r mm,
  cmod c = Some mm -> 0 < mm -> 0 <= cstart c r /\ cstart c r < mm.
Proof. exact counter_start_reduced. Qed.

Theorem C20_event_returns_output : forall c out e q o, cstep c out e = (Ok q, o) -> q = o.
Proof. exact counter_event_returns_output. Qed.

Theorem C20_faulty_event_no_change : forall c out e k o,
  cstep c out e = (Err k, o) ->
  o = out /\ (e = Put None /\ k = EParam \/ e = Unknown /\ k = EUnknownEvent).
Proof. exact counter_faulty_event_no_change. Qed.

Theorem C20_modulo_zero_refused : forall m i, m == 0 -> ccreate (Some m) i = Err EValue.
Proof. exact counter_modulo_zero_refused. Qed.

(* The link used by the correspondence check: a run of the implementation on which the
   model agrees satisfies the monitor, which speaks about observed values only. *)
Theorem C20_agree_implies_monitor : forall k, case_agree k = true -> case_monitor k = true.
Proof. exact counter_agree_implies_monitor. Qed.

(* 'reset' yields exactly the start-up value (the reduced initdef) and returns it. *)
Theorem C20_reset_is_start : forall c out, cstep c out Reset = (Ok (cstart c None), cstart c None).
Proof. exact counter_reset_is_start. Qed.

(* inc then dec (or dec then inc) by the same amount restores every reduced output. *)
Theorem C20_inc_dec_cancel : forall c out a,
  mod_ok (cmod c) -> out == setmod (cmod c) out ->
  cfinal c out [Inc a; Dec a] == out /\ cfinal c out [Dec a; Inc a] == out.
Proof. exact counter_inc_dec_cancel. Qed.

(* ... and every output the counter produces is such a reduced value. *)
Theorem C20_output_reduced : forall c mm v,
  cmod c = Some mm -> ~ mm == 0 -> setmod (cmod c) v == setmod (cmod c) (setmod (cmod c) v).
Proof. exact counter_output_reduced. Qed.

(* A batch of inc/dec events of ANY length adds the plain sum of its signed amounts,
   reduced once; hence the order inside such a batch is irrelevant. *)
Theorem C20_incdec_sum : forall c evs out acc,
  mod_ok (cmod c) -> out == setmod (cmod c) acc -> forallb incdec evs = true ->
  cfinal c out evs == setmod (cmod c) (acc + fold_right (fun e s => delta e + s) 0 evs).
Proof. exact counter_incdec_sum. Qed.

Theorem C20_incdec_order_irrelevant : forall c evs evs' out acc,
  mod_ok (cmod c) -> out == setmod (cmod c) acc -> forallb incdec evs = true ->
  Permutation evs evs' -> cfinal c out evs == cfinal c out evs'.
Proof. exact counter_incdec_order_irrelevant. Qed.

(* non-vacuity of the two above: modulo 7, out = 5 is reduced, a 3-event batch permuted *)
Example C20_batch_nonvacuous :
  let c := {| cmod := Some 7; cinit := 0 |} in
  Qeq_bool 5 (setmod (cmod c) 5) = true /\
  Qeq_bool (cfinal c 5 [Inc (Some 4); Dec None; Inc (Some (9 # 2))])
           (cfinal c 5 [Dec None; Inc (Some (9 # 2)); Inc (Some 4)]) = true.
Proof. vm_compute. split; reflexivity. Qed.

(* non-vacuity: a concrete case with modulo 7, negative amounts and a faulty put *)
Example C20_nonvacuous :
  let k := {| k_mod := Some 7; k_init := 30 # 1; k_restored := None; k_created := true;
              k_start := 2;
              k_evs := [Inc None; Dec (Some 10); Put None; Put (Some (-1)); Reset];
              k_obs := [(OVal 3, 3); (OVal 0, 0); (OErr EParam, 0); (OVal 6, 6); (OVal 2, 2)] |} in
  case_agree k = true /\ case_monitor k = true.
Proof. vm_compute. split; reflexivity. Qed.

Print Assumptions C20_reduction_commutes.
Print Assumptions C20_in_range.
Print Assumptions C20_start_reduced.
Print Assumptions C20_event_returns_output.
Print Assumptions C20_faulty_event_no_change.
Print Assumptions C20_modulo_zero_refused.
Print Assumptions C20_agree_implies_monitor.
Print Assumptions C20_reset_is_start.
Print Assumptions C20_inc_dec_cancel.
Print Assumptions C20_output_reduced.
Print Assumptions C20_incdec_sum.
Print Assumptions C20_incdec_order_irrelevant.
