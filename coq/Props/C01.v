(* C01 - combinational outputs agree with their inputs whenever the circuit is idle. *)
From Verif Require Import Values Sim SimProofs LogicLawsProofs.
Open Scope list_scope.
Open Scope Q_scope.

(* For EVERY circuit (cyclic ones included: if it goes idle, it is consistent), every number
   and order of set_output steps - also interleaved with evaluations, i.e. events sent by
   combinational blocks while the circuit is settling - and every choice of the block to
   evaluate next: at every idle point every combinational block's output equals its
   function of the current outputs, and the observed snapshot agrees with those outputs. *)
Theorem C01_idle_consistent : forall c pre snap s',
  circ_wf c = true -> run c init_sim (pre ++ [SIdle snap]) = Ok s' ->
  (forall b, consistent c (so s') b = true) /\
  snapshot_ok (so s') 0%nat snap = true /\ is_idle s' = true.
Proof. exact idle_consistent. Qed.

(* the invariant behind it, for every reachable state *)
Theorem C01_invariant : forall c xs s', circ_wf c = true -> run c init_sim xs = Ok s' -> Inv c s'.
Proof. intros c xs s' Hwf H. eapply run_inv; [exact Hwf|apply inv_init|exact H]. Qed.

(* the library blocks compute their documented functions *)
Theorem C01_not : forall own x, apply_fun FNot own [("_"%string, VG [x])] = Ok (VBool (negb (truthy x))).
Proof. exact not_spec. Qed.
Theorem C01_and : forall own l, apply_fun FAnd own [("_"%string, VG l)] = Ok (VBool (forallb truthy l)).
Proof. exact and_spec. Qed.
Theorem C01_or : forall own l, apply_fun FOr own [("_"%string, VG l)] = Ok (VBool (existsb truthy l)).
Proof. exact or_spec. Qed.
Theorem C01_xor : forall own l,
  apply_fun FXor own [("_"%string, VG l)] = Ok (VBool (Nat.odd (List.length (filter truthy l)))).
Proof. exact xor_spec. Qed.
(* composition laws (any number of inputs, any values): wiring Not after And equals Or over
   the negated inputs and vice versa; Not after Not is the truth value; Xor over a
   concatenation of input groups is the xor of the groups *)
Theorem C01_not_and_is_or_not : forall own l,
  apply_fun FNot own [("_"%string, VG [VBool (forallb truthy l)])]
  = apply_fun FOr own [("_"%string, VG (map bnot l))].
Proof. exact not_and_is_or_not. Qed.
Theorem C01_not_or_is_and_not : forall own l,
  apply_fun FNot own [("_"%string, VG [VBool (existsb truthy l)])]
  = apply_fun FAnd own [("_"%string, VG (map bnot l))].
Proof. exact not_or_is_and_not. Qed.
Theorem C01_not_not_is_truth : forall own x,
  apply_fun FNot own [("_"%string, VG [bnot x])] = Ok (VBool (truthy x)).
Proof. exact not_not_is_truth. Qed.
Theorem C01_xor_app : forall own l1 l2,
  apply_fun FXor own [("_"%string, VG (l1 ++ l2))]
  = Ok (VBool (xorb (Nat.odd (List.length (filter truthy l1))) (Nat.odd (List.length (filter truthy l2))))).
Proof. exact xor_app. Qed.
Theorem C01_override : forall own null i o,
  apply_fun (FOverride null) own [("input"%string, VS i); ("override"%string, VS o)]
  = Ok (if py_eq o null then i else o).
Proof. exact override_spec. Qed.
Theorem C01_compare : forall lo hi own x q, lo <= hi -> num_of x = Some q ->
  exists r, apply_fun (FCompare lo hi) own [("_"%string, VG [x])] = Ok (VBool r) /\
    (hi <= q -> r = true) /\ (q < lo -> r = false) /\
    (lo <= q -> q < hi -> own <> VUndef -> r = truthy own).
Proof. exact compare_spec. Qed.
Theorem C01_compare_fixpoint : forall lo hi own q, lo <= hi ->
  Qle_bool (compare_thr lo hi (VBool (Qle_bool (compare_thr lo hi own) q))) q
  = Qle_bool (compare_thr lo hi own) q.
Proof. exact compare_fixpoint. Qed.

(* non-vacuity: reconvergent fan-out; two sources change in one burst; accepted and idle *)
Example C01_nonvacuous :
  let c := [SB; SB; CB FAnd [("_"%string, IGroup [RBlk 0; RBlk 1])];
            CB FNot [("_"%string, IGroup [RBlk 2])];
            CB FXor [("_"%string, IGroup [RBlk 2; RBlk 3; RBlk 0])]] in
  circ_wf c = true /\
  match run c init_sim
    [SSet 0 (VBool false); SSet 1 (VBool true);
     SEval 2 (VBool false); SEval 3 (VBool true); SEval 4 (VBool true);
     SIdle [VBool false; VBool true; VBool false; VBool true; VBool true];
     SSet 0 (VBool true); SSet 1 (VBool true);
     SEval 4 (VBool false); SEval 2 (VBool true); SEval 3 (VBool false); SEval 4 (VBool false);
     SIdle [VBool true; VBool true; VBool true; VBool false; VBool false]]
  with Ok s => is_idle s | Err _ => false end = true.
Proof. vm_compute. split; reflexivity. Qed.

Print Assumptions C01_idle_consistent.
Print Assumptions C01_invariant.
Print Assumptions C01_not.
Print Assumptions C01_and.
Print Assumptions C01_or.
Print Assumptions C01_xor.
Print Assumptions C01_override.
Print Assumptions C01_compare.
Print Assumptions C01_compare_fixpoint.
Print Assumptions C01_not_and_is_or_not.
Print Assumptions C01_not_or_is_and_not.
Print Assumptions C01_not_not_is_truth.
Print Assumptions C01_xor_app.
