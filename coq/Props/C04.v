(* C04 - a timed state yields its timed event exactly once, on time, unless left earlier. *)
From Verif Require Import Values Fsm Timers TimersProofs.
Open Scope string_scope.
Open Scope list_scope.
Open Scope Z_scope.

Theorem C04_eff_duration_precedence : forall d x ev_dur,
  (ev_dur <> DNoneV -> eff_duration d x ev_dur = ev_dur) /\
  (ev_dur = DNoneV -> forall i, assoc x (t_inst_dur d) = Some i -> i <> DNoneV ->
     eff_duration d x ev_dur = i) /\
  (ev_dur = DNoneV -> (assoc x (t_inst_dur d) = None \/ assoc x (t_inst_dur d) = Some DNoneV) ->
     eff_duration d x ev_dur = match assoc x (t_class_dur d) with Some c => c | None => DNoneV end).
Proof. exact eff_duration_precedence. Qed.

(* for EVERY interleaving of external events, timer expirations and stops the model accepts: *)
Theorem C04_at_most_one_pending : forall d xs s,
  trun d tstate0 xs = Some s -> (List.length (live_handles s) <= 1)%nat.
Proof. exact at_most_one_pending. Qed.

Theorem C04_pending_is_active : forall d xs s h,
  trun d tstate0 xs = Some s -> In h (live_handles s) ->
  ts_active s = Some (h_id h) /\ ts_now s <= h_when h /\ expiry_of s = Some (h_when h).
Proof. exact pending_is_active. Qed.

(* a timed event that is delivered belongs to the current occupancy of the state and is
   delivered exactly at its time: leaving or re-entering the state cancels the pending timer *)
Theorem C04_fired_is_current : forall d xs s t id s',
  trun d tstate0 xs = Some s -> tstep_do d s (TFire t id) = Some s' ->
  ts_active s = Some id /\ exists h, In h (live_handles s) /\ h_id h = id /\ h_when h = t.
Proof. exact fired_is_current. Qed.

Theorem C04_rejected_timed_event : forall d xs s t id cur tev,
  trun d tstate0 xs = Some s -> ts_state s = Some cur ->
  assoc cur (fd_timed (t_fsm d)) = Some tev ->
  (exists s0, tstep_do d s (TFire t id) = Some s0) ->
  target d (set_handles (advance s t) (kill id (ts_handles s))) tev = Ok None ->
  exists s', tstep_do d s (TFire t id) = Some s' /\
             ts_state s' = Some cur /\ live_handles s' = [] /\ expiry_of s' = None.
Proof. exact rejected_timed_event. Qed.

Theorem C04_no_pending_after_stop : forall d xs s t s',
  trun d tstate0 xs = Some s -> tstep_do d s (TStop t) = Some s' -> live_handles s' = [].
Proof. exact no_pending_after_stop. Qed.

Theorem C04_no_fire_after_stop : forall d xs s t s' t2 id,
  trun d tstate0 xs = Some s -> tstep_do d s (TStop t) = Some s' ->
  tstep_do d s' (TFire t2 id) = None.
Proof. exact no_fire_after_stop. Qed.

(* leaving a state can fail without stopping the simulation (an on_exit event whose destination does
   not know the event type): the exit actions run BEFORE the timer is stopped, so the FSM stays in
   its state with everything - the pending timer included - untouched *)
Theorem C04_failed_exit_keeps_timer : forall d s e dur nxt,
  target d s e = Ok (Some nxt) -> leaving_fails d s = true ->
  do_event d s e dur = (s, Err EUnknownEvent).
Proof. exact failed_exit_keeps_timer. Qed.

Theorem C04_agree_implies_monitor : forall k, tcase_agree k = true -> tcase_monitor k = true.
Proof. exact timers_agree_implies_monitor. Qed.

Print Assumptions C04_eff_duration_precedence.
Print Assumptions C04_at_most_one_pending.
Print Assumptions C04_pending_is_active.
Print Assumptions C04_fired_is_current.
Print Assumptions C04_rejected_timed_event.
Print Assumptions C04_no_pending_after_stop.
Print Assumptions C04_no_fire_after_stop.
Print Assumptions C04_agree_implies_monitor.
Print Assumptions C04_failed_exit_keeps_timer.
