(* C10 - a circuit that cannot settle is stopped with an error; one that settles is not. *)
From Verif Require Import Values Sim SimProofs SimPathsProofs.
Open Scope list_scope.

(* Bounded work: no accepted schedule - any network, cyclic or not, any feedback through
   events - contains more than eval_limit = 3 * |blocks| evaluations in one burst ... *)
Theorem C10_burst_eval_bound : forall c xs s',
  run c init_sim xs = Ok s' -> (evals_since_idle xs 0 <= eval_limit c)%nat.
Proof. exact burst_eval_bound. Qed.

(* ... and the instability error is raised exactly at the (limit+1)-th attempt *)
Theorem C10_unstable_only_at_limit : forall c pre s',
  run c init_sim (pre ++ [SUnstable]) = Ok s' -> evals_since_idle pre 0 = eval_limit c.
Proof. exact unstable_only_at_limit. Qed.

(* whenever the simulator does go idle the network is in a consistent state (C01) *)
Theorem C10_idle_consistent : forall c pre snap s',
  circ_wf c = true -> run c init_sim (pre ++ [SIdle snap]) = Ok s' ->
  (forall b, consistent c (so s') b = true) /\
  snapshot_ok (so s') 0%nat snap = true /\ is_idle s' = true.
Proof. exact idle_consistent. Qed.

(* every non-idle running state has an enabled step: a burst cannot get stuck, it ends
   idle or with the instability error *)
Theorem C10_burst_progress : forall c s i,
  In i (sE (drain c (start_running c s))) -> circ_calc_ok c (so (start_running c s)) i ->
  (exists v s', do_step c s (SEval i v) = Ok s') \/ (exists s', do_step c s SUnstable = Ok s').
Proof. exact burst_progress. Qed.

(* ... and one that settles is NOT stopped: on a topologically numbered network whose path
   count fits into the limit (few_paths, the class the monitor exempts), a burst that consists of
   set_output calls followed by evaluations only (no feedback into the sources) can never be
   ended by the instability error - whatever the evaluation order was.  The proof bounds the
   evaluations of block b by the number of paths ending in b (ghost counters, induction along
   the numbering). *)
Theorem C10_acyclic_no_false_alarm : forall c s sets evals s',
  topo c = true -> (path_sum c <= eval_limit c)%nat -> (0 < nblocks c)%nat ->
  burst_start c s -> all_sets sets = true -> all_evals evals = true ->
  run c s (sets ++ evals) = Ok s' ->
  do_step c s' SUnstable = Err EOther.
Proof. exact clean_burst_no_false_alarm. Qed.

(* bursts start at the beginning and after every idle step *)
Theorem C10_burst_starts : forall c, burst_start c init_sim /\
  forall s snap s', do_step c s (SIdle snap) = Ok s' -> burst_start c s'.
Proof. intros c. split; [apply burst_start_init|apply burst_start_idle]. Qed.

(* the per-block bound behind it: in such a burst block b is evaluated at most P c b times,
   P c b = 1 + the sum of P over its combinational predecessors = number of paths ending in b *)
Theorem C10_path_bound : forall c s ev, topo c = true -> J c s ev ->
  forall b, (b < nblocks c)%nat -> (ev b + ind (mem b (sE s)) <= P c b)%nat.
Proof. exact J_bound. Qed.

(* non-vacuity: a ring of three inverters is stopped after exactly 3*3 evaluations *)
Example C10_nonvacuous :
  let c := [CB FNot [("_"%string, IGroup [RBlk 2])]; CB FNot [("_"%string, IGroup [RBlk 0])];
            CB FNot [("_"%string, IGroup [RBlk 1])]] in
  match run c init_sim
    [SEval 0 (VBool true); SEval 1 (VBool false); SEval 2 (VBool true);
     SEval 0 (VBool false); SEval 1 (VBool true); SEval 2 (VBool false);
     SEval 0 (VBool true); SEval 1 (VBool false); SEval 2 (VBool true); SUnstable]
  with Ok _ => true | Err _ => false end = true
  /\ few_paths c = false.
Proof. vm_compute. split; reflexivity. Qed.

Print Assumptions C10_burst_eval_bound.
Print Assumptions C10_unstable_only_at_limit.
Print Assumptions C10_idle_consistent.
Print Assumptions C10_burst_progress.
Print Assumptions C10_acyclic_no_false_alarm.
Print Assumptions C10_burst_starts.
Print Assumptions C10_path_bound.
