(* C03 - an FSM follows its transition table and runs its actions in the documented order. *)
From Verif Require Import Values Fsm FsmProofs.
Open Scope string_scope.
Open Scope list_scope.
Open Scope nat_scope.

Theorem C03_lookup_precedence : forall d ev cur,
  next_state d ev cur =
  match tlookup (fd_trans d) ev (Some cur) with
  | Some (Some x) => Some x
  | Some None => None
  | None => match tlookup (fd_trans d) ev None with Some (Some x) => Some x | _ => None end
  end.
Proof. exact lookup_precedence. Qed.

Theorem C03_goto_bypasses_table : forall d i s x t,
  str_mem x (fd_states d) = true -> resolve_event d i s (EvGoto x) t = (s, Ok (Some x)).
Proof. exact goto_bypasses_table. Qed.

Theorem C03_table_event_resolution : forall d i s ev t cur,
  str_mem ev (fd_events d) = true -> f_state s = Some cur ->
  resolve_event d i s (EvName ev) t =
  match next_state d ev cur with
  | None => (st_log s (if i_on_notrans i then [LNoTrans ev cur] else []), Ok None)
  | Some nxt =>
      if initialized s
      then (st_log s (fst (cond_log i ev t)), Ok (if snd (cond_log i ev t) then Some nxt else None))
      else (s, Ok (Some nxt))
  end.
Proof. exact table_event_resolution. Qed.

Theorem C03_all_conditions_must_hold : forall i ev t,
  snd (cond_log i ev t) = true <->
  (forall r, assoc ev (i_cond_inst i) = Some r -> r = true) /\
  (forall r, assoc ev (i_cond_meth i) = Some r -> r = true).
Proof. exact cond_all_must_hold. Qed.

Theorem C03_reject_frame : forall d i s e t s1,
  resolve_event d i s e t = (s1, Ok None) ->
  fsm_event d i s e t = (s1, Ok false) /\
  exists l, same_but_log s s1 l /\ forallb pre_entry l = true.
Proof. exact reject_frame. Qed.

Theorem C03_unknown_event_frame : forall d i s ev t,
  str_mem ev (fd_events d) = false -> fsm_event d i s (EvName ev) t = (s, Err EUnknownEvent).
Proof. exact unknown_event_frame. Qed.

Theorem C03_transition_log : forall d i s e t s1 cur nxt s2 s3 k,
  initialized s = true -> f_state s = Some cur ->
  resolve_event d i s e t = (s1, Ok (Some nxt)) ->
  run_exit i s1 cur t = (s2, None) -> str_mem cur (i_on_exit_bad i) = false -> f_next s2 = None ->
  run_enter d i (st_state (st_log s2 (if str_mem cur (i_on_exit i) then [LOnExit cur (f_out s2)] else [])) nxt)
            nxt t = (s3, None) ->
  f_next s3 = None -> assoc nxt (fd_timed d) = None -> chain_limit d = S k ->
  f_state s3 = Some nxt ->
  exists final, fsm_event d i s e t = (final, Ok true) /\
    f_state final = Some nxt /\ f_out final = (if py_eq (f_out s3) (calc_out i s3 nxt) then f_out s3 else calc_out i s3 nxt) /\
    f_log final = f_log s3
      ++ (if py_eq (f_out s3) (calc_out i s3 nxt) then [] else [LOut (f_out s3) (calc_out i s3 nxt)])
      ++ (if str_mem nxt (i_on_enter i)
          then [LOnEnter nxt (if py_eq (f_out s3) (calc_out i s3 nxt) then f_out s3 else calc_out i s3 nxt)] else []).
Proof. exact transition_log. Qed.

Theorem C03_chain_invisible : forall n d i s vis nxt s1 r,
  chain n d i s vis nxt = (s1, r) -> log_ext s s1 inner_entry.
Proof. exact chain_invisible. Qed.

Theorem C03_exit_action_sees_its_event : forall i s x vis s1 r,
  run_exit i s x vis = (s1, r) ->
  exists l, f_log s1 = f_log s ++ l /\
    forallb (fun e => match e with LExit y _ t => String.eqb y x && tag_eqb t vis | _ => false end) l = true.
Proof. exact run_exit_tags. Qed.

Theorem C03_chained_event_data_becomes_visible : forall k d i s vis nxt s2 t nx,
  run_enter d i (st_state s nxt) nxt vis = (s2, None) -> f_next s2 = Some (t, nx) ->
  chain (S (S k)) d i s vis nxt =
  match run_exit i (st_next s2 None) nxt t with
  | (s4, Some e) => (s4, Some e)
  | (s4, None) => chain (S k) d i s4 t nx
  end.
Proof. exact chain_passes_chained_data. Qed.

Theorem C03_chain_twice_error : forall d i s e t p,
  f_next s = Some p -> (exists nxt s1, resolve_event d i s e t = (s1, Ok (Some nxt))) ->
  exists s1, nested_event d i s e t = (s1, Err EHandler).
Proof. exact chain_twice_error. Qed.

Theorem C03_chain_limit_error : forall d i s vis nxt, chain 0 d i s vis nxt = (s, Some EHandler).
Proof. exact chain_limit_error. Qed.

Print Assumptions C03_lookup_precedence.
Print Assumptions C03_goto_bypasses_table.
Print Assumptions C03_table_event_resolution.
Print Assumptions C03_all_conditions_must_hold.
Print Assumptions C03_reject_frame.
Print Assumptions C03_unknown_event_frame.
Print Assumptions C03_transition_log.
Print Assumptions C03_chain_invisible.
Print Assumptions C03_exit_action_sees_its_event.
Print Assumptions C03_chained_event_data_becomes_visible.
Print Assumptions C03_chain_twice_error.
Print Assumptions C03_chain_limit_error.
