(* Model of edzed/blocklib/timedate.py (TimeDate.recalc, TimeSpan.recalc, the alarm points they
   register) and of the scheduling arithmetic of edzed/blocklib/cron.py (timetable, bisect_left,
   sleeptime).  Built on Interval.v.  Definitions only. *)
From Verif Require Export Interval.
Open Scope list_scope.
Open Scope Z_scope.

(* a clock reading: [y; m; d; h; mi; s; us] and the ISO weekday 1..7 *)
Record reading := { r_dt : list Z; r_wd : Z }.
Definition r_date (r : reading) : list Z := match r_dt r with y :: m :: d :: _ => [m; d] | _ => [] end.
Definition r_tod (r : reading) : list Z := match r_dt r with _ :: _ :: _ :: t => t | _ => [] end.

Inductive bcfg :=
  | CTimeDate (times dates : option (list range)) (wds : option (list Z))
  | CTimeSpan (span : list range).

Definition is_some {A} (o : option A) : bool := match o with Some _ => true | None => false end.

(* TimeDate.recalc / TimeSpan.recalc *)
Definition pred (c : bcfg) (r : reading) : bool :=
  match c with
  | CTimeDate times dates wds =>
      (is_some times || is_some dates || is_some wds) &&
      match times with None => true | Some t => contains KTime t (r_tod r) end &&
      match dates with None => true | Some d => contains KDate d (r_date r) end &&
      match wds with None => true | Some w => existsb (Z.eqb (r_wd r)) w end
  | CTimeSpan span => contains KDateTime span (r_dt r)
  end.

(* the times of day at which the block asks cron for a recalculation *)
Definition midnight : list Z := [0; 0; 0; 0].
Definition date_of (ep : list Z) : list Z := firstn 3 ep.
Definition tod_of (ep : list Z) : list Z := skipn 3 ep.
Definition alarm_points (c : bcfg) (cfg_time : reading) : list (list Z) :=
  match c with
  | CTimeDate times _ _ =>
      match times with Some t => flat_map (fun r => [fst r; snd r]) t | None => [] end ++ [midnight]
  | CTimeSpan span =>
      (* endpoints dated today or later, seen from the reading taken when it was configured *)
      flat_map (fun r => (if lex_lt (date_of (fst r)) (date_of (r_dt cfg_time)) then [] else [tod_of (fst r)]) ++
                         (if lex_lt (date_of (snd r)) (date_of (r_dt cfg_time)) then [] else [tod_of (snd r)])) span
  end.

(* ---------- cron arithmetic ---------- *)
Definition hours24 : list (list Z) := map (fun h => [Z.of_nat h; 0; 0; 0]) (seq 0 24).

Fixpoint ins_tod (x : list Z) (l : list (list Z)) : list (list Z) :=      (* sorted set insert *)
  match l with
  | [] => [x]
  | y :: r => if lex_lt x y then x :: l else if list_eqb x y then l else y :: ins_tod x r
  end.
Definition timetable (alarms : list (list Z)) : list (list Z) :=
  fold_left (fun acc x => ins_tod x acc) (hours24 ++ alarms) [].

Fixpoint bisect_left (tt : list (list Z)) (x : list Z) : nat :=
  match tt with
  | [] => O
  | y :: r => if lex_lt y x then S (bisect_left r x) else O
  end.

(* sleeptime in microseconds: forward distance to the wake-up, negative when it is over; the
   only day wrap considered is hour 23 -> hour 0 *)
Definition sleeptime_us (now wakeup : list Z) : Z :=
  let d := time_key wakeup - time_key now in
  match now, wakeup with
  | h :: _, w :: _ => if (h =? 23) && (w =? 0) then d + day_us else d
  | _, _ => d
  end.

(* one iteration of Cron._maintask as seen in its debug log: the reading, whether the index was
   recomputed (start, reload, reset), the chosen wake-up *)
Record citer := {
  ci_fresh : bool;
  ci_now : list Z;               (* time of day of the reading *)
  ci_alarms : list (list Z);     (* keys of Cron._alarms at that moment *)
  ci_wakeup : list Z;
  ci_sleep_us : Z }.             (* the sleeptime passed to the debug log, in microseconds *)

Definition list_lists_eqb (a b : list (list Z)) : bool :=
  (fix go a b := match a, b with
                 | [], [] => true
                 | x :: a', y :: b' => list_eqb x y && go a' b'
                 | _, _ => false end) a b.

(* replay: the index is bisect_left after a reload/reset, else the previous one + 1 *)
Fixpoint cron_replay (its : list citer) (idx : option nat) : bool :=
  match its with
  | [] => true
  | it :: r =>
      let tt := timetable (ci_alarms it) in
      let n := List.length tt in
      let i := match idx, ci_fresh it with
               | Some k, false => Nat.modulo k n
               | _, _ => Nat.modulo (bisect_left tt (ci_now it)) n
               end in
      list_eqb (nth i tt []) (ci_wakeup it) &&
      (let st := sleeptime_us (ci_now it) (ci_wakeup it) in
       Z.abs (st - ci_sleep_us it) <=? 1) &&
      cron_replay r (Some (S i))
  end.

(* ---------- correspondence and monitor ---------- *)
(* configurations are kept in a table and referred to by index *)
Record recalc_obs := { ro_cfg : nat; ro_now : reading; ro_out : bool }.

Record sample := {
  sm_abs : Z;                  (* wall clock, microseconds *)
  sm_now : reading;
  sm_cfg : nat;
  sm_bounds_abs : list Z;      (* wall-clock instants (us) of the block's boundaries near this sample *)
  sm_out : bool }.

Record wcase := {
  wc_cfgs : list bcfg;
  wc_recalcs : list recalc_obs;
  wc_cron : list (list citer);        (* one log per scheduler block *)
  wc_sched : list (list (list Z) * (nat * reading));   (* after each (re)configuration: the block's
                                         registered times of day; its configuration and the reading used *)
  wc_samples : list sample;
  wc_jumps : list Z;                  (* wall-clock instants (us) right after each forward jump *)
  wc_error : bool }.                  (* the simulation ended with an error *)

Definition cfg_of (c : wcase) (i : nat) : bcfg := nth i (wc_cfgs c) (CTimeSpan []).
Definition sort_tods (l : list (list Z)) : list (list Z) := fold_left (fun acc x => ins_tod x acc) l [].

Definition wcase_agree (c : wcase) : bool :=
  forallb (fun o => Bool.eqb (pred (cfg_of c (ro_cfg o)) (ro_now o)) (ro_out o)) (wc_recalcs c) &&
  forallb (fun l => cron_replay l None) (wc_cron c) &&
  forallb (fun p => list_lists_eqb (sort_tods (fst p))
                                   (sort_tods (alarm_points (cfg_of c (fst (snd p))) (snd (snd p)))))
          (wc_sched c).

Definition lambda_us : Z := 5000.          (* "a few milliseconds" *)
Definition hour_us : Z := 3600000000.

Definition sample_exempt (c : wcase) (s : sample) : bool :=
  existsb (fun b => (b <=? sm_abs s) && (sm_abs s <=? b + lambda_us)) (sm_bounds_abs s) ||
  existsb (fun j => (j <=? sm_abs s) && (sm_abs s <=? j + hour_us + lambda_us)) (wc_jumps c).

Definition wcase_monitor (c : wcase) : bool :=
  negb (wc_error c) &&
  forallb (fun s => sample_exempt c s || Bool.eqb (pred (cfg_of c (sm_cfg s)) (sm_now s)) (sm_out s))
          (wc_samples c).

Definition w_verdict (c : wcase) : ascii :=
  (if wcase_monitor c then (if wcase_agree c then "A" else "R") else "V")%char.
