(* Model of ExtEvent (edzed/block.py:801-861), Circuit.is_ready and the block naming rule
   (edzed/block.py:157-168).  Definitions only. *)
From Verif Require Export Values.
Open Scope string_scope.

Definition ext_prefix : string := "_ext_".
Definition has_ext_prefix (s : string) : bool := String.prefix ext_prefix s.
Definition add_ext_prefix (s : string) : string :=
  if has_ext_prefix s then s else ext_prefix ++ s.

(* life cycle of the circuit as far as is_ready is concerned *)
Inductive phase :=
| PNotStarted      (* no simulation task *)
| PTaskCreated     (* run_forever() task created but not yet running: _simtask still None *)
| PInitialising    (* inside run_forever, initialising blocks *)
| PRunning
| PAborting        (* abort()/shutdown() called, the task has not reacted yet *)
| PCleaningUp      (* stopping blocks *)
| PFinished.

Definition simtask_set (p : phase) : bool :=
  match p with PNotStarted | PTaskCreated => false | _ => true end.
Definition error_set (p : phase) : bool :=
  match p with PAborting | PCleaningUp | PFinished => true | _ => false end.
Definition is_ready (p : phase) : bool := simtask_set p && negb (error_set p).

(* what the caller passes as 'source': absent, a string, or something else *)
Inductive srcarg := SrcAbsent | SrcStr (s : string) | SrcOther.

Inductive sendres := Delivered (d : data) | Refused (k : errkind).

(* ExtEvent(dest, etype, source=dflt).send(value, **items, source=...) *)
Definition ext_send (p : phase) (dflt : string) (value : option val) (src : srcarg) (items : data)
  : sendres :=
  if is_ready p then
    let d1 := match value with Some v => dset items "value" v | None => items end in
    match src with
    | SrcAbsent => Delivered (dset d1 "source" (VStr (add_ext_prefix dflt)))
    | SrcStr s => Delivered (dset d1 "source" (VStr (add_ext_prefix s)))
    | SrcOther => Refused EType
    end
  else Refused EInvalidState.

(* ---- block names ---- *)
Definition starts_underscore (s : string) : bool :=
  match s with String "_" _ => true | _ => false end.

(* Block(name): a user supplied name must be non-empty and must not start with '_' *)
Definition user_name_ok (s : string) : bool :=
  negb (String.eqb s "") && negb (starts_underscore s).

(* name=None: _<ClassName>_<n> *)
Definition auto_name (cls : string) (n : string) : string := "_" ++ cls ++ "_" ++ n.
(* ... refused when it would carry the prefix reserved for external sources *)
Definition auto_name_checked (cls n : string) : res string :=
  let s := auto_name cls n in if has_ext_prefix s then Err EValue else Ok s.

(* ---- correspondence ---- *)
Inductive eobs := ODelivered (d : data) | ORefused (k : errkind).

Record xcase := {
  x_phase : phase; x_dflt : string; x_value : option val; x_src : srcarg; x_items : data;
  x_obs : eobs }.

Definition xcase_agree (c : xcase) : bool :=
  match ext_send (x_phase c) (x_dflt c) (x_value c) (x_src c) (x_items c), x_obs c with
  | Delivered d, ODelivered d' => data_equiv d d'
  | Refused k, ORefused k' => errkind_eqb k k'
  | _, _ => false
  end.

(* the property on observed values only *)
Definition xcase_monitor (c : xcase) : bool :=
  match x_obs c with
  | ODelivered d =>
      is_ready (x_phase c) &&
      match dget d "source" with Some (VStr s) => has_ext_prefix s | _ => false end &&
      match x_value c with Some v => oval_eqb (dget d "value") (Some v) | None => true end &&
      forallb (fun kv => if String.eqb (fst kv) "source" then true
                         else if String.eqb (fst kv) "value" &&
                                 match x_value c with Some _ => true | None => false end then true
                         else oval_eqb (dget d (fst kv)) (dget (x_items c) (fst kv)))
              (x_items c)
  | ORefused k =>
      match k with
      | EInvalidState => negb (is_ready (x_phase c))
      | EType => match x_src c with SrcOther => true | _ => false end
      | _ => false
      end
  end.

(* name cases: was the name accepted, what did an automatic name look like *)
Inductive ncase :=
| NUser (name : string) (accepted : bool)
| NAuto (cls : string) (n : string) (observed : res string).

Definition ncase_agree (c : ncase) : bool :=
  match c with
  | NUser s acc => Bool.eqb (user_name_ok s) acc
  | NAuto cls n obs =>
      match auto_name_checked cls n, obs with
      | Ok a, Ok b => String.eqb a b
      | Err a, Err b => errkind_eqb a b
      | _, _ => false
      end
  end.

(* an internally generated event carries the sender's block name as source *)
Definition ncase_monitor (c : ncase) : bool :=
  match c with
  | NUser s acc => if acc then negb (has_ext_prefix s) else true
  | NAuto cls n obs => match obs with Ok s => negb (has_ext_prefix s) | Err _ => true end
  end.

(* ExtEvent(dest, etype, source) constructor *)
Inductive destkind := DSBlock | DCBlock | DUnknownName | DNotBlock.
Definition ext_create (d : destkind) (etype_ok src_is_str : bool) : res unit :=
  match d with
  | DSBlock => if etype_ok && src_is_str then Ok tt else Err EType
  | DCBlock => Err EType
  | DUnknownName => Err EKey
  | DNotBlock => Err EType
  end.
Record kcase := { k_dest : destkind; k_etype_ok : bool; k_src_is_str : bool; k_obs : res unit }.
Definition kcase_agree (c : kcase) : bool :=
  match ext_create (k_dest c) (k_etype_ok c) (k_src_is_str c), k_obs c with
  | Ok _, Ok _ => true
  | Err a, Err b => errkind_eqb a b
  | _, _ => false
  end.

Inductive c14case := CX (c : xcase) | CN (c : ncase) | CK (c : kcase).
Definition c14_verdict (c : c14case) : ascii :=
  match c with
  | CX x => match xcase_agree x, xcase_monitor x with
            | true, true => "A" | true, false => "X" | false, true => "R" | false, false => "V" end
  | CK k => if kcase_agree k then "A" else "V"
  | CN n => if ncase_monitor n then (if ncase_agree n then "A" else "R") else "V"
  end%char.
