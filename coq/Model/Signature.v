(* Model of CBlock.check_signature (edzed/block.py): the shape of the connected inputs compared
   with the shape a block declares.  Definitions only. *)
From Verif Require Export Values.
Open Scope string_scope.
Open Scope list_scope.

(* what a block expects for one input name *)
Inductive expect :=
| ExSingle                          (* None: a single input *)
| ExCount (n : nat)                 (* n: a group of exactly n inputs *)
| ExRange (lo hi : option nat).     (* (min, max): a group within the bounds, None = no bound *)

(* what is connected under one input name: None = a single input, Some n = a group of n *)
Definition shape := option nat.

Definition item_ok (e : expect) (v : shape) : bool :=
  match e, v with
  | ExSingle, None => true
  | ExSingle, Some _ => false
  | _, None => false
  | ExCount n, Some k => Nat.eqb k n
  | ExRange lo hi, Some k =>
      (match lo with None => true | Some l => Nat.leb l k end)
      && (match hi with None => true | Some h => Nat.leb k h end)
  end.

Fixpoint lookup {A : Type} (n : string) (l : list (string * A)) : option A :=
  match l with
  | [] => None
  | (k, v) :: r => if String.eqb k n then Some v else lookup n r
  end.

Definition has_key {A : Type} (l : list (string * A)) (n : string) : bool :=
  match lookup n l with Some _ => true | None => false end.

(* check_signature passes (returns) iff the names agree and every item has the expected shape *)
Definition sig_ok (es : list (string * expect)) (bs : list (string * shape)) : bool :=
  forallb (fun p => has_key bs (fst p)) es
  && forallb (fun p => has_key es (fst p)) bs
  && forallb (fun p => match lookup (fst p) bs with Some v => item_ok (snd p) v | None => false end) es.

(* one observation: the declared signature, the connected shape, did the simulation start *)
Record sigcase := { sc_exp : list (string * expect); sc_shape : list (string * shape); sc_started : bool }.

Definition sig_verdict (k : sigcase) : ascii :=
  (if Bool.eqb (sig_ok (sc_exp k) (sc_shape k)) (sc_started k) then "A" else "V")%char.
