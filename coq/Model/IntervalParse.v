(* String notations of edzed/blocklib/timeinterval.py on lists of ASCII characters: interval
   delimiters, range separators, traditional and ISO 8601 (Python 3.12 fromisoformat) endpoint
   formats, with the regex *search* semantics of _convert_str.  Definitions only. *)
From Verif Require Export Interval.
Open Scope list_scope.
Open Scope Z_scope.
Open Scope char_scope.

Definition is_digit (c : ascii) : bool := let n := nat_of_ascii c in (Nat.leb 48 n && Nat.leb n 57)%bool.
Definition is_alpha (c : ascii) : bool :=
  let n := nat_of_ascii c in ((Nat.leb 65 n && Nat.leb n 90) || (Nat.leb 97 n && Nat.leb n 122))%bool.
Definition is_space (c : ascii) : bool :=
  let n := nat_of_ascii c in (Nat.eqb n 32 || (Nat.leb 9 n && Nat.leb n 13))%bool.
Definition digit_val (c : ascii) : Z := Z.of_nat (nat_of_ascii c - 48).
Definition ch_eqb (a b : ascii) : bool := Nat.eqb (nat_of_ascii a) (nat_of_ascii b).
Definition lower (c : ascii) : ascii :=
  let n := nat_of_ascii c in if (Nat.leb 65 n && Nat.leb n 90)%bool then ascii_of_nat (n + 32) else c.
Definition upper (c : ascii) : ascii :=
  let n := nat_of_ascii c in if (Nat.leb 97 n && Nat.leb n 122)%bool then ascii_of_nat (n - 32) else c.

Fixpoint lstrip (s : list ascii) : list ascii :=
  match s with c :: r => if is_space c then lstrip r else s | [] => [] end.
Definition strip (s : list ascii) : list ascii := rev (lstrip (rev (lstrip s))).

Fixpoint num_of (s : list ascii) (acc : Z) : Z :=
  match s with c :: r => num_of r (acc * 10 + digit_val c) | [] => acc end.
Definition all_digits (s : list ascii) : bool := forallb is_digit s.

(* split on one character (str.split(c)) *)
Fixpoint split_char_aux (c : ascii) (s cur : list ascii) : list (list ascii) :=
  match s with
  | [] => [rev cur]
  | x :: r => if ch_eqb x c then rev cur :: split_char_aux c r [] else split_char_aux c r (x :: cur)
  end.
Definition split_char (c : ascii) (s : list ascii) : list (list ascii) := split_char_aux c s [].

Fixpoint prefix (p s : list ascii) : option (list ascii) :=     (* the rest after the prefix *)
  match p, s with
  | [], _ => Some s
  | x :: p', y :: s' => if ch_eqb x y then prefix p' s' else None
  | _ :: _, [] => None
  end.
(* str.split(sep) for a multi-character separator: left to right, non-overlapping *)
Fixpoint split_str_aux (fuel : nat) (sep s cur : list ascii) : list (list ascii) :=
  match fuel with
  | O => [rev cur ++ s]
  | S f =>
    match s with
    | [] => [rev cur]
    | x :: r => match prefix sep s with
                | Some rest => rev cur :: split_str_aux f sep rest []
                | None => split_str_aux f sep r (x :: cur)
                end
    end
  end.
Definition split_str (sep s : list ascii) : list (list ascii) := split_str_aux (S (List.length s)) sep s [].

(* ---------- time of day ---------- *)
(* fraction digits -> microseconds (truncated to 6 digits) *)
Definition frac_us (ds : list ascii) : Z := num_of (firstn 6 (ds ++ chars "000000")) 0.

Definition mk_time (h m s u : Z) : option (list Z) :=
  if valid_time [h; m; s; u] then Some [h; m; s; u] else None.

(* the part before the fraction and the fraction digits (after the first point or comma) *)
Fixpoint split_frac_aux (s cur : list ascii) : list ascii * option (list ascii) :=
  match s with
  | [] => (rev cur, None)
  | c :: r => if (ch_eqb c "." || ch_eqb c ",")%bool then (rev cur, Some r) else split_frac_aux r (c :: cur)
  end.
Definition split_frac (s : list ascii) : list ascii * option (list ascii) := split_frac_aux s [].

(* two2 = every field must have exactly two digits (ISO) *)
Definition field_ok (two2 : bool) (f : list ascii) : bool :=
  (all_digits f && (if two2 then Nat.eqb (List.length f) 2 else (Nat.leb 1 (List.length f) && Nat.leb (List.length f) 2)))%bool.

Definition drop_t (s : list ascii) : list ascii := match s with "T" :: r => r | _ => s end.
Definition frac_ok_iso (frac : option (list ascii)) : bool :=
  match frac with Some ds => (all_digits ds && negb (Nat.eqb (List.length ds) 0))%bool | None => true end.
Definition frac_val (frac : option (list ascii)) : Z := match frac with Some ds => frac_us ds | None => 0 end.

(* datetime.time.fromisoformat (3.12), without time zones: [T]HH[:MM[:SS[.f+]]] or [T]HH[MM[SS[.f+]]];
   None = not ISO *)
Definition iso_core (main : list ascii) (frac : option (list ascii)) : option (list Z) :=
  if negb (frac_ok_iso frac) then None else
  let us := frac_val frac in
  match split_char ":" main with
  | [hh] =>           (* basic format *)
      if negb (all_digits hh) then None else
      match List.length hh, frac with
      | 2%nat, None => mk_time (num_of hh 0) 0 0 0
      | 4%nat, None => mk_time (num_of (firstn 2 hh) 0) (num_of (skipn 2 hh) 0) 0 0
      | 6%nat, _ => mk_time (num_of (firstn 2 hh) 0) (num_of (firstn 2 (skipn 2 hh)) 0) (num_of (skipn 4 hh) 0) us
      | _, _ => None
      end
  | [hh; mm] => match frac with
                | None => if (field_ok true hh && field_ok true mm)%bool then mk_time (num_of hh 0) (num_of mm 0) 0 0 else None
                | Some _ => None
                end
  | [hh; mm; ss] => if (field_ok true hh && field_ok true mm && field_ok true ss)%bool
                    then mk_time (num_of hh 0) (num_of mm 0) (num_of ss 0) us else None
  | _ => None
  end.
Definition parse_time_iso (s : list ascii) : option (list Z) :=
  let '(main, frac) := split_frac (drop_t s) in iso_core main frac.

(* the strptime fall-back: %H:%M, %H:%M:%S, %H:%M:%S.%f, %H:%M:%S,%f (1-2 digit fields, 1-6 fraction digits) *)
Definition parse_time_trad (s : list ascii) : option (list Z) :=
  let '(main, frac) := split_frac s in
  let fr_ok := match frac with
               | Some ds => (all_digits ds && Nat.leb 1 (List.length ds) && Nat.leb (List.length ds) 6)%bool
               | None => true end in
  let us := match frac with Some ds => frac_us ds | None => 0 end in
  if negb fr_ok then None else
  match split_char ":" main with
  | [hh; mm] => match frac with
                | None => if (field_ok false hh && field_ok false mm)%bool then mk_time (num_of hh 0) (num_of mm 0) 0 0 else None
                | Some _ => None
                end
  | [hh; mm; ss] => if (field_ok false hh && field_ok false mm && field_ok false ss)%bool
                    then mk_time (num_of hh 0) (num_of mm 0) (num_of ss 0) us else None
  | _ => None
  end.

Definition parse_time_str (s : list ascii) : option (list Z) :=
  let s := strip s in
  match parse_time_iso s with
  | Some t => Some t
  | None => parse_time_trad s
  end.

(* ---------- regex search helpers of _convert_str ---------- *)
(* result of _match_pattern: the string with the match removed (pieces joined by a space when the
   match is in the middle) *)
Definition remove_match (before after : list ascii) : list ascii :=
  match before, after with
  | [], _ => after
  | _, [] => before
  | _, _ => before ++ " " :: after
  end.

Fixpoint take_while (p : ascii -> bool) (s : list ascii) : list ascii * list ascii :=
  match s with
  | c :: r => if p c then let '(a, b) := take_while p r in (c :: a, b) else ([], s)
  | [] => ([], [])
  end.

(* _RE_ISO_DM  --(\d{2})-?(\d{2})  leftmost *)
Definition iso_dm_at (s : list ascii) : option (Z * Z * list ascii) :=
  match s with
  | "-" :: "-" :: a :: b :: r =>
      if (is_digit a && is_digit b)%bool then
        match r with
        | "-" :: c :: d :: r' =>
            if (is_digit c && is_digit d)%bool then Some (num_of [a; b] 0, num_of [c; d] 0, r') else None
        | c :: d :: r' =>
            if (is_digit c && is_digit d)%bool then Some (num_of [a; b] 0, num_of [c; d] 0, r') else None
        | _ => None
        end
      else None
  | _ => None
  end.
Fixpoint find_iso_dm (s before : list ascii) : option (Z * Z * list ascii) :=   (* month, day, remaining string *)
  match iso_dm_at s with
  | Some (m, d, after) => Some (m, d, remove_match (rev before) after)
  | None => match s with c :: r => find_iso_dm r (c :: before) | [] => None end
  end.

(* _RE_MONTH  ([^\W\d_]{3,})\.?  leftmost: the first maximal run of >= 3 letters *)
Fixpoint find_month_aux (fuel : nat) (s before : list ascii) : option (list ascii * list ascii) :=
  match fuel with
  | O => None
  | S f =>
    match s with
    | [] => None
    | c :: r =>
      if is_alpha c then
        let '(run, after) := take_while is_alpha s in
        if Nat.leb 3 (List.length run) then
          let after' := match after with "." :: a => a | _ => after end in
          Some (run, remove_match (rev before) after')
        else find_month_aux f after (rev run ++ before)
      else find_month_aux f r (c :: before)
    end
  end.
Definition find_month (s : list ascii) := find_month_aux (S (List.length s)) s [].

Definition capitalize (s : list ascii) : list ascii :=
  match s with c :: r => upper c :: map lower r | [] => [] end.
Fixpoint month_of_aux (name : list ascii) (names : list string) (i : Z) : option Z :=
  match names with
  | [] => None
  | n :: r => match prefix name (chars n) with Some _ => Some i | None => month_of_aux name r (i + 1) end
  end.
Definition name_to_month (name : list ascii) : option Z := month_of_aux (capitalize name) month_names 1.

(* _RE_DAY  (\d{1,2})\.?  leftmost *)
Fixpoint find_day (s before : list ascii) : option (Z * list ascii) :=
  match s with
  | [] => None
  | c :: r =>
    if is_digit c then
      let '(ds, after) := match r with
                          | d :: r' => if is_digit d then ([c; d], r') else ([c], r)
                          | [] => ([c], []) end in
      let after' := match after with "." :: a => a | _ => after end in
      Some (num_of ds 0, remove_match (rev before) after')
    else find_day r (c :: before)
  end.

(* _RE_YEAR (\d{4}) leftmost *)
Fixpoint find_year (s before : list ascii) : option (Z * list ascii) :=
  match s with
  | a :: ((b :: c :: d :: after) as r) =>
      if (is_digit a && is_digit b && is_digit c && is_digit d)%bool
      then Some (num_of [a; b; c; d] 0, remove_match (rev before) after)
      else find_year r (a :: before)
  | _ => None
  end.

(* _RE_YMD  ([0-9]{4})-([^\W\d_]{3,}|[0-9]{2})-([0-9]{2})  leftmost *)
Definition ymd_at (s : list ascii) : option (Z * (Z + list ascii) * Z * list ascii) :=
  match s with
  | a :: b :: c :: d :: "-" :: r =>
      if (is_digit a && is_digit b && is_digit c && is_digit d)%bool then
        let y := num_of [a; b; c; d] 0 in
        match r with
        | m1 :: m2 :: "-" :: d1 :: d2 :: after =>
            if (is_digit m1 && is_digit m2 && is_digit d1 && is_digit d2)%bool
            then Some (y, inl (num_of [m1; m2] 0), num_of [d1; d2] 0, after)
            else
              let '(run, rest) := take_while is_alpha r in
              if Nat.leb 3 (List.length run) then
                match rest with
                | "-" :: e1 :: e2 :: after' =>
                    if (is_digit e1 && is_digit e2)%bool then Some (y, inr run, num_of [e1; e2] 0, after') else None
                | _ => None
                end
              else None
        | _ =>
            let '(run, rest) := take_while is_alpha r in
            if Nat.leb 3 (List.length run) then
              match rest with
              | "-" :: e1 :: e2 :: after' =>
                  if (is_digit e1 && is_digit e2)%bool then Some (y, inr run, num_of [e1; e2] 0, after') else None
              | _ => None
              end
            else None
        end
      else None
  | _ => None
  end.
Fixpoint find_ymd (s before : list ascii) : option (Z * (Z + list ascii) * Z * list ascii) :=
  match ymd_at s with
  | Some (y, m, d, after) => Some (y, m, d, remove_match (rev before) after)
  | None => match s with c :: r => find_ymd r (c :: before) | [] => None end
  end.

(* _RE_TIME  (\d{1,2}:\d{1,2}(:\d{1,2})?([.,]\d+)?)  leftmost; returns the matched text *)
Definition digits12 (s : list ascii) : list ascii * list ascii :=     (* greedy 1-2 digits *)
  match s with
  | a :: b :: r => if is_digit a then (if is_digit b then ([a; b], r) else ([a], b :: r)) else ([], s)
  | [a] => if is_digit a then ([a], []) else ([], s)
  | [] => ([], [])
  end.
Definition time_tail (hh : list ascii) (r : list ascii) : option (list ascii * list ascii) :=
  (* after "hh:" : minutes, optional seconds, optional fraction *)
  let '(mm, r1) := digits12 r in
  if Nat.eqb (List.length mm) 0 then None else
  let '(m2, r2) :=
    match r1 with
    | ":" :: r1' => let '(ss, r1'') := digits12 r1' in
                    if Nat.eqb (List.length ss) 0 then ([], r1) else (":" :: ss, r1'')
    | _ => ([], r1)
    end in
  let '(m3, r3) :=
    match r2 with
    | c :: r2' => if (ch_eqb c "." || ch_eqb c ",")%bool then
                    let '(ds, r2'') := take_while is_digit r2' in
                    if Nat.eqb (List.length ds) 0 then ([], r2) else (c :: ds, r2'')
                  else ([], r2)
    | [] => ([], r2)
    end in
  Some (hh ++ ":" :: mm ++ m2 ++ m3, r3).
Definition time_at (s : list ascii) : option (list ascii * list ascii) :=
  match s with
  | a :: b :: ":" :: r => if (is_digit a && is_digit b)%bool then time_tail [a; b] r else None
  | a :: ":" :: r => if is_digit a then time_tail [a] r else None
  | _ => None
  end.
Fixpoint find_time (s before : list ascii) : option (list ascii * list ascii) :=
  match time_at s with
  | Some (m, after) => Some (m, remove_match (rev before) after)
  | None => match s with c :: r => find_time r (c :: before) | [] => None end
  end.

(* month and day of _convert_str: --MMDD / --MM-DD, else month name then day *)
Definition find_month_day (s : list ascii) : option (Z * Z * list ascii) :=
  match find_iso_dm s [] with
  | Some r => Some r
  | None =>
    match find_month s with
    | None => None
    | Some (name, s1) =>
      match name_to_month name with
      | None => None
      | Some m => match find_day s1 [] with
                  | Some (d, s2) => Some (m, d, s2)
                  | None => None
                  end
      end
    end
  end.

Definition parse_date_str (s : list ascii) : option (list Z) :=
  match find_month_day (strip s) with
  | Some (m, d, rest) =>
      if Nat.eqb (List.length (strip rest)) 0 then (if valid_date [m; d] then Some [m; d] else None) else None
  | None => None
  end.

(* datetime.datetime.fromisoformat (3.12) without time zones, the calendar-date forms:
   YYYY-MM-DD or YYYYMMDD, any one separator character, then an ISO time (without the T prefix) *)
Definition parse_datetime_iso (s : list ascii) : option (list Z) :=
  let date_time :=
    match s with
    | y1 :: y2 :: y3 :: y4 :: "-" :: m1 :: m2 :: "-" :: d1 :: d2 :: _ :: t =>
        if forallb is_digit [y1; y2; y3; y4; m1; m2; d1; d2]
        then Some (num_of [y1; y2; y3; y4] 0, num_of [m1; m2] 0, num_of [d1; d2] 0, t) else None
    | y1 :: y2 :: y3 :: y4 :: m1 :: m2 :: d1 :: d2 :: _ :: t =>
        if forallb is_digit [y1; y2; y3; y4; m1; m2; d1; d2]
        then Some (num_of [y1; y2; y3; y4] 0, num_of [m1; m2] 0, num_of [d1; d2] 0, t) else None
    | _ => None
    end in
  match date_time with
  | Some (y, m, d, t) =>
      match t with
      | "T" :: _ => None
      | _ => match parse_time_iso t with
             | Some [h; mi; sec; u] => if valid_datetime [y; m; d; h; mi; sec; u] then Some [y; m; d; h; mi; sec; u] else None
             | _ => None
             end
      end
  | None => None
  end.

Definition parse_datetime_trad (s : list ascii) : option (list Z) :=
  match find_time s [] with
  | None => None
  | Some (tstr, s1) =>
    match parse_time_str tstr with
    | Some [h; mi; sec; u] =>
      let fin (y m d : Z) (rest : list ascii) :=
        if Nat.eqb (List.length (strip rest)) 0
        then (if valid_datetime [y; m; d; h; mi; sec; u] then Some [y; m; d; h; mi; sec; u] else None)
        else None in
      match find_ymd s1 [] with
      | Some (y, inl m, d, rest) => fin y m d rest
      | Some (y, inr name, d, rest) =>
          match name_to_month name with Some m => fin y m d rest | None => None end
      | None =>
        match find_year s1 [] with
        | None => None
        | Some (y, s2) =>
          match find_month_day s2 with
          | Some (m, d, rest) => fin y m d rest
          | None => None
          end
        end
      end
    | _ => None
    end
  end.

Definition parse_datetime_str (s : list ascii) : option (list Z) :=
  let s := strip s in
  let iso := if existsb (ch_eqb "T") s then parse_datetime_iso s else None in
  match iso with
  | Some r => Some r
  | None => parse_datetime_trad s
  end.

Definition parse_ep_str (k : kind) (s : list ascii) : option (list Z) :=
  match k with KTime => parse_time_str s | KDate => parse_date_str s | KDateTime => parse_datetime_str s end.

(* ---------- ranges and intervals ---------- *)
Definition two_eps (k : kind) (parts : list (list ascii)) : option (option range) :=
  match parts with
  | [a; b] => Some (match parse_ep_str k a, parse_ep_str k b with
                    | Some a', Some b' => Some (a', b') | _, _ => None end)
  | _ => None
  end.
(* separators '/', ' - ', '-' in this priority: the first that splits the text in exactly two *)
Definition parse_range_str (k : kind) (s : list ascii) : option range :=
  match two_eps k (split_char "/" s) with
  | Some r => r
  | None =>
    match two_eps k (split_str (chars " - ") s) with
    | Some r => r
    | None =>
      match two_eps k (split_char "-" s) with
      | Some r => r
      | None => match k with
                | KDate => match parse_ep_str k s with Some a => Some (a, a) | None => None end
                | _ => None
                end
      end
    end
  end.

Definition drop_last_blank (l : list (list ascii)) : list (list ascii) :=
  match rev l with
  | x :: r => if Nat.eqb (List.length (strip x)) 0 then rev r else l
  | [] => l
  end.
Definition parse_interval_str (k : kind) (s : list ascii) : option (list range) :=
  let delim := if existsb (ch_eqb ";") s then ";" else "," in
  let parts := drop_last_blank (split_char delim s) in
  match all_some (map (parse_range_str k) parts) with
  | Some l => Some (sort_ranges l)
  | None => None
  end.

(* ---------- correspondence ---------- *)
Inductive iinput := ISeq (rs : list (list (list Z))) | IStr (s : list ascii).

Definition model_interval (k : kind) (i : iinput) : option (list range) :=
  match i with ISeq rs => normalize k rs | IStr s => parse_interval_str k s end.

Definition nested := list (list (list Z)).
Fixpoint nested_eqb (a b : nested) : bool :=
  match a, b with
  | [], [] => true
  | x :: a', y :: b' =>
      (fix eqr (x y : list (list Z)) : bool :=
         match x, y with
         | [], [] => true
         | p :: x', q :: y' => list_eqb p q && eqr x' y'
         | _, _ => false
         end) x y && nested_eqb a' b'
  | _, _ => false
  end.
Definition onested_eqb (a b : option nested) : bool :=
  match a, b with Some x, Some y => nested_eqb x y | None, None => true | _, _ => false end.
Fixpoint chars_eqb (a b : list ascii) : bool :=
  match a, b with
  | [], [] => true
  | x :: a', y :: b' => ch_eqb x y && chars_eqb a' b'
  | _, _ => false
  end.

Definition ranges_of (n : nested) : option (list range) :=
  all_some (map (fun r => match r with [a; b] => Some (a, b) | _ => None end) n).

Record tcase := {
  tc_kind : kind;
  tc_input : iinput;
  tc_malformed : bool;                 (* malformed by construction *)
  tc_result : option nested;           (* as_list(), None = the constructor raised *)
  tc_string : list ascii;              (* as_string() *)
  tc_relist : option nested;           (* as_list() of the interval rebuilt from as_list() *)
  tc_restr : option nested;            (* as_list() of the interval rebuilt from as_string() *)
  tc_equiv : list (option nested);     (* as_list() of the other notations of the same interval *)
  tc_probes : list (list Z * bool) }.  (* probe moments with the observed `x in interval` *)

Definition tcase_agree (c : tcase) : bool :=
  match model_interval (tc_kind c) (tc_input c), tc_result c with
  | None, None => true
  | Some rs, Some obs =>
      nested_eqb (as_list rs) obs && chars_eqb (as_string (tc_kind c) rs) (tc_string c) &&
      forallb (fun p => Bool.eqb (contains (tc_kind c) rs (fst p)) (snd p)) (tc_probes c)
  | _, _ => false
  end.

(* the documented membership rule, on the linear scales *)
Definition spec_in_range (k : kind) (r : range) (x : list Z) : bool :=
  match k with
  | KTime => cyc_open day_us (time_key (fst r)) (time_key (snd r)) (time_key x)
  | KDate => cyc_closed 366 (date_key (fst r)) (date_key (snd r)) (date_key x)
  | KDateTime => lex_le (fst r) x && lex_lt x (snd r)
  end.
Definition ep_len (k : kind) : nat := match k with KTime => 4%nat | KDate => 2%nat | KDateTime => 7%nat end.
Fixpoint sorted_ranges (l : list range) : bool :=
  match l with
  | a :: ((b :: _) as r) => negb (range_lt b a) && sorted_ranges r
  | _ => true
  end.

Definition tcase_monitor (c : tcase) : bool :=
  match tc_result c with
  | None => true
  | Some obs =>
      negb (tc_malformed c) &&
      match ranges_of obs with
      | None => false
      | Some rs =>
          forallb (fun r => Nat.eqb (List.length (fst r)) (ep_len (tc_kind c)) &&
                            Nat.eqb (List.length (snd r)) (ep_len (tc_kind c))) rs &&
          sorted_ranges rs &&
          onested_eqb (tc_relist c) (Some obs) && onested_eqb (tc_restr c) (Some obs) &&
          forallb (fun e => onested_eqb e (Some obs)) (tc_equiv c) &&
          forallb (fun p => Bool.eqb (existsb (fun r => spec_in_range (tc_kind c) r (fst p)) rs) (snd p))
                  (tc_probes c)
      end
  end.

Definition t_verdict (c : tcase) : ascii :=
  (if tcase_monitor c then (if tcase_agree c then "A" else "R") else "V")%char.
