(* Model of the error bookkeeping of the simulator: Circuit.abort (edzed/simulator.py:723-750),
   the except clause of run_forever (690-721), the classification of errors in SBlock.event
   (edzed/block.py:579-605), AddonAsync._task_monitor and the result collection of run()
   (856-875).  Definitions only. *)
From Verif Require Export Values.
Open Scope list_scope.
Open Scope Z_scope.

(* what can happen, with the identity tag of the exception involved *)
Inductive source :=
| SHandlerError (tag : Z)        (* raised inside an event handler *)
| SCalcError (tag : Z)           (* raised by calc_output during evaluation *)
| SSyncInitError (tag : Z)       (* raised by init_regular / init_from_value *)
| SMonitoredTask (tag : Z)       (* a monitored block task failed or ended *)
| SAbortCall (tag : Z)           (* Circuit.abort(exc) by the application *)
| SCtrlAbort (tag : Z)           (* 'abort' event to the control block *)
| SCtrlShutdown                  (* 'shutdown' event to the control block *)
| SShutdown                      (* Circuit.shutdown() / run() ending / SIGTERM: a cancellation *)
| SParamError                    (* external event with wrong parameters *)
| SUnknownEvent                  (* external event of an unknown type *)
| SAsyncInitError                (* init_async raised or timed out *)
| SRestoreError                  (* restoring the saved state failed *)
| SStopError.                    (* stop() / stop_async() raised during clean-up *)

(* what reaches the simulator: an exception (by tag) or a cancellation; None = nothing *)
Inductive delivery := DExc (tag : Z) | DCancel.

Definition delivered (s : source) : option delivery :=
  match s with
  | SHandlerError t | SCalcError t | SSyncInitError t | SMonitoredTask t
  | SAbortCall t | SCtrlAbort t => Some (DExc t)
  | SCtrlShutdown | SShutdown => Some DCancel
  | SParamError | SUnknownEvent | SAsyncInitError | SRestoreError | SStopError => None
  end.

(* Circuit._error is write-once *)
Definition record (err : option delivery) (d : delivery) : option delivery :=
  match err with Some e => Some e | None => Some d end.

Definition deliver_all (err : option delivery) (ss : list source) : option delivery :=
  fold_left (fun e s => match delivered s with Some d => record e d | None => e end) ss err.

(* the supporting coroutines given to run(): what became of each, by index *)
Inductive sup := SupOk | SupFailed (tag : Z) | SupCancelled.

Fixpoint first_failed (l : list sup) : option Z :=
  match l with
  | [] => None
  | SupFailed t :: _ => Some t
  | _ :: r => first_failed r
  end.

Inductive outcome := Raises (tag : Z) | ReturnsNone.

(* run(): the simulator's error if there is one (a cancellation is a normal stop),
   otherwise the error of the first failing supporting coroutine *)
Definition run_result (err : option delivery) (sups : list sup) : outcome :=
  match err with
  | Some (DExc t) => Raises t
  | _ => match first_failed sups with Some t => Raises t | None => ReturnsNone end
  end.

(* run_forever() / shutdown(): the error itself; a cancellation makes shutdown() return *)
Definition shutdown_result (err : option delivery) : outcome :=
  match err with Some (DExc t) => Raises t | _ => ReturnsNone end.

(* ---------- correspondence ---------- *)
Definition delivery_eqb (a b : option delivery) : bool :=
  match a, b with
  | Some (DExc x), Some (DExc y) => x =? y
  | Some DCancel, Some DCancel => true
  | None, None => true
  | _, _ => false
  end.
Definition outcome_eqb (a b : outcome) : bool :=
  match a, b with Raises x, Raises y => x =? y | ReturnsNone, ReturnsNone => true | _, _ => false end.

Record ecase := {
  ec_sources : list source;           (* in the order they were delivered / happened *)
  ec_sups : list sup;
  ec_error : option delivery;         (* observed Circuit.error *)
  ec_run : outcome;                   (* observed result of run() *)
  ec_shutdown : option outcome;       (* observed result of shutdown(), when it was called *)
  ec_ready_after : bool;              (* is_ready() after the end *)
  ec_abort_log : list delivery }.     (* observed: what reached Circuit.abort()/the except clause *)

Definition ecase_agree (k : ecase) : bool :=
  let err := deliver_all None (ec_sources k) in
  delivery_eqb err (ec_error k) && outcome_eqb (run_result err (ec_sups k)) (ec_run k) &&
  match ec_shutdown k with Some o => outcome_eqb (shutdown_result err) o | None => true end &&
  negb (ec_ready_after k).

(* monitor on observed data: Circuit.error is the FIRST thing that reached the simulator and
   run() raised what the rule says for the observed error *)
Definition ecase_monitor (k : ecase) : bool :=
  delivery_eqb (match ec_abort_log k with d :: _ => Some d | [] => None end) (ec_error k) &&
  outcome_eqb (run_result (ec_error k) (ec_sups k)) (ec_run k) && negb (ec_ready_after k).

Definition e_verdict (k : ecase) : ascii :=
  (if ecase_monitor k then (if ecase_agree k then "A" else "R") else "V")%char.
