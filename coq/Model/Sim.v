(* Model of the simulator's evaluation loop (edzed/simulator.py:575-634), of
   CBlock.eval_block / InputGetter (edzed/block.py:276-299,433-447), SBlock.set_output's
   queueing (506-522) and of the library CBlocks (edzed/blocklib/cblocks.py).
   Definitions only. *)
From Verif Require Export Values.
From Coq Require Export Qround.
Open Scope string_scope.
Open Scope list_scope.

Inductive iref := RBlk (n : nat) | RConst (v : val).
Inductive inp := ISingle (r : iref) | IGroup (l : list iref).
Inductive cfun :=
| FNot | FAnd | FOr | FXor
| FCompare (lo hi : Q)
| FOverride (null : val)
| FFunc (unpack : bool).        (* FuncBlock with the harness' reference function *)
Inductive block := SB | CB (f : cfun) (ins : list (string * inp)).
Definition circuit := list block.

Definition outs := nat -> val.
Definition upd (o : outs) (i : nat) (v : val) : outs := fun k => if Nat.eqb k i then v else o k.

Definition read (o : outs) (r : iref) : val := match r with RBlk n => o n | RConst v => v end.
Inductive ival := VS (v : val) | VG (l : list val).
Definition read_inp (o : outs) (i : inp) : ival :=
  match i with ISingle r => VS (read o r) | IGroup l => VG (map (read o) l) end.
(* InputGetter: group -> tuple of outputs, single -> the output, Const -> its value *)
Definition getins (o : outs) (ins : list (string * inp)) : list (string * ival) :=
  map (fun ni => (fst ni, read_inp o (snd ni))) ins.

Fixpoint ilookup (n : string) (l : list (string * ival)) : option ival :=
  match l with [] => None | (k, v) :: r => if String.eqb n k then Some v else ilookup n r end.

Definition count_truthy (l : list val) : Z := Z.of_nat (List.length (filter truthy l)).

(* the reference function used for FuncBlocks (Python twin in harness/c01.py):
   positional truthy count + 10 * truthy named singles + 100 * total size of named groups,
   + 1000 when the positional group arrives as ONE tuple (unpack=False) *)
Definition ffunc_named (l : list (string * ival)) : Z :=
  fold_left (fun acc ni =>
               if String.eqb (fst ni) "_" then acc else
               match snd ni with
               | VS v => if truthy v then acc + 10 else acc
               | VG g => acc + 100 * Z.of_nat (List.length g)
               end)%Z l 0%Z.

Definition compare_thr (lo hi : Q) (own : val) : Q :=
  match own with
  | VUndef => (lo + hi) / 2
  | _ => if truthy own then lo else hi
  end.

Definition apply_fun (f : cfun) (own : val) (ivs : list (string * ival)) : res val :=
  match f with
  | FNot => match ilookup "_" ivs with
            | Some (VG [x]) => Ok (VBool (negb (truthy x))) | _ => Err EOther end
  | FAnd => match ilookup "_" ivs with
            | Some (VG l) => Ok (VBool (forallb truthy l)) | _ => Err EOther end
  | FOr => match ilookup "_" ivs with
           | Some (VG l) => Ok (VBool (existsb truthy l)) | _ => Err EOther end
  | FXor => match ilookup "_" ivs with
            | Some (VG l) => Ok (VBool (Z.odd (count_truthy l))) | _ => Err EOther end
  | FCompare lo hi =>
      match ilookup "_" ivs with
      | Some (VG [x]) => match num_of x with
                         | Some q => Ok (VBool (Qle_bool (compare_thr lo hi own) q))
                         | None => Err EType end
      | _ => Err EOther end
  | FOverride null =>
      match ilookup "input" ivs, ilookup "override" ivs with
      | Some (VS i), Some (VS o) => Ok (if py_eq o null then i else o)
      | _, _ => Err EOther end
  | FFunc unpack =>
      let pos := match ilookup "_" ivs with Some (VG l) => l | _ => [] end in
      Ok (VInt (count_truthy pos + ffunc_named ivs + (if unpack then 0 else 1000))%Z)
  end.

Definition calc (c : circuit) (o : outs) (i : nat) : option (res val) :=
  match nth_error c i with
  | Some (CB f ins) => Some (apply_fun f (o i) (getins o ins))
  | _ => None
  end.

(* does block b read the output of block i ? *)
Definition ref_is (i : nat) (r : iref) : bool := match r with RBlk n => Nat.eqb n i | _ => false end.
Definition inp_reads (i : nat) (x : inp) : bool :=
  match x with ISingle r => ref_is i r | IGroup l => existsb (ref_is i) l end.
Definition reads (c : circuit) (b i : nat) : bool :=
  match nth_error c b with
  | Some (CB _ ins) => existsb (fun ni => inp_reads i (snd ni)) ins
  | _ => false
  end.
(* oconnections of block i *)
Definition succs (c : circuit) (i : nat) : list nat :=
  filter (fun b => reads c b i) (seq 0 (List.length c)).

Definition is_cblock (c : circuit) (i : nat) : bool :=
  match nth_error c i with Some (CB _ _) => true | _ => false end.
Definition cblocks (c : circuit) : list nat := filter (is_cblock c) (seq 0 (List.length c)).

Definition mem (i : nat) (l : list nat) : bool := existsb (Nat.eqb i) l.
Definition rm (i : nat) (l : list nat) : list nat := filter (fun k => negb (Nat.eqb k i)) l.

(* simulator state.  running=false while the blocks are being initialised (outputs are set,
   nothing is queued: the queue is cleared before the simulation starts). *)
Record sim := { so : outs; sE : list nat; sQ : list nat; scnt : nat; srunning : bool }.

Definition init_sim : sim :=
  {| so := fun _ => VUndef; sE := []; sQ := []; scnt := 0; srunning := false |}.

Definition max_evals_per_block : nat := 3.
Definition eval_limit (c : circuit) : nat := max_evals_per_block * List.length c.

Definition drain (c : circuit) (s : sim) : sim :=
  {| so := so s; sE := sE s ++ flat_map (succs c) (sQ s); sQ := []; scnt := scnt s;
     srunning := srunning s |}.

Definition start_running (c : circuit) (s : sim) : sim :=
  if srunning s then s else
  {| so := so s; sE := cblocks c; sQ := []; scnt := 0; srunning := true |}.

(* observed steps *)
Inductive step :=
| SSet (j : nat) (v : val)         (* set_output(v) of sequential block j *)
| SEval (i : nat) (v : val)        (* the simulator evaluated block i; calc_output returned v *)
| SIdle (snapshot : list val)      (* the simulator waits on its queue; outputs of all blocks *)
| SUnstable.                       (* the simulation ended with the instability error *)

Fixpoint snapshot_ok (o : outs) (k : nat) (l : list val) : bool :=
  match l with
  | [] => true
  | v :: r => py_eq (o k) v && snapshot_ok o (S k) r
  end.

Definition do_step (c : circuit) (s : sim) (x : step) : res sim :=
  match x with
  | SSet j v =>
      match nth_error c j with
      | Some SB =>
          if py_eq (so s j) v then Ok s
          else Ok {| so := upd (so s) j v; sE := sE s;
                     sQ := if srunning s then sQ s ++ [j] else [];
                     scnt := scnt s; srunning := srunning s |}
      | _ => Err EOther
      end
  | SEval i v =>
      let s1 := drain c (start_running c s) in
      if mem i (sE s1) then
        if Nat.ltb (eval_limit c) (S (scnt s1)) then Err EInstability else
        match calc c (so s1) i with
        | Some (Ok v') =>
            if py_eq v v' then
              if py_eq (so s1 i) v'
              then Ok {| so := so s1; sE := rm i (sE s1); sQ := sQ s1; scnt := S (scnt s1);
                         srunning := true |}
              else Ok {| so := upd (so s1) i v'; sE := rm i (sE s1) ++ succs c i; sQ := sQ s1;
                         scnt := S (scnt s1); srunning := true |}
            else Err EValue               (* computed something else than its function *)
        | _ => Err EOther
        end
      else Err EOther                    (* evaluated a block that was not due *)
  | SIdle snap =>
      let s1 := drain c (start_running c s) in
      match sE s1 with
      | [] => if snapshot_ok (so s1) 0 snap && Nat.eqb (List.length snap) (List.length c)
              then Ok {| so := so s1; sE := []; sQ := []; scnt := 0; srunning := true |}
              else Err EValue
      | _ => Err EOther                  (* went idle with work left *)
      end
  | SUnstable =>
      let s1 := drain c (start_running c s) in
      match sE s1 with
      | [] => Err EOther
      | _ => if Nat.ltb (eval_limit c) (S (scnt s1)) then Ok s1 else Err EOther
      end
  end.

Fixpoint run (c : circuit) (s : sim) (xs : list step) : res sim :=
  match xs with
  | [] => Ok s
  | x :: r => match do_step c s x with Ok s1 => run c s1 r | Err e => Err e end
  end.

(* consistency of one combinational block in a given output assignment *)
Definition consistent (c : circuit) (o : outs) (b : nat) : bool :=
  match calc c o b with
  | Some (Ok v) => py_eq (o b) v
  | Some (Err _) => false
  | None => true
  end.

Definition is_idle (s : sim) : bool :=
  match sE s, sQ s with [], [] => srunning s | _, _ => false end.

(* ---- correspondence case ---- *)
Definition outs_of_list (l : list val) : outs := fun k => nth k l VUndef.

(* monitor on OBSERVED snapshots only: every CBlock consistent in every idle snapshot *)
Definition snapshot_consistent (c : circuit) (snap : list val) : bool :=
  forallb (consistent c (outs_of_list snap)) (seq 0 (List.length c)).

Fixpoint steps_monitor (c : circuit) (xs : list step) : bool :=
  match xs with
  | [] => true
  | SIdle snap :: r => snapshot_consistent c snap && steps_monitor c r
  | _ :: r => steps_monitor c r
  end.

Record c1case := { c1_circ : circuit; c1_steps : list step }.

Definition c1_agree (k : c1case) : bool :=
  match run (c1_circ k) init_sim (c1_steps k) with Ok _ => true | Err _ => false end.
Definition c1_monitor (k : c1case) : bool := steps_monitor (c1_circ k) (c1_steps k).
Definition c1_verdict (k : c1case) : ascii :=
  match c1_agree k, c1_monitor k with
  | true, true => "A" | true, false => "X" | false, true => "R" | false, false => "V"
  end%char.

(* ---------- C10: classification of circuits and the monitor ---------- *)
(* combinational predecessors of block b (distinct) *)
Definition cpreds (c : circuit) (b : nat) : list nat :=
  filter (fun p => is_cblock c p && reads c b p) (seq 0 (List.length c)).

(* topologically numbered: every block read by b has a smaller index *)
Definition topo (c : circuit) : bool :=
  forallb (fun b => forallb (fun p => negb (reads c b p) || Nat.ltb p b) (seq 0 (List.length c)))
          (seq 0 (List.length c)).

(* number of paths ending in b, computed along the numbering (fuel = index) *)
Fixpoint paths_upto (c : circuit) (n : nat) : list nat :=
  match n with
  | O => []
  | S k => let prev := paths_upto c k in
           prev ++ [if is_cblock c k
                    then S (fold_left (fun acc p => (acc + nth p prev 0)%nat) (cpreds c k) 0%nat)
                    else 0%nat]
  end.
Definition path_sum (c : circuit) : nat := fold_left Nat.add (paths_upto c (List.length c)) 0%nat.
Definition few_paths (c : circuit) : bool := topo c && Nat.leb (path_sum c) (eval_limit c).

(* monitor over the observed schedule: never more than eval_limit evaluations in one burst;
   an instability error only after exactly eval_limit
   evaluations in that burst; never for a topologically numbered circuit with few paths whose
   burst contains no set_output after its first evaluation (no feedback, one change per
   source); every idle snapshot consistent *)
Fixpoint c10_mon (c : circuit) (xs : list step) (evals : nat) (clean : bool) : bool :=
  match xs with
  | [] => true
  | SEval _ _ :: r => Nat.leb (S evals) (eval_limit c) && c10_mon c r (S evals) clean
  | SSet _ _ :: r => c10_mon c r evals (clean && Nat.eqb evals 0%nat)
  | SIdle snap :: r => snapshot_consistent c snap && c10_mon c r 0%nat true
  | SUnstable :: r => Nat.eqb evals (eval_limit c) && negb (few_paths c && clean)
  end.

Definition c10_monitor (k : c1case) : bool := c10_mon (c1_circ k) (c1_steps k) 0%nat true.
Definition c10_verdict (k : c1case) : ascii :=
  (if c10_monitor k then (if c1_agree k then "A" else "R") else "V")%char.
