(* Model of output events: SBlock.set_output / CBlock.eval_block (edzed/block.py:433-447,
   506-522) with Event.send from Filters.v.  Definitions only. *)
From Verif Require Export Values Filters.
Open Scope string_scope.
Open Scope list_scope.

(* ---- abstract emissions: which event fires with which previous/value ---- *)
Inductive emkind := EOut (i : nat) | EEvery (j : nat).
Record emission := { em_kind : emkind; em_prev : val; em_val : val }.

(* one assignment set_output(v) on a block with nout on_output and nevery on_every_output
   events: new output and the emissions in the order they are sent *)
Definition set_output (nout nevery : nat) (out v : val) : val * list emission :=
  if py_eq out v then
    (out, map (fun j => {| em_kind := EEvery j; em_prev := out; em_val := v |}) (seq 0 nevery))
  else
    (v, map (fun i => {| em_kind := EOut i; em_prev := out; em_val := v |}) (seq 0 nout) ++
        map (fun j => {| em_kind := EEvery j; em_prev := out; em_val := v |}) (seq 0 nevery)).

(* a history of assignments: emissions per assignment *)
Fixpoint history (nout nevery : nat) (out : val) (vs : list val) : list (list emission) :=
  match vs with
  | [] => []
  | v :: r => let '(o, ems) := set_output nout nevery out v in ems :: history nout nevery o r
  end.

Definition final_output (out : val) (vs : list val) : val :=
  fold_left (fun o v => if py_eq o v then o else v) vs out.

(* the independent spec: the successive CHANGES of the output as (previous, value) pairs *)
Fixpoint changes (out : val) (vs : list val) : list (val * val) :=
  match vs with
  | [] => []
  | v :: r => if py_eq out v then changes out r else (out, v) :: changes v r
  end.

(* the independent spec of on_every_output: one (previous, value) per assignment *)
Fixpoint every_pairs (out : val) (vs : list val) : list (val * val) :=
  match vs with
  | [] => []
  | v :: r => (out, v) :: every_pairs (if py_eq out v then out else v) r
  end.

Definition is_out (i : nat) (e : emission) : bool :=
  match em_kind e with EOut i' => Nat.eqb i i' | _ => false end.
Definition is_every (j : nat) (e : emission) : bool :=
  match em_kind e with EEvery j' => Nat.eqb j j' | _ => false end.
Definition pv (e : emission) : val * val := (em_prev e, em_val e).

(* ---- concrete deliveries: each configured event has filters and a destination ---- *)
Record evcfg := { ev_filters : list filt; ev_dest : nat }.

Definition base_data (prev v : val) : data :=
  [("trigger", VStr "output"); ("previous", prev); ("value", v)].

Definition deliver_one (src : string) (prev v : val) (e : evcfg) : list (nat * data) :=
  match send src (map run_filt (ev_filters e)) (base_data prev v) with
  | Ok (Some d) => [(ev_dest e, d)]
  | _ => []
  end.

Definition cfg_of (on_out on_every : list evcfg) (k : emkind) : option evcfg :=
  match k with EOut i => nth_error on_out i | EEvery j => nth_error on_every j end.

Definition deliveries (src : string) (on_out on_every : list evcfg) (ems : list emission)
  : list (nat * data) :=
  flat_map (fun e => match cfg_of on_out on_every (em_kind e) with
                     | Some c => deliver_one src (em_prev e) (em_val e) c
                     | None => [] end) ems.

Record c2case := {
  c2_src : string;
  c2_on_output : list evcfg; c2_on_every : list evcfg;
  c2_assign : list val;                  (* assigned values in order, read from the wrapper *)
  c2_obs : list (list (nat * data));     (* per assignment: deliveries between Begin and End *)
  c2_stray : nat;                        (* deliveries outside every bracket *)
  c2_final : val;                        (* the block's output at the end *)
  c2_identity_ok : bool }.               (* previous(k+1) IS value(k) (checked in Python) *)

Fixpoint dl_eqb (a b : list (nat * data)) : bool :=
  match a, b with
  | [], [] => true
  | (n, d) :: a', (m, e) :: b' => Nat.eqb n m && data_equiv d e && dl_eqb a' b'
  | _, _ => false
  end.
Fixpoint dll_eqb (a b : list (list (nat * data))) : bool :=
  match a, b with
  | [], [] => true
  | x :: a', y :: b' => dl_eqb x y && dll_eqb a' b'
  | _, _ => false
  end.

Definition c2_agree (c : c2case) : bool :=
  let h := history (List.length (c2_on_output c)) (List.length (c2_on_every c)) VUndef (c2_assign c) in
  dll_eqb (map (deliveries (c2_src c) (c2_on_output c) (c2_on_every c)) h) (c2_obs c)
  && Nat.eqb (c2_stray c) 0 && c2_identity_ok c
  && val_eqb (final_output VUndef (c2_assign c)) (c2_final c).

Definition c2_verdict (c : c2case) : ascii := if c2_agree c then "A"%char else "V"%char.
