(* Model of SBlock.event (edzed/block.py:532-633): recursion guard, conditional events,
   early initialisation by an event (_enable_event window), error classification, and of
   Circuit.init_sblock for blocks whose init_regular sends events.  Definitions only. *)
From Verif Require Export Values.
Open Scope string_scope.
Open Scope list_scope.
Open Scope nat_scope.

Inductive etspec := ETPlain (s : string) | ETCond (t f : option etspec).

(* EventCond: etrue if data.get('value') else efalse, repeatedly; None = no event *)
Fixpoint resolve (et : etspec) (vt : bool) : option string :=
  match et with
  | ETPlain s => Some s
  | ETCond t f => match (if vt then t else f) with
                  | None => None
                  | Some e => resolve e vt
                  end
  end.

Record send := { s_dest : nat; s_et : etspec; s_vt : bool; s_pass : bool }.
(* what a handler / an init routine does, in order *)
Inductive action :=
| ASend (s : send)      (* Event.send: filters (pass or veto), then dest.event() *)
| ARaise                (* an error raised inside the routine *)
| AParamErr.            (* marks a handler that cannot be called with the given data *)

Record blk := { b_handlers : list (string * list action); b_init : list action }.
Definition topo := list blk.

Inductive istate := INot | IProg | IDone.
Inductive outcome := ORet | ONone | OErr (k : errkind).

Record st := {
  active : nat -> bool;          (* SBlock._event_active *)
  ist : nat -> istate;           (* init_steps_completed: 0/1, negative, 2 *)
  running : nat -> nat;          (* handlers of the block currently executing *)
  aborted : bool;                (* Circuit.abort() was called *)
  reentered : bool;              (* a handler started while another one of the same block ran *)
  hlog : list (nat * string) }.  (* handler invocations, in order *)

Definition fupd {A} (f : nat -> A) (i : nat) (v : A) : nat -> A :=
  fun k => if Nat.eqb k i then v else f k.

Definition set_active (s : st) (b : nat) (v : bool) : st :=
  {| active := fupd (active s) b v; ist := ist s; running := running s; aborted := aborted s;
     reentered := reentered s; hlog := hlog s |}.
Definition set_ist (s : st) (b : nat) (v : istate) : st :=
  {| active := active s; ist := fupd (ist s) b v; running := running s; aborted := aborted s;
     reentered := reentered s; hlog := hlog s |}.
Definition set_aborted (s : st) : st :=
  {| active := active s; ist := ist s; running := running s; aborted := true;
     reentered := reentered s; hlog := hlog s |}.
Definition start_handler (s : st) (b : nat) (name : string) : st :=
  {| active := active s; ist := ist s; running := fupd (running s) b (S (running s b));
     aborted := aborted s;
     reentered := reentered s || negb (Nat.eqb (running s b) 0);
     hlog := hlog s ++ [(b, name)] |}.
Definition end_handler (s : st) (b : nat) : st :=
  {| active := active s; ist := ist s; running := fupd (running s) b (pred (running s b));
     aborted := aborted s; reentered := reentered s; hlog := hlog s |}.

Fixpoint hlookup (name : string) (l : list (string * list action)) : option (list action) :=
  match l with [] => None | (k, v) :: r => if String.eqb name k then Some v else hlookup name r end.

Definition get_blk (T : topo) (b : nat) : blk := nth b T {| b_handlers := []; b_init := [] |}.

(* one routine (handler or init_regular) of a block: run the actions until one raises *)
Section Script.
  Variable deliver_f : st -> nat -> etspec -> bool -> st * outcome.
  Fixpoint run_script (s : st) (acts : list action) : st * option errkind :=
    match acts with
    | [] => (s, None)
    | ARaise :: _ => (s, Some EHandler)
    | AParamErr :: _ => (s, Some EParam)
    | ASend sd :: r =>
        if s_pass sd then
          let '(s1, o) := deliver_f s (s_dest sd) (s_et sd) (s_vt sd) in
          match o with
          | OErr e => (s1, Some e)
          | _ => run_script s1 r
          end
        else run_script s r      (* vetoed by a filter: nothing is delivered *)
    end.
End Script.

(* SBlock.event(etype, **data) on block b *)
Fixpoint deliver (fuel : nat) (T : topo) (s : st) (b : nat) (et : etspec) (vt : bool)
  : st * outcome :=
  match fuel with
  | O => (s, OErr EOutOfFuel)
  | S f =>
    if active s b then (s, OErr ERecursion) else
    let s1 := set_active s b true in
    match resolve et vt with
    | None => (set_active s1 b false, ONone)
    | Some name =>
      (* a block that has not completed its initialisation is initialised first, with the
         guard lifted (the documented exception "initialisation of a block by an event") *)
      let '(s2, ierr) :=
        match ist s1 b with
        | INot =>
            let s' := set_ist (set_active s1 b false) b IProg in
            let '(s'', r) := run_script (deliver f T) s' (b_init (get_blk T b)) in
            match r with
            | None => (set_active (set_ist s'' b IDone) b true, None)
            | Some e => (set_active s'' b true, Some e)
            end
        | _ => (s1, None)
        end in
      match ierr with
      | Some e => (set_active s2 b false, OErr e)
      | None =>
        match hlookup name (b_handlers (get_blk T b)) with
        | None => (set_active s2 b false, OErr EUnknownEvent)
        | Some (AParamErr :: _) => (set_active s2 b false, OErr EParam)
        | Some acts =>
            let s3 := start_handler s2 b name in
            let '(s4, r) := run_script (deliver f T) s3 acts in
            let s5 := end_handler s4 b in
            match r with
            | None => (set_active s5 b false, ORet)
            | Some EUnknownEvent => (set_active s5 b false, OErr EUnknownEvent)
            | Some e => (set_active (set_aborted s5) b false, OErr e)
            end
        end
      end
    end
  end.

(* start-up: init_regular of every block in creation order (unless already initialised by
   an event); an error ends the start-up *)
Fixpoint init_phase (fuel : nat) (T : topo) (s : st) (order : list nat) : st * option errkind :=
  match order with
  | [] => (s, None)
  | b :: r =>
      match ist s b with
      | INot =>
          let s' := set_ist s b IProg in
          let '(s'', e) := run_script (deliver fuel T) s' (b_init (get_blk T b)) in
          match e with
          | None => init_phase fuel T (set_ist s'' b IDone) r
          | Some k => (s'', Some k)
          end
      | _ => init_phase fuel T s r
      end
  end.

Definition st0 : st :=
  {| active := fun _ => false; ist := fun _ => INot; running := fun _ => 0; aborted := false;
     reentered := false; hlog := [] |}.

(* top-level events after the start *)
Record top := { t_blk : nat; t_et : etspec; t_vt : bool }.

Record tobs := {
  o_outcome : outcome;
  o_aborted : bool;                  (* Circuit.error set afterwards *)
  o_log : list (nat * string);       (* handler invocations caused by this event *)
  o_released : bool;                 (* a follow-up event is accepted by every block *)
  o_maxdepth_ok : bool }.            (* no handler ran nested in a handler of its own block *)

Definition outcome_eqb (a b : outcome) : bool :=
  match a, b with
  | ORet, ORet | ONone, ONone => true
  | OErr x, OErr y => errkind_eqb x y
  | _, _ => false
  end.
Fixpoint hlog_eqb (a b : list (nat * string)) : bool :=
  match a, b with
  | [], [] => true
  | (n, s) :: a', (m, t) :: b' => Nat.eqb n m && String.eqb s t && hlog_eqb a' b'
  | _, _ => false
  end.

Definition all_released (n : nat) (s : st) : bool := forallb (fun b => negb (active s b)) (seq 0 n).

Definition clear_log (s : st) : st :=
  {| active := active s; ist := ist s; running := running s; aborted := aborted s;
     reentered := reentered s; hlog := [] |}.

Fixpoint run_tops (fuel : nat) (T : topo) (s : st) (ts : list top) (obs : list tobs) : bool :=
  match ts, obs with
  | [], [] => true
  | t :: r, o :: r' =>
      let '(s1, out) := deliver fuel T (clear_log s) (t_blk t) (t_et t) (t_vt t) in
      outcome_eqb out (o_outcome o) && Bool.eqb (aborted s1) (o_aborted o)
      && hlog_eqb (hlog s1) (o_log o) && Bool.eqb (all_released (List.length T) s1) (o_released o)
      && Bool.eqb (negb (reentered s1)) (o_maxdepth_ok o)
      && run_tops fuel T s1 r r'
  | _, _ => false
  end.

Record dcase := {
  d_topo : topo;
  d_init_err : option errkind;        (* observed: did the start fail, with what *)
  d_init_log : list (nat * string);   (* observed handler invocations during the start *)
  d_init_depth_ok : bool;
  d_tops : list top;
  d_obs : list tobs }.

Definition oerr_eqb (a b : option errkind) : bool :=
  match a, b with Some x, Some y => errkind_eqb x y | None, None => true | _, _ => false end.

Definition fuel_for (T : topo) : nat := 2 * List.length T + 2.

Definition dcase_agree (k : dcase) : bool :=
  let T := d_topo k in
  let '(s1, e) := init_phase (fuel_for T) T st0 (seq 0 (List.length T)) in
  oerr_eqb e (d_init_err k) && hlog_eqb (hlog s1) (d_init_log k)
  && Bool.eqb (negb (reentered s1)) (d_init_depth_ok k)
  && match e with
     | Some _ => match d_obs k with [] => true | _ => false end
     | None => run_tops (fuel_for T) T s1 (d_tops k) (d_obs k)
     end.

(* the property on observed values only *)
Definition tobs_monitor (o : tobs) : bool :=
  o_released o && o_maxdepth_ok o &&
  match o_outcome o with
  | ONone | OErr EUnknownEvent | OErr EParam => true     (* harmless at the top level *)
  | _ => true
  end.
Definition dcase_monitor (k : dcase) : bool :=
  d_init_depth_ok k && forallb tobs_monitor (d_obs k).

Definition d_verdict (k : dcase) : ascii :=
  match dcase_agree k, dcase_monitor k with
  | true, true => "A" | true, false => "X" | false, true => "R" | false, false => "V"
  end%char.
