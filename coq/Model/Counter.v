(* Model of edzed.Counter (edzed/blocklib/sblocks1.py:49-85).  Definitions only. *)
From Verif Require Export Values.
From Coq Require Export Qround.
Open Scope Q_scope.

(* Python's a % m on numbers: the result has the sign of m. *)
Definition pymod (a m : Q) : Q := a - m * inject_Z (Qfloor (a / m)).

Definition setmod (m : option Q) (v : Q) : Q :=
  match m with None => v | Some mm => pymod v mm end.

(* Events: amount / value are optional keyword items. *)
Inductive cev := Inc (a : option Q) | Dec (a : option Q) | Put (v : option Q) | Reset | Unknown.

Definition dflt1 (a : option Q) : Q := match a with Some x => x | None => 1 end.

Record ccfg := { cmod : option Q; cinit : Q }.

(* Counter(modulo=m, initdef=i): modulo == 0 is refused *)
Definition ccreate (m : option Q) (i : Q) : res ccfg :=
  match m with
  | Some mm => if Qeq_bool mm 0 then Err EValue else Ok {| cmod := m; cinit := i |}
  | None => Ok {| cmod := m; cinit := i |}
  end.

(* init_from_value / _restore_state are both _setmod *)
Definition cstart (c : ccfg) (restored : option Q) : Q :=
  match restored with
  | Some r => setmod (cmod c) r
  | None => setmod (cmod c) (cinit c)
  end.

(* One event: (what the caller gets, new output). *)
Definition cstep (c : ccfg) (out : Q) (e : cev) : res Q * Q :=
  match e with
  | Inc a => let o := setmod (cmod c) (out + dflt1 a) in (Ok o, o)
  | Dec a => let o := setmod (cmod c) (out - dflt1 a) in (Ok o, o)
  | Put (Some v) => let o := setmod (cmod c) v in (Ok o, o)
  | Put None => (Err EParam, out)          (* TypeError at the call boundary: caller only *)
  | Reset => let o := setmod (cmod c) (cinit c) in (Ok o, o)
  | Unknown => (Err EUnknownEvent, out)
  end.

Fixpoint crun (c : ccfg) (out : Q) (evs : list cev) : list (res Q * Q) :=
  match evs with
  | [] => []
  | e :: r => let '(x, o) := cstep c out e in (x, o) :: crun c o r
  end.

Definition cfinal (c : ccfg) (out : Q) (evs : list cev) : Q :=
  fold_left (fun o e => snd (cstep c o e)) evs out.

(* The reference accumulator of the property: plain arithmetic, never reduced. *)
Definition acc_step (init : Q) (a : Q) (e : cev) : Q :=
  match e with
  | Inc x => a + dflt1 x
  | Dec x => a - dflt1 x
  | Put (Some v) => v
  | Put None => a
  | Reset => init
  | Unknown => a
  end.

(* ---- correspondence: compare an observed run with the model ---- *)
Inductive cobs := OVal (q : Q) | OErr (k : errkind).

Definition res_matches (r : res Q) (o : cobs) : bool :=
  match r, o with
  | Ok q, OVal q' => Qeq_bool q q'
  | Err k, OErr k' => errkind_eqb k k'
  | _, _ => false
  end.

(* observed: per event (return value or error, output afterwards) *)
Fixpoint cagree (c : ccfg) (out : Q) (evs : list cev) (obs : list (cobs * Q)) : bool :=
  match evs, obs with
  | [], [] => true
  | e :: r, (x, o) :: r' =>
      let '(mx, mo) := cstep c out e in
      res_matches mx x && Qeq_bool mo o && cagree c mo r r'
  | _, _ => false
  end.

(* The property as a monitor over the *observed* values only:
   every output is the reference accumulator reduced once, every handled event
   returned the output, faulty events changed nothing, and 0 <= out < M. *)
Definition in_range (m : option Q) (o : Q) : bool :=
  match m with
  | Some mm => if Qle_bool mm 0 then true else Qle_bool 0 o && negb (Qle_bool mm o)
  | None => true
  end.

Fixpoint cmonitor (c : ccfg) (acc : Q) (prev : Q) (evs : list cev) (obs : list (cobs * Q)) : bool :=
  match evs, obs with
  | [], [] => true
  | e :: r, (x, o) :: r' =>
      let acc' := acc_step (cinit c) acc e in
      let ok :=
        match e with
        | Put None => match x with OErr EParam => Qeq_bool o prev | _ => false end
        | Unknown => match x with OErr EUnknownEvent => Qeq_bool o prev | _ => false end
        | _ => match x with OVal q => Qeq_bool q o && Qeq_bool o (setmod (cmod c) acc')
                          | _ => false end
        end in
      ok && in_range (cmod c) o && cmonitor c acc' o r r'
  | _, _ => false
  end.

(* A whole case as the harness writes it. *)
Record ccase := {
  k_mod : option Q; k_init : Q; k_restored : option Q;
  k_created : bool;                 (* did the constructor succeed *)
  k_start : Q;                      (* observed output after start-up *)
  k_evs : list cev; k_obs : list (cobs * Q) }.

Definition case_agree (k : ccase) : bool :=
  match ccreate (k_mod k) (k_init k) with
  | Err _ => negb (k_created k)
  | Ok c => k_created k &&
            Qeq_bool (cstart c (k_restored k)) (k_start k) &&
            cagree c (cstart c (k_restored k)) (k_evs k) (k_obs k)
  end.

Definition start_acc (k : ccase) : Q :=
  match k_restored k with Some r => r | None => k_init k end.

Definition case_monitor (k : ccase) : bool :=
  match k_mod k with
  | Some mm => if Qeq_bool mm 0 then negb (k_created k) else
      k_created k &&
      Qeq_bool (k_start k) (pymod (start_acc k) mm) && in_range (k_mod k) (k_start k) &&
      cmonitor {| cmod := k_mod k; cinit := k_init k |} (start_acc k) (k_start k) (k_evs k) (k_obs k)
  | None =>
      k_created k && Qeq_bool (k_start k) (start_acc k) &&
      cmonitor {| cmod := None; cinit := k_init k |} (start_acc k) (k_start k) (k_evs k) (k_obs k)
  end.

Definition verdict (agree monitor : bool) : ascii :=
  match agree, monitor with
  | true, true => "A" | true, false => "X" | false, true => "R" | false, false => "V"
  end%char.
