(* Model of _Validation, Input and the value part of InputExp
   (edzed/blocklib/sblocks2.py:28-135).  Definitions only. *)
From Verif Require Export Values.
Open Scope Z_scope.

(* The three optional validators.  schema returns None when it raises. *)
Record validators := {
  v_allowed : option (val -> bool);
  v_check : option (val -> bool);
  v_schema : option (val -> option val) }.

(* _validate: allowed, then check, then schema - all applied to the ORIGINAL value *)
Definition validate (V : validators) (v : val) : option val :=
  match v_allowed V with
  | Some a => if a v then
      match v_check V with
      | Some c => if c v then match v_schema V with Some s => s v | None => Some v end else None
      | None => match v_schema V with Some s => s v | None => Some v end
      end else None
  | None =>
      match v_check V with
      | Some c => if c v then match v_schema V with Some s => s v | None => Some v end else None
      | None => match v_schema V with Some s => s v | None => Some v end
      end
  end.

Definition allowed_ok (V : validators) (v : val) : bool :=
  match v_allowed V with Some a => a v | None => true end.
Definition check_ok (V : validators) (v : val) : bool :=
  match v_check V with Some c => c v | None => true end.
Definition schema_res (V : validators) (v : val) : option val :=
  match v_schema V with Some s => s v | None => Some v end.

(* Input._event_put: (return value, new output) *)
Definition input_put (V : validators) (out : val) (v : val) : bool * val :=
  match validate V v with
  | Some v' => (true, v')
  | None => (false, out)
  end.

Fixpoint input_run (V : validators) (out : val) (vs : list val) : list (bool * val) :=
  match vs with
  | [] => []
  | v :: r => let '(b, o) := input_put V out v in (b, o) :: input_run V o r
  end.

Definition input_final (V : validators) (out : val) (vs : list val) : val :=
  fold_left (fun o v => snd (input_put V o v)) vs out.

(* Input(...initdef=i): an initdef that fails validation is refused *)
Definition input_create (V : validators) (initdef : val) : res unit :=
  match initdef with
  | VUndef => Ok tt
  | _ => match validate V initdef with Some _ => Ok tt | None => Err EValue end
  end.

(* start-up: restored value (through 'put'), then initdef (through 'put') if still UNDEF *)
Definition input_start (V : validators) (initdef : val) (restored : option val) : val :=
  let o1 := match restored with Some r => snd (input_put V VUndef r) | None => VUndef end in
  match o1 with
  | VUndef => match initdef with VUndef => VUndef | _ => snd (input_put V VUndef initdef) end
  | _ => o1
  end.

(* the independent description of "result of the last accepted put" (vs is chronological:
   a later accepted value wins) *)
Fixpoint last_accepted (V : validators) (vs : list val) : option val :=
  match vs with
  | [] => None
  | v :: r => match last_accepted V r with
              | Some o => Some o
              | None => validate V v
              end
  end.

(* ---- InputExp, value part: state 'valid' holds sdata['input'], 'expired' shows `expired` *)
Inductive iexp_state := IExpired | IValid (input : val).
Definition iexp_output (expired' : val) (s : iexp_state) : val :=
  match s with IExpired => expired' | IValid v => v end.
Definition iexp_create (V : validators) (initdef expired : val) : res (iexp_state * val) :=
  match validate V expired with
  | None => Err EValue
  | Some e' =>
      match initdef with
      | VUndef => Ok (IExpired, e')
      | _ => match validate V initdef with Some i' => Ok (IValid i', e') | None => Err EValue end
      end
  end.
Definition iexp_put (V : validators) (s : iexp_state) (v : val) : bool * iexp_state :=
  match validate V v with Some v' => (true, IValid v') | None => (false, s) end.

(* a saved value part is restored only if it passes the validation (like Input) *)
Definition iexp_start (V : validators) (s0 : iexp_state) (restored : option val) : iexp_state :=
  match restored with
  | Some r => match validate V r with Some r' => IValid r' | None => s0 end
  | None => s0
  end.

(* ---- concrete validators from tables, for the generated cases ---- *)
Definition tbl_pred (l : list val) (strict : bool) (v : val) : bool :=
  existsb (fun x => if strict then val_eqb v x else py_eq v x) l.
Fixpoint tbl_schema (t : list (val * option val)) (v : val) : option val :=
  match t with
  | [] => None
  | (k, r) :: rest => if val_eqb v k then r else tbl_schema rest v
  end.

Record vtables := {
  t_allowed : option (list val);                 (* frozenset membership: == *)
  t_check : option (list val);                   (* values (by type and value) the check accepts *)
  t_schema : option (list (val * option val)) }. (* value -> result | raises; unknown raises *)

Definition mkV (t : vtables) : validators :=
  {| v_allowed := option_map (fun l => tbl_pred l false) (t_allowed t);
     v_check := option_map (fun l => tbl_pred l true) (t_check t);
     v_schema := option_map tbl_schema (t_schema t) |}.

Inductive cobs := CreatedOk | CreateErr (k : errkind).

Record icase := {
  i_tables : vtables; i_initdef : val; i_restored : option val;
  i_created : cobs;
  i_start : val;                              (* output after start-up (VUndef if start failed) *)
  i_puts : list val;
  i_obs : list (bool * val) }.                (* per put: return value, output afterwards *)

Fixpoint obs_eqb (a b : list (bool * val)) : bool :=
  match a, b with
  | [], [] => true
  | (x, o) :: a', (y, p) :: b' => Bool.eqb x y && py_eq o p && obs_eqb a' b'
  | _, _ => false
  end.

Definition icase_agree (k : icase) : bool :=
  let V := mkV (i_tables k) in
  match input_create V (i_initdef k), i_created k with
  | Err e, CreateErr e' => errkind_eqb e e'
  | Ok _, CreatedOk =>
      let s := input_start V (i_initdef k) (i_restored k) in
      py_eq s (i_start k) && obs_eqb (input_run V s (i_puts k)) (i_obs k)
  | _, _ => false
  end.

(* InputExp cases *)
Record ecase := {
  e_tables : vtables; e_initdef : val; e_expired : val;
  e_restored : option val;      (* saved state ('valid', no timer, {'input': v}) in the storage *)
  e_created : cobs; e_start : val; e_puts : list val; e_obs : list (bool * val) }.

Fixpoint iexp_run (V : validators) (ex : val) (s : iexp_state) (vs : list val) : list (bool * val) :=
  match vs with
  | [] => []
  | v :: r => let '(b, s') := iexp_put V s v in (b, iexp_output ex s') :: iexp_run V ex s' r
  end.

Definition ecase_agree (k : ecase) : bool :=
  let V := mkV (e_tables k) in
  match iexp_create V (e_initdef k) (e_expired k), e_created k with
  | Err e, CreateErr e' => errkind_eqb e e'
  | Ok (s0, ex), CreatedOk =>
      let s := iexp_start V s0 (e_restored k) in
      py_eq (iexp_output ex s) (e_start k) && obs_eqb (iexp_run V ex s (e_puts k)) (e_obs k)
  | _, _ => false
  end.

Inductive vcase := VI (k : icase) | VE (k : ecase).

(* Monitor on observed values only: every observed output was produced by the validators
   from the value of the last accepted put (or is the start value), and the return
   values are exactly the acceptance decisions. *)
Fixpoint imonitor (V : validators) (prev : val) (vs : list val) (obs : list (bool * val)) : bool :=
  match vs, obs with
  | [], [] => true
  | v :: r, (b, o) :: r' =>
      let acc := allowed_ok V v && check_ok V v in
      let ok := match (if acc then schema_res V v else None) with
                | Some v' => b && py_eq o v'
                | None => negb b && py_eq o prev
                end in
      ok && imonitor V o r r'
  | _, _ => false
  end.

Definition icase_monitor (k : icase) : bool :=
  let V := mkV (i_tables k) in
  match i_created k with
  | CreateErr _ =>
      (* refused iff the initdef is given and not acceptable *)
      match i_initdef k with
      | VUndef => false
      | i => negb (allowed_ok V i && check_ok V i &&
                   match schema_res V i with Some _ => true | None => false end)
      end
  | CreatedOk =>
      match i_initdef k with
      | VUndef => true
      | i => allowed_ok V i && check_ok V i && match schema_res V i with Some _ => true | None => false end
      end && imonitor V (i_start k) (i_puts k) (i_obs k)
  end.

Definition vverdict (c : vcase) : ascii :=
  match c with
  | VI k => match icase_agree k, icase_monitor k with
            | true, true => "A" | true, false => "X" | false, true => "R" | false, false => "V" end
  | VE k => if ecase_agree k then "A" else "V"
  end%char.
