(* Model of the clean-up discipline of Circuit.run_forever / _stop_sblocks
   (edzed/simulator.py:534-573, 636-721): which blocks are stopped, in which order, and what must
   be gone afterwards.  The order inside the two groups (sets in the code) is not determined, so
   the model is an acceptor over the observed log.  Definitions only. *)
From Verif Require Export Values.
Open Scope list_scope.

Inductive lev :=
  | LStart (i : nat)      (* start() of block i returned *)
  | LStop (i : nat)       (* stop() of block i was called *)
  | LSaBegin (i : nat)    (* stop_async() of block i started *)
  | LSaEnd (i : nat).     (* ... finished, failed or was cancelled by its stop_timeout *)

Record lplan := {
  lp_n : nat;                       (* number of blocks, creation order 0..n-1 *)
  lp_async : list nat;              (* blocks with asynchronous clean-up (stop_async and stop_timeout > 0) *)
  lp_prestart_fail : bool;          (* the run fails before any start() (aborted before start, ...) *)
  lp_start_fail : option nat }.     (* start() of this block raises *)

(* blocks whose start() returns: all of them, or those created before the failing one *)
Definition started (p : lplan) : list nat :=
  if lp_prestart_fail p then []
  else seq 0 (match lp_start_fail p with Some k => Nat.min k (lp_n p) | None => lp_n p end).

Definition is_async (p : lplan) (i : nat) : bool := existsb (Nat.eqb i) (lp_async p).

Fixpoint remove1 (i : nat) (l : list nat) : option (list nat) :=
  match l with
  | [] => None
  | x :: r => if Nat.eqb x i then Some r
              else match remove1 i r with Some r' => Some (x :: r') | None => None end
  end.

(* acceptor state: blocks still to be started (in order), async blocks awaiting stop(), awaiting
   the start / the end of stop_async, sync blocks awaiting stop() *)
Record lstate := {
  ls_tostart : list nat;
  ls_astop : list nat;
  ls_abegin : list nat;
  ls_aend : list nat;
  ls_sstop : list nat }.

Definition lstate0 (p : lplan) : lstate :=
  let st := started p in
  let a := filter (is_async p) st in
  {| ls_tostart := st; ls_astop := a; ls_abegin := a; ls_aend := [];
     ls_sstop := filter (fun i => negb (is_async p i)) st |}.

Definition lstep (s : lstate) (e : lev) : option lstate :=
  match e with
  | LStart i =>
      match ls_tostart s with
      | x :: r => if Nat.eqb x i then Some {| ls_tostart := r; ls_astop := ls_astop s; ls_abegin := ls_abegin s;
                                             ls_aend := ls_aend s; ls_sstop := ls_sstop s |} else None
      | [] => None
      end
  | LStop i =>
      match ls_tostart s with
      | _ :: _ => None                                  (* nothing is stopped before the start loop ended *)
      | [] =>
        match remove1 i (ls_astop s) with
        | Some r => Some {| ls_tostart := []; ls_astop := r; ls_abegin := ls_abegin s;
                            ls_aend := ls_aend s; ls_sstop := ls_sstop s |}
        | None =>
          (* a synchronous block: only when the asynchronous clean-up is over *)
          match ls_astop s, ls_abegin s, ls_aend s with
          | [], [], [] =>
              match remove1 i (ls_sstop s) with
              | Some r => Some {| ls_tostart := []; ls_astop := []; ls_abegin := []; ls_aend := [];
                                  ls_sstop := r |}
              | None => None
              end
          | _, _, _ => None
          end
        end
      end
  | LSaBegin i =>
      match ls_astop s with
      | [] =>                                           (* every async block got its stop() first *)
        match remove1 i (ls_abegin s) with
        | Some r => Some {| ls_tostart := ls_tostart s; ls_astop := []; ls_abegin := r;
                            ls_aend := i :: ls_aend s; ls_sstop := ls_sstop s |}
        | None => None
        end
      | _ :: _ => None
      end
  | LSaEnd i =>
      match remove1 i (ls_aend s) with
      | Some r => Some {| ls_tostart := ls_tostart s; ls_astop := ls_astop s; ls_abegin := ls_abegin s;
                          ls_aend := r; ls_sstop := ls_sstop s |}
      | None => None
      end
  end.

Fixpoint lrun (s : lstate) (l : list lev) : option lstate :=
  match l with
  | [] => Some s
  | e :: r => match lstep s e with Some s' => lrun s' r | None => None end
  end.

Definition lfinal (s : lstate) : bool :=
  match ls_tostart s, ls_astop s, ls_abegin s, ls_aend s, ls_sstop s with
  | [], [], [], [], [] => true
  | _, _, _, _, _ => false
  end.

Definition accepted (p : lplan) (l : list lev) : bool :=
  match lrun (lstate0 p) l with Some s => lfinal s | None => false end.

(* ---------- monitor on the observed log (independent of the plan's prediction of `started`) ---------- *)
Definition starts_of (l : list lev) : list nat := flat_map (fun e => match e with LStart i => [i] | _ => [] end) l.
Definition stops_of (l : list lev) : list nat := flat_map (fun e => match e with LStop i => [i] | _ => [] end) l.
Definition count_nat (i : nat) (l : list nat) : nat := List.length (filter (Nat.eqb i) l).

(* position-based ordering facts *)
Fixpoint all_saend_before_sync_stop (p : lplan) (l : list lev) : bool :=
  match l with
  | [] => true
  | LStop i :: r => if is_async p i then all_saend_before_sync_stop p r
                    else negb (existsb (fun e => match e with LSaEnd _ | LSaBegin _ => true | _ => false end) r)
                         && all_saend_before_sync_stop p r
  | _ :: r => all_saend_before_sync_stop p r
  end.

Definition stops_exactly_started (n : nat) (l : list lev) : bool :=
  forallb (fun i => Nat.eqb (count_nat i (stops_of l)) (count_nat i (starts_of l))
                    && Nat.leb (count_nat i (starts_of l)) 1) (seq 0 n)
  && forallb (fun i => Nat.ltb i n) (stops_of l).

Record lcase := {
  lc_plan : lplan;
  lc_log : list lev;
  lc_leaked_tasks : nat;          (* tasks created by edzed still pending when run() is over *)
  lc_leaked_timers : nat;         (* timers ... *)
  lc_stop_data_last : bool;       (* every started output block delivered its stop_data last *)
  lc_restart_refused : bool;      (* a second run_forever() raises EdzedInvalidState *)
  lc_modify_refused : bool;       (* adding a block afterwards raises *)
  lc_async_cleanup_us : Z;        (* virtual time from the first stop_async start to the last stop_async end *)
  lc_max_stop_timeout_us : Z }.   (* the largest stop_timeout among the blocks cleaned up asynchronously *)

Definition lcase_agree (k : lcase) : bool := accepted (lc_plan k) (lc_log k).

Definition lcase_monitor (k : lcase) : bool :=
  stops_exactly_started (lp_n (lc_plan k)) (lc_log k) &&
  all_saend_before_sync_stop (lc_plan k) (lc_log k) &&
  Nat.eqb (lc_leaked_tasks k) 0 && Nat.eqb (lc_leaked_timers k) 0 &&
  lc_stop_data_last k && lc_restart_refused k && lc_modify_refused k &&
  (* the asynchronous clean-up is bounded by stop_timeout (the tasks run concurrently) *)
  (lc_async_cleanup_us k <=? lc_max_stop_timeout_us k + 1000)%Z.

Definition l_verdict (k : lcase) : ascii :=
  (if lcase_monitor k then (if lcase_agree k then "A" else "R") else "V")%char.
