(* Model of edzed.FSM: control tables (edzed/fsm.py:77-173) and the transition engine
   _ctx_event (413-510) with conditions, entry/exit actions, chained transitions, output and
   state events.  Timers appear only as "zero duration = immediate timed event" here; the
   timed behaviour is in Timers.v.  Definitions only. *)
From Verif Require Export Values.
Open Scope string_scope.
Open Scope list_scope.
Open Scope nat_scope.

Inductive etype := EvName (s : string) | EvGoto (s : string).
Definition tag := option Z.          (* identity of an event's data: its 'tag' item *)

(* ---------- control tables ---------- *)
Definition rawevent := (string * option (list string) * option string)%type.
Definition ttable := list ((string * option string) * option string).

Fixpoint tlookup (t : ttable) (ev : string) (from : option string) : option (option string) :=
  match t with
  | [] => None
  | ((e, f), nxt) :: r =>
      if String.eqb e ev && match f, from with
                            | Some a, Some b => String.eqb a b
                            | None, None => true
                            | _, _ => false end
      then Some nxt else tlookup r ev from
  end.

Definition str_mem (s : string) (l : list string) : bool := existsb (String.eqb s) l.

(* EVENTS -> transition table; errors: unknown state, duplicate rule *)
Fixpoint add_rules (states : list string) (t : ttable) (ev : string) (froms : list (option string))
         (nxt : option string) : res ttable :=
  match froms with
  | [] => Ok t
  | f :: r =>
      if match f with Some s => negb (str_mem s states) | None => false end then Err EValue else
      match tlookup t ev f with
      | Some _ => Err EValue
      | None => add_rules states (t ++ [((ev, f), nxt)]) ev r nxt
      end
  end.

Fixpoint build_trans (states : list string) (t : ttable) (evs : list rawevent) : res ttable :=
  match evs with
  | [] => Ok t
  | (ev, froms, nxt) :: r =>
      if String.eqb ev "" then Err EValue else
      if match nxt with Some s => negb (str_mem s states) | None => false end then Err EValue else
      match add_rules states t ev (match froms with None => [None] | Some l => map Some l end) nxt with
      | Err e => Err e
      | Ok t1 => build_trans states t1 r
      end
  end.

Record fsmdef := {
  fd_states : list string;              (* STATES plus timed states *)
  fd_events : list string;
  fd_trans : ttable;
  fd_timed : list (string * etype) }.   (* timed state -> event sent when its timer expires *)

(* the new state for a table event: a rule for the current state beats the any-state rule;
   a missing rule or a None target = no transition *)
Definition next_state (d : fsmdef) (ev : string) (cur : string) : option string :=
  match tlookup (fd_trans d) ev (Some cur) with
  | Some nxt => nxt
  | None => match tlookup (fd_trans d) ev None with
            | Some nxt => nxt
            | None => None
            end
  end.

Fixpoint assoc {A} (k : string) (l : list (string * A)) : option A :=
  match l with [] => None | (k', v) :: r => if String.eqb k k' then Some v else assoc k r end.

(* ---------- the instance: callbacks as scripts ---------- *)
Inductive act := ASelf (e : etype) (t : tag) | AFail.
Inductive dur := DNone | DZero | DInf | DPos.
(* an exit action: just runs, raises, or sends an event to its own FSM (always refused) *)
Inductive xact := XLog | XFail | XSelf.

Record inst := {
  i_cond_inst : list (string * bool);      (* cond_EVENT=function given to the constructor *)
  i_cond_meth : list (string * bool);      (* cond_EVENT method of the class *)
  i_enter_inst : list (string * list act);
  i_enter_meth : list (string * list act);
  i_exit_inst : list (string * xact);
  i_exit_meth : list (string * xact);
  i_on_enter : list string;                (* states with an on_enter_STATE event *)
  i_on_exit : list string;
  i_on_notrans : bool;
  i_dur : list (string * dur);
  i_keep : list string;
  i_on_exit_bad : list string }.           (* states with a (further) on_exit_STATE event whose destination
                                              does not know the event type: the delivery raises
                                              EdzedUnknownEvent, which does not stop the simulation *)                  (* states for which calc_output returns UNDEF:
                                              "leave the output unchanged" *)           (* effective duration of the timed states *)

Inductive logent :=
| LCond (ev : string) (inst : bool) (t : tag)
| LExit (s : string) (inst : bool) (t : tag)
| LEnter (s : string) (inst : bool) (t : tag)
| LOnExit (s : string) (out : val)
| LOnEnter (s : string) (out : val)
| LNoTrans (ev s : string)
| LOut (prev new : val).

Record fstate := {
  f_state : option string;       (* None = UNDEF *)
  f_out : val;
  f_next : option (tag * string);(* pending chained transition: data identity, new state *)
  f_aborted : bool;
  f_log : list logent }.

Definition st_log (s : fstate) (l : list logent) : fstate :=
  {| f_state := f_state s; f_out := f_out s; f_next := f_next s; f_aborted := f_aborted s;
     f_log := f_log s ++ l |}.
Definition st_state (s : fstate) (x : string) : fstate :=
  {| f_state := Some x; f_out := f_out s; f_next := f_next s; f_aborted := f_aborted s;
     f_log := f_log s |}.
Definition st_next (s : fstate) (n : option (tag * string)) : fstate :=
  {| f_state := f_state s; f_out := f_out s; f_next := n; f_aborted := f_aborted s;
     f_log := f_log s |}.
Definition st_out (s : fstate) (v : val) : fstate :=
  {| f_state := f_state s; f_out := v; f_next := f_next s; f_aborted := f_aborted s;
     f_log := f_log s |}.
Definition st_abort (s : fstate) : fstate :=
  {| f_state := f_state s; f_out := f_out s; f_next := f_next s; f_aborted := true;
     f_log := f_log s |}.

Definition initialized (s : fstate) : bool := match f_out s with VUndef => false | _ => true end.

(* cond callbacks: the instance function first, then the method; both are always called *)
Definition cond_log (i : inst) (ev : string) (t : tag) : list logent * bool :=
  let a := assoc ev (i_cond_inst i) in
  let b := assoc ev (i_cond_meth i) in
  ((match a with Some _ => [LCond ev true t] | None => [] end) ++
   (match b with Some _ => [LCond ev false t] | None => [] end),
   (match a with Some r => r | None => true end) && (match b with Some r => r | None => true end)).

(* the part of _ctx_event before the transition: Ok (Some newstate) = go on; Ok None = rejected *)
Definition resolve_event (d : fsmdef) (i : inst) (s : fstate) (e : etype) (t : tag)
  : fstate * res (option string) :=
  match e with
  | EvGoto x => if str_mem x (fd_states d) then (s, Ok (Some x)) else (s, Err EValue)
  | EvName ev =>
      if negb (str_mem ev (fd_events d)) then (s, Err EUnknownEvent) else
      match f_state s with
      | None => (s, Err EOther)              (* assertion: non-Goto event to an uninitialised FSM *)
      | Some cur =>
          match next_state d ev cur with
          | None => (st_log s (if i_on_notrans i then [LNoTrans ev cur] else []), Ok None)
          | Some nxt =>
              if initialized s then
                let '(l, ok) := cond_log i ev t in
                (st_log s l, Ok (if ok then Some nxt else None))
              else (s, Ok (Some nxt))
          end
      end
  end.

(* an event arriving while a transition is in progress (from an entry action or a zero timer) *)
Definition nested_event (d : fsmdef) (i : inst) (s : fstate) (e : etype) (t : tag)
  : fstate * res bool :=
  match resolve_event d i s e t with
  | (s1, Err k) => (s1, Err k)
  | (s1, Ok None) => (s1, Ok false)
  | (s1, Ok (Some nxt)) =>
      match f_next s1 with
      | Some _ => (s1, Err EHandler)         (* "Forbidden event multiplication" *)
      | None => (st_next s1 (Some (t, nxt)), Ok true)
      end
  end.

(* an entry action: self-events are chained-transition requests; an error inside ends it *)
Fixpoint run_enter_script (d : fsmdef) (i : inst) (s : fstate) (acts : list act) : fstate * option errkind :=
  match acts with
  | [] => (s, None)
  | AFail :: _ => (s, Some EHandler)
  | ASelf e t :: r =>
      match nested_event d i s e t with
      | (s1, Err k) => (s1, Some k)
      | (s1, Ok _) => run_enter_script d i s1 r
      end
  end.

Definition run_enter (d : fsmdef) (i : inst) (s : fstate) (x : string) (vis : tag) : fstate * option errkind :=
  let s1 := match assoc x (i_enter_inst i) with
            | Some _ => st_log s [LEnter x true vis] | None => s end in
  match (match assoc x (i_enter_inst i) with Some a => run_enter_script d i s1 a | None => (s1, None) end) with
  | (s2, Some k) => (s2, Some k)
  | (s2, None) =>
      let s3 := match assoc x (i_enter_meth i) with
                | Some _ => st_log s2 [LEnter x false vis] | None => s2 end in
      match assoc x (i_enter_meth i) with Some a => run_enter_script d i s3 a | None => (s3, None) end
  end.

Definition run_exit (i : inst) (s : fstate) (x : string) (vis : tag) : fstate * option errkind :=
  let s1 := match assoc x (i_exit_inst i) with Some _ => st_log s [LExit x true vis] | None => s end in
  match assoc x (i_exit_inst i) with
  | Some XFail => (s1, Some EHandler)
  | Some XSelf => (s1, Some ERecursion)      (* "Forbidden recursive event() call" *)
  | _ =>
      let s2 := match assoc x (i_exit_meth i) with Some _ => st_log s1 [LExit x false vis] | None => s1 end in
      match assoc x (i_exit_meth i) with
      | Some XFail => (s2, Some EHandler)
      | Some XSelf => (s2, Some ERecursion)
      | _ => (s2, None)
      end
  end.

(* the loop of chained transitions; vis = the event data visible through fsm_event_data *)
Fixpoint chain (n : nat) (d : fsmdef) (i : inst) (s : fstate) (vis : tag) (newstate : string)
  : fstate * option errkind :=
  match n with
  | O => (s, Some EHandler)                 (* "Chained state transition limit reached" *)
  | S k =>
      let s1 := st_state s newstate in
      match run_enter d i s1 newstate vis with
      | (s2, Some e) => (s2, Some e)
      | (s2, None) =>
          let continue_with (s3 : fstate) :=
            match f_next s3 with
            | Some (t, nxt) =>
                (* intermediate state: no output, no events, but its exit action runs; the data
                   of the chained event becomes the visible one *)
                match k with
                | O => (s3, Some EHandler)   (* the limit is reached before the next iteration *)
                | _ =>
                  match run_exit i (st_next s3 None) newstate t with
                  | (s4, Some e) => (s4, Some e)
                  | (s4, None) => chain k d i s4 t nxt
                  end
                end
            | None => (s3, None)
            end in
          match f_next s2 with
          | Some _ => continue_with s2
          | None =>
              match assoc newstate (fd_timed d) with
              | None => (s2, None)
              | Some tev =>
                  match assoc newstate (i_dur i) with
                  | Some DZero =>
                      match nested_event d i s2 tev None with
                      | (s3, Err e) => (s3, Some e)
                      | (s3, Ok _) => continue_with s3
                      end
                  | Some DNone | None => (s2, Some EHandler)   (* "Timer duration ... not set" *)
                  | Some _ => (s2, None)
                  end
              end
          end
      end
  end.

Definition chain_limit (d : fsmdef) : nat := 3 * List.length (fd_states d).

(* calc_output(): the state, or UNDEF = keep the current output *)
Definition calc_out (i : inst) (s : fstate) (cur : string) : val :=
  if str_mem cur (i_keep i) then f_out s else VStr cur.

(* FSM.event(etype, tag=...) from outside a transition: (state, what the caller gets) *)
Definition fsm_event (d : fsmdef) (i : inst) (s0 : fstate) (e : etype) (t : tag)
  : fstate * res bool :=
  match resolve_event d i s0 e t with
  | (s1, Err EUnknownEvent) => (s1, Err EUnknownEvent)
  | (s1, Err k) => (st_abort s1, Err k)
  | (s1, Ok None) => (s1, Ok false)
  | (s1, Ok (Some nxt)) =>
      let r :=
        if initialized s1 then
          match f_state s1 with
          | Some cur =>
              match run_exit i s1 cur t with
              | (s2, Some e) => (s2, Some e)
              | (s2, None) =>
                  (st_log s2 (if str_mem cur (i_on_exit i) then [LOnExit cur (f_out s2)] else []),
                   if str_mem cur (i_on_exit_bad i) then Some EUnknownEvent else None)
              end
          | None => (s1, None)
          end
        else (s1, None) in
      match r with
      | (s2, Some EUnknownEvent) => (s2, Err EUnknownEvent)   (* the transition is abandoned, nothing else *)
      | (s2, Some k) => (st_abort s2, Err k)
      | (s2, None) =>
          match f_next s2 with
          | Some _ => (st_abort s2, Err EOther)   (* assert self._next_event is None: a chained
                                                     request left over by an entry action that
                                                     failed later with an unknown event type *)
          | None =>
          match chain (chain_limit d) d i s2 t nxt with
          | (s3, Some EUnknownEvent) => (s3, Err EUnknownEvent)
          | (s3, Some k) => (st_abort s3, Err k)
          | (s3, None) =>
              match f_state s3 with
              | Some cur =>
                  let out := calc_out i s3 cur in
                  let s4 := if py_eq (f_out s3) out then s3
                            else st_log (st_out s3 out) [LOut (f_out s3) out] in
                  (st_log s4 (if str_mem cur (i_on_enter i) then [LOnEnter cur (f_out s4)] else []),
                   Ok true)
              | None => (s3, Ok true)
              end
          end
          end
      end
  end.

Definition fstate0 : fstate :=
  {| f_state := None; f_out := VUndef; f_next := None; f_aborted := false; f_log := [] |}.

(* ---------- correspondence ---------- *)
Definition tag_eqb (a b : tag) : bool :=
  match a, b with Some x, Some y => Z.eqb x y | None, None => true | _, _ => false end.
Definition logent_eqb (a b : logent) : bool :=
  match a, b with
  | LCond e i t, LCond e' i' t' => String.eqb e e' && Bool.eqb i i' && tag_eqb t t'
  | LExit e i t, LExit e' i' t' => String.eqb e e' && Bool.eqb i i' && tag_eqb t t'
  | LEnter e i t, LEnter e' i' t' => String.eqb e e' && Bool.eqb i i' && tag_eqb t t'
  | LOnExit s o, LOnExit s' o' => String.eqb s s' && val_eqb o o'
  | LOnEnter s o, LOnEnter s' o' => String.eqb s s' && val_eqb o o'
  | LNoTrans e s, LNoTrans e' s' => String.eqb e e' && String.eqb s s'
  | LOut p n, LOut p' n' => val_eqb p p' && val_eqb n n'
  | _, _ => false
  end.
Fixpoint log_eqb (a b : list logent) : bool :=
  match a, b with
  | [], [] => true
  | x :: a', y :: b' => logent_eqb x y && log_eqb a' b'
  | _, _ => false
  end.

Record eobs := {
  eo_res : res bool;          (* return value of event() or the exception class *)
  eo_state : option string;
  eo_out : val;
  eo_aborted : bool;
  eo_log : list logent }.

Definition resb_eqb (a b : res bool) : bool :=
  match a, b with
  | Ok x, Ok y => Bool.eqb x y
  | Err x, Err y => errkind_eqb x y
  | _, _ => false
  end.
Definition ostr_eqb (a b : option string) : bool :=
  match a, b with Some x, Some y => String.eqb x y | None, None => true | _, _ => false end.

Definition clear_flog (s : fstate) : fstate :=
  {| f_state := f_state s; f_out := f_out s; f_next := f_next s; f_aborted := f_aborted s; f_log := [] |}.

Fixpoint run_events (d : fsmdef) (i : inst) (s : fstate) (evs : list (etype * tag)) (obs : list eobs) : bool :=
  match evs, obs with
  | [], [] => true
  | (e, t) :: r, o :: r' =>
      let '(s1, res) := fsm_event d i (clear_flog s) e t in
      resb_eqb res (eo_res o) && ostr_eqb (f_state s1) (eo_state o) && val_eqb (f_out s1) (eo_out o)
      && Bool.eqb (f_aborted s1) (eo_aborted o) && log_eqb (f_log s1) (eo_log o)
      && (if f_aborted s1 then match r with [] => true | _ => false end
          else run_events d i s1 r r')
  | _, _ => false
  end.

Record rawdef := { rd_states : list string; rd_timed : list (string * etype); rd_events : list rawevent }.

Definition build (r : rawdef) : res fsmdef :=
  let states := rd_states r ++ filter (fun s => negb (str_mem s (rd_states r))) (map fst (rd_timed r)) in
  match states with
  | [] => Err EValue
  | _ =>
    match build_trans states [] (rd_events r) with
    | Err e => Err e
    | Ok t =>
        let evs := map (fun x => fst (fst x)) (rd_events r) in
        if forallb (fun se => match snd se with
                              | EvGoto x => str_mem x states
                              | EvName e => str_mem e evs end) (rd_timed r)
        then Ok {| fd_states := states; fd_events := evs; fd_trans := t; fd_timed := rd_timed r |}
        else Err EValue
    end
  end.

Record c3case := {
  c3_raw : rawdef; c3_inst : inst;
  c3_class_ok : bool;                       (* observed: the class definition was accepted *)
  c3_events : list (etype * tag);           (* first one is the initialisation Goto *)
  c3_obs : list eobs }.

Definition c3_agree (k : c3case) : bool :=
  match build (c3_raw k) with
  | Err _ => negb (c3_class_ok k)
  | Ok d => c3_class_ok k && run_events d (c3_inst k) fstate0 (c3_events k) (c3_obs k)
  end.
Definition c3_verdict (k : c3case) : ascii := (if c3_agree k then "A" else "V")%char.

(* diagnostic: what the model predicts for a case *)
Fixpoint model_trace (d : fsmdef) (i : inst) (s : fstate) (evs : list (etype * tag))
  : list (res bool * option string * val * bool * list logent) :=
  match evs with
  | [] => []
  | (e, t) :: r =>
      let '(s1, res) := fsm_event d i (clear_flog s) e t in
      (res, f_state s1, f_out s1, f_aborted s1, f_log s1) ::
      (if f_aborted s1 then [] else model_trace d i s1 r)
  end.
Definition c3_model_trace (k : c3case) :=
  match build (c3_raw k) with
  | Err e => inl e
  | Ok d => inr (model_trace d (c3_inst k) fstate0 (c3_events k))
  end.
