(* Model of OutputAsync (edzed/blocklib/sblocks2.py:160-344): the three control programs
   (_ctrl_wait, _ctrl_cancel, _ctrl_start), the output task with its uncancellable guard time,
   result events and the output = number of active runs.  The model is an acceptor over the
   observed steps: it says which next steps are legal in each mode.  Definitions only. *)
From Verif Require Export Values.
Open Scope list_scope.
Open Scope Z_scope.

Inductive mode := MWait | MCancel | MStart.
Inductive outc := OSuccess | OError | OCancelled.

Record ocfg := { o_mode : mode; o_guard : Z;         (* guard time in microseconds, 0 = none *)
                 o_selfcancel : list nat }.          (* puts whose coroutine ends with a CancelledError of
                                                        its own (reported as cancelled in every mode) *)

Inductive phase := PhCoro | PhGuard (until : Z).   (* guard 0: until = end of the coroutine *)
Record arun := { a_id : nat; a_phase : phase }.

Record ostate := {
  q : list nat;              (* accepted puts not yet started, oldest first *)
  active : list arun;        (* runs in progress (coroutine or guard time) *)
  reported : list nat;       (* puts whose result event was delivered *)
  seen : list nat;           (* all puts so far *)
  owed : option (nat * outc);(* a coroutine just ended: its result event must come next *)
  starting : bool;           (* the output was incremented: a run must start now *)
  onow : Z;
  ostopped : bool;
  oout : nat }.              (* the block's output *)

Definition ostate0 : ostate :=
  {| q := []; active := []; reported := []; seen := []; owed := None; starting := false; onow := 0;
     ostopped := false; oout := 0 |}.

Inductive ostep :=
| OPut (t : Z) (id : nat)                     (* a 'put' event was accepted (or stop_data queued) *)
| OStart (t : Z) (id : nat)                   (* the coroutine for put id was started *)
| OEnd (t : Z) (id : nat) (r : outc)          (* ... returned / raised / was cancelled *)
| OResult (t : Z) (id : nat) (r : outc)       (* on_success / on_error / on_cancel carrying put id *)
| OOut (t : Z) (n : nat)                      (* the output changed to n *)
| OStop (t : Z).                              (* stop() of the block *)

Definition memn (i : nat) (l : list nat) : bool := existsb (Nat.eqb i) l.
Definition remn (i : nat) (l : list nat) : list nat := filter (fun k => negb (Nat.eqb k i)) l.
Definition in_coro (i : nat) (s : ostate) : bool :=
  existsb (fun a => Nat.eqb (a_id a) i && match a_phase a with PhCoro => true | _ => false end) (active s).

(* remove the first run whose guard time ends exactly at t *)
Fixpoint drop_due (t : Z) (l : list arun) : option (list arun) :=
  match l with
  | [] => None
  | a :: r => match a_phase a with
              | PhGuard u => if u =? t then Some r
                             else match drop_due t r with Some r' => Some (a :: r') | None => None end
              | PhCoro => match drop_due t r with Some r' => Some (a :: r') | None => None end
              end
  end.

Definition upd (s : ostate) (q' : list nat) (act' : list arun) (rep' : list nat) (seen' : list nat)
           (owed' : option (nat * outc)) (st' : bool) (t : Z) (stp : bool) (o : nat) : ostate :=
  {| q := q'; active := act'; reported := rep'; seen := seen'; owed := owed'; starting := st';
     onow := t; ostopped := stp; oout := o |}.

Definition outc_eqb (a b : outc) : bool :=
  match a, b with OSuccess, OSuccess | OError, OError | OCancelled, OCancelled => true | _, _ => false end.
Definition no_owed (s : ostate) : bool := match owed s with None => true | Some _ => false end.

Definition ostep_do (c : ocfg) (s : ostate) (x : ostep) : option ostate :=
  match x with
  | OPut t id =>
      if (onow s <=? t) && negb (memn id (seen s)) && no_owed s then
        Some (upd s (q s ++ [id]) (active s) (reported s) (id :: seen s) None (starting s) t
                  (ostopped s) (oout s))
      else None
  | OOut t n =>
      if (onow s <=? t) && no_owed s then
        if Nat.eqb n (S (oout s)) then
          (* a run is about to start: the output counts it already *)
          if negb (starting s) && Nat.eqb (oout s) (List.length (active s)) then
            Some (upd s (q s) (active s) (reported s) (seen s) None true t (ostopped s) n)
          else None
        else if Nat.eqb (S n) (oout s) then
          (* a run is over: its guard time ends exactly now (no sooner: a cancellation cannot
             shorten it, no later) *)
          match drop_due t (active s) with
          | Some act' =>
              if Nat.eqb n (List.length act' + (if starting s then 1 else 0)) then
                Some (upd s (q s) act' (reported s) (seen s) None (starting s) t (ostopped s) n)
              else None
          | None => None
          end
        else None
      else None
  | OStart t id =>
      if (onow s <=? t) && no_owed s && starting s then
        match o_mode c with
        | MWait =>
            (* one at a time, in arrival order *)
            match q s, active s with
            | h :: rest, [] =>
                if Nat.eqb h id then
                  Some (upd s rest [{| a_id := id; a_phase := PhCoro |}] (reported s) (seen s) None
                            false t (ostopped s) (oout s))
                else None
            | _, _ => None
            end
        | MCancel =>
            (* one at a time; everything older than the put that starts was reported as cancelled
               (newer puts may have arrived since the decision to start: the run will then be
               cancelled at once) *)
            match q s, active s with
            | h :: rest, [] =>
                if Nat.eqb h id then
                  Some (upd s rest [{| a_id := id; a_phase := PhCoro |}] (reported s) (seen s) None
                            false t (ostopped s) (oout s))
                else None
            | _, _ => None
            end
        | MStart =>
            if memn id (q s) then
              Some (upd s (remn id (q s)) (active s ++ [{| a_id := id; a_phase := PhCoro |}])
                        (reported s) (seen s) None false t (ostopped s) (oout s))
            else None
        end
      else None
  | OEnd t id r =>
      if (onow s <=? t) && in_coro id s && no_owed s then
        (* a run is cancelled only in cancel mode and only because a newer put is waiting - or
           because its own coroutine raised the CancelledError *)
        if match r with
           | OCancelled => memn id (o_selfcancel c) ||
                           match o_mode c with
                           | MCancel => match q s with [] => false | _ => true end
                           | _ => false end
           | _ => true end then
          Some (upd s (q s)
                    (map (fun a => if Nat.eqb (a_id a) id
                                   then {| a_id := id; a_phase := PhGuard (t + o_guard c) |} else a)
                         (active s))
                    (reported s) (seen s) (Some (id, r)) (starting s) t (ostopped s) (oout s))
        else None
      else None
  | OResult t id r =>
      if (onow s <=? t) && negb (memn id (reported s)) then
        match owed s with
        | Some (i, r0) =>
            if Nat.eqb i id && outc_eqb r r0 then
              Some (upd s (q s) (active s) (id :: reported s) (seen s) None (starting s) t
                        (ostopped s) (oout s))
            else None
        | None =>
            (* cancel mode: a queued put that is not the most recent one is discarded *)
            match o_mode c, r with
            | MCancel, OCancelled =>
                match q s with
                | h :: (_ :: _) as rest =>
                    if Nat.eqb h id && match active s with [] => true | _ => false end then
                      Some (upd s rest (active s) (id :: reported s) (seen s) None (starting s) t
                                (ostopped s) (oout s))
                    else None
                | _ => None
                end
            | _, _ => None
            end
        end
      else None
  | OStop t =>
      if (onow s <=? t) then
        Some (upd s (q s) (active s) (reported s) (seen s) (owed s) (starting s) t true (oout s))
      else None
  end.

Fixpoint orun (c : ocfg) (s : ostate) (xs : list ostep) : option ostate :=
  match xs with
  | [] => Some s
  | x :: r => match ostep_do c s x with Some s1 => orun c s1 r | None => None end
  end.

Definition quiescent (s : ostate) : bool :=
  match q s, active s, owed s with [], [], None => negb (starting s) | _, _, _ => false end.

(* ---------- correspondence ---------- *)
Record ocase := { oc_cfg : ocfg; oc_steps : list ostep; oc_final_output : Z;
                  oc_stopid : option nat }.   (* the put that carries the stop_data, if any *)

Definition ocase_agree (k : ocase) : bool :=
  match orun (oc_cfg k) ostate0 (oc_steps k) with
  | Some s => quiescent s && Nat.eqb (oout s) 0 && (oc_final_output k =? 0)
  | None => false
  end.

(* monitor on the observed steps only *)
Fixpoint count_results (id : nat) (xs : list ostep) : nat :=
  match xs with
  | [] => 0
  | OResult _ i _ :: r => (if Nat.eqb i id then 1 else 0) + count_results id r
  | _ :: r => count_results id r
  end.
Fixpoint puts_of (xs : list ostep) : list nat :=
  match xs with [] => [] | OPut _ i :: r => i :: puts_of r | _ :: r => puts_of r end.
Fixpoint results_of (xs : list ostep) : list nat :=
  match xs with [] => [] | OResult _ i _ :: r => i :: results_of r | _ :: r => results_of r end.

(* the output goes up by one right before each Start and comes down once per run *)
Fixpoint out_track (xs : list ostep) (starts ups downs : nat) (out : nat) : bool :=
  match xs with
  | [] => Nat.eqb out 0 && Nat.eqb ups starts && Nat.eqb downs starts
  | OStart _ _ :: r => Nat.eqb ups (S starts) && out_track r (S starts) ups downs out
  | OOut _ n :: r =>
      if Nat.eqb n (S out) then out_track r starts (S ups) downs n
      else if Nat.eqb (S n) out then out_track r starts ups (S downs) n
      else false
  | _ :: r => out_track r starts ups downs out
  end.

(* 'stop_data processed last': once the run for the stop_data has started no other run starts and no
   other run is still to end (in every mode) *)
Fixpoint stop_last (id : nat) (seen : bool) (xs : list ostep) : bool :=
  match xs with
  | [] => true
  | OStart _ i :: r => if Nat.eqb i id then stop_last id true r else negb seen && stop_last id seen r
  | OEnd _ i _ :: r => if Nat.eqb i id then stop_last id seen r else negb seen && stop_last id seen r
  | _ :: r => stop_last id seen r
  end.

Definition ocase_monitor (k : ocase) : bool :=
  match oc_stopid k with Some id => stop_last id false (oc_steps k) | None => true end &&
  (* exactly one result event per accepted put, none for anything else *)
  forallb (fun id => Nat.eqb (count_results id (oc_steps k)) 1) (puts_of (oc_steps k)) &&
  forallb (fun id => memn id (puts_of (oc_steps k))) (results_of (oc_steps k)) &&
  out_track (oc_steps k) 0 0 0 0 && (oc_final_output k =? 0).

Definition o_verdict (k : ocase) : ascii :=
  (if ocase_monitor k then (if ocase_agree k then "A" else "R") else "V")%char.
