(* Model of the Repeat block (edzed/blocklib/sblocks1.py:88-152) on the virtual clock.
   Definitions only. *)
From Verif Require Export Values.
Open Scope list_scope.
Open Scope Z_scope.

Record rcfg := { rc_interval : Z; rc_count : option nat }.   (* microseconds; None = no limit *)

Record rstate := {
  r_last : option Z;       (* tag of the most recent event of the configured type *)
  r_n : nat;               (* repeat number of the last (re-)sent copy *)
  r_deadline : option Z;   (* when the next copy is due; None = not repeating *)
  r_now : Z;
  r_stopped : bool }.

Definition rstate0 : rstate :=
  {| r_last := None; r_n := 0; r_deadline := None; r_now := 0; r_stopped := false |}.

Definition more (c : rcfg) (n : nat) : bool :=
  match rc_count c with None => true | Some k => Nat.ltb n k end.

(* observed steps, in the order they happened *)
Inductive rstep :=
| RRecv (t : Z) (tag : Z) (matching : bool) (forwarded : bool)
    (* an event arrived; forwarded = the destination got it at once with repeat=0 *)
| RResend (t : Z) (tag : Z) (n : nat)      (* the destination got a copy with repeat=n *)
| RStop (t : Z).

Definition not_overdue (s : rstate) (t : Z) : bool :=
  match r_deadline s with Some dl => t <=? dl | None => true end.

Definition rstep_do (c : rcfg) (s : rstate) (x : rstep) : option rstate :=
  match x with
  | RRecv t tag matching fwd =>
      if (r_now s <=? t) && not_overdue s t && negb (r_stopped s) then
        if matching then
          if fwd then
            Some {| r_last := Some tag; r_n := 0;
                    r_deadline := if more c 0 then Some (t + rc_interval c) else None;
                    r_now := t; r_stopped := false |}
          else None
        else if fwd then None       (* events of other types are ignored *)
        else Some {| r_last := r_last s; r_n := r_n s; r_deadline := r_deadline s; r_now := t;
                     r_stopped := false |}
      else None
  | RResend t tag n =>
      if (r_now s <=? t) && negb (r_stopped s) then
        match r_deadline s, r_last s with
        | Some dl, Some lt =>
            if (dl =? t) && (lt =? tag) && Nat.eqb n (S (r_n s)) then
              Some {| r_last := r_last s; r_n := n;
                      r_deadline := if more c n then Some (t + rc_interval c) else None;
                      r_now := t; r_stopped := false |}
            else None
        | _, _ => None
        end
      else None
  | RStop t =>
      if (r_now s <=? t) && not_overdue s t then
        Some {| r_last := r_last s; r_n := r_n s; r_deadline := None; r_now := t; r_stopped := true |}
      else None
  end.

Fixpoint rrun (c : rcfg) (s : rstate) (xs : list rstep) : option rstate :=
  match xs with
  | [] => Some s
  | x :: r => match rstep_do c s x with Some s1 => rrun c s1 r | None => None end
  end.

Record robs := {
  ro_end : Z;               (* the observation window ended at this time (nothing later) *)
  ro_output : Z;            (* Repeat.output at the end *)
  ro_data_ok : bool }.      (* every delivery kept the original items, source = the Repeat block,
                               orig_source = the original source *)

Record rcase := { rk_cfg : rcfg; rk_steps : list rstep; rk_obs : robs }.

Definition rcase_agree (k : rcase) : bool :=
  match rrun (rk_cfg k) rstate0 (rk_steps k) with
  | None => false
  | Some s =>
      (r_now s <=? ro_end (rk_obs k)) && not_overdue s (ro_end (rk_obs k)) &&
      (Z.of_nat (r_n s) =? ro_output (rk_obs k)) && ro_data_ok (rk_obs k)
  end.

(* the property on observed data only:
   every copy carries the tag of the latest matching event before it, the numbers of the copies
   of one event are 1,2,3,... spaced by exactly the interval starting at the event, never more
   than count, nothing after the stop *)
(* no copy is overdue at time t *)
Definition due_ok (c : rcfg) (last : option (Z * Z)) (n : nat) (stopped : bool) (t : Z) : bool :=
  match last with
  | Some (_, t0) => stopped || negb (more c n) || (t <=? t0 + (Z.of_nat n + 1) * rc_interval c)
  | None => true
  end.

Fixpoint rmon (c : rcfg) (xs : list rstep) (last : option (Z * Z)) (n : nat) (stopped : bool)
         (tend : Z) : bool :=
  match xs with
  | [] => due_ok c last n stopped tend
  | RRecv t tag matching fwd :: r =>
      Bool.eqb matching fwd && due_ok c last n stopped t && negb stopped &&
      (if matching then rmon c r (Some (tag, t)) 0 stopped tend else rmon c r last n stopped tend)
  | RResend t tag k :: r =>
      negb stopped &&
      match last with
      | Some (lt, t0) =>
          (lt =? tag) && Nat.eqb k (S n) && (t =? t0 + Z.of_nat k * rc_interval c) &&
          match rc_count c with None => true | Some m => Nat.leb k m end &&
          rmon c r last k stopped tend
      | None => false
      end
  | RStop t :: r => due_ok c last n stopped t && rmon c r last n true tend
  end.

Definition rcase_monitor (k : rcase) : bool :=
  rmon (rk_cfg k) (rk_steps k) None 0 false (ro_end (rk_obs k)) && ro_data_ok (rk_obs k).

Definition r_verdict (ks : list rcase) : ascii :=
  (if forallb rcase_monitor ks then (if forallb rcase_agree ks then "A" else "R") else "V")%char.
