(* Model of the FSM timers (edzed/fsm.py:329-361, 471-500) on a virtual clock in integer
   microseconds: duration selection, at most one pending handle, cancellation on exit,
   zero-duration chaining, rejected timed events, stop.  Definitions only. *)
From Verif Require Export Values Fsm.
Open Scope string_scope.
Open Scope list_scope.
Open Scope Z_scope.

Inductive dval := DNoneV | DInfV | DFin (us : Z).     (* None, INF_TIME, seconds as microseconds *)

(* a condition: constant, or Timer's "not restartable: refuse if already in that state" *)
Inductive tcond := CTrue | CFalse | CNotIn (s : string).

Record tdef := {
  t_fsm : fsmdef;
  t_class_dur : list (string * dval);     (* TIMERS defaults *)
  t_inst_dur : list (string * dval);      (* t_STATE= of the instance (None = not given) *)
  t_cond : list (string * tcond);        (* cond_EVENT *)
  t_enter_goto : list (string * string);    (* enter_STATE action requesting Goto(state') *)
  t_exit_bad : list string }.               (* states with an on_exit_STATE event whose destination does
                                               not know the event type: leaving them fails with
                                               EdzedUnknownEvent (not fatal), BEFORE the timer is
                                               stopped - the FSM stays in the state, timer untouched *)

(* effective duration: the event's 'duration' item > instance t_STATE > class default *)
Definition eff_duration (d : tdef) (state : string) (ev_dur : dval) : dval :=
  match ev_dur with
  | DNoneV =>
      match assoc state (t_inst_dur d) with
      | Some DNoneV | None =>
          match assoc state (t_class_dur d) with Some x => x | None => DNoneV end
      | Some x => x
      end
  | x => x
  end.

Record handle := { h_id : nat; h_when : Z; h_live : bool }.   (* live = neither fired nor cancelled *)

Record tstate := {
  ts_state : option string;
  ts_active : option nat;          (* FSM._active_timer: id of the handle it refers to *)
  ts_handles : list handle;        (* every handle this FSM ever created *)
  ts_now : Z;
  ts_nextid : nat;
  ts_entries : list (Z * string);  (* (time, state) of every visible state entry (on_enter) *)
  ts_failed : bool }.              (* the simulation was aborted *)

Definition set_handles (s : tstate) (hs : list handle) : tstate :=
  {| ts_state := ts_state s; ts_active := ts_active s; ts_handles := hs; ts_now := ts_now s;
     ts_nextid := ts_nextid s; ts_entries := ts_entries s; ts_failed := ts_failed s |}.

Definition kill (id : nat) (hs : list handle) : list handle :=
  map (fun h => if Nat.eqb (h_id h) id then {| h_id := id; h_when := h_when h; h_live := false |} else h) hs.

(* _stop_timer: cancel the handle the FSM refers to and forget it *)
Definition stop_timer (s : tstate) : tstate :=
  match ts_active s with
  | None => s
  | Some id =>
      {| ts_state := ts_state s; ts_active := None; ts_handles := kill id (ts_handles s);
         ts_now := ts_now s; ts_nextid := ts_nextid s; ts_entries := ts_entries s;
         ts_failed := ts_failed s |}
  end.

(* _set_timer *)
Definition set_timer (s : tstate) (dur : Z) : tstate :=
  {| ts_state := ts_state s; ts_active := Some (ts_nextid s);
     ts_handles := ts_handles s ++ [{| h_id := ts_nextid s; h_when := ts_now s + dur; h_live := true |}];
     ts_now := ts_now s; ts_nextid := S (ts_nextid s); ts_entries := ts_entries s;
     ts_failed := ts_failed s |}.

Definition enter_state (s : tstate) (x : string) : tstate :=
  {| ts_state := Some x; ts_active := ts_active s; ts_handles := ts_handles s; ts_now := ts_now s;
     ts_nextid := ts_nextid s; ts_entries := ts_entries s; ts_failed := ts_failed s |}.
Definition log_entry (s : tstate) : tstate :=
  match ts_state s with
  | Some x => {| ts_state := ts_state s; ts_active := ts_active s; ts_handles := ts_handles s;
                 ts_now := ts_now s; ts_nextid := ts_nextid s;
                 ts_entries := ts_entries s ++ [(ts_now s, x)]; ts_failed := ts_failed s |}
  | None => s
  end.
Definition fail (s : tstate) : tstate :=
  {| ts_state := ts_state s; ts_active := ts_active s; ts_handles := ts_handles s; ts_now := ts_now s;
     ts_nextid := ts_nextid s; ts_entries := ts_entries s; ts_failed := true |}.

(* target of an event in the current state (None = rejected) *)
Definition target (d : tdef) (s : tstate) (e : etype) : res (option string) :=
  match e with
  | EvGoto x => if str_mem x (fd_states (t_fsm d)) then Ok (Some x) else Err EValue
  | EvName ev =>
      if negb (str_mem ev (fd_events (t_fsm d))) then Err EUnknownEvent else
      match ts_state s with
      | None => Err EOther
      | Some cur =>
          match next_state (t_fsm d) ev cur with
          | None => Ok None
          | Some nxt =>
              (* conditions are consulted on an initialised FSM only (output already set) *)
              match (match ts_entries s with [] => None | _ => assoc ev (t_cond d) end) with
                        | Some CFalse => Ok None
                        | Some (CNotIn x) => if String.eqb cur x then Ok None else Ok (Some nxt)
                        | _ => Ok (Some nxt)
                        end
          end
      end
  end.

(* the chain loop: enter the state, start its timer (a duration <= 0 chains on at once) *)
Fixpoint enter_chain (n : nat) (d : tdef) (s : tstate) (x : string) (ev_dur : dval) : tstate * option errkind :=
  match n with
  | O => (s, Some EHandler)
  | S k =>
      let s1 := enter_state s x in
      match assoc x (t_enter_goto d) with
      | Some nxt =>                      (* chained on by the entry action: no timer is started *)
          if str_mem nxt (fd_states (t_fsm d)) then enter_chain k d s1 nxt DNoneV
          else (s1, Some EValue)
      | None =>
      match assoc x (fd_timed (t_fsm d)) with
      | None => (s1, None)
      | Some tev =>
          match eff_duration d x ev_dur with
          | DNoneV => (s1, Some EHandler)
          | DInfV => (s1, None)
          | DFin us =>
              if us <=? 0 then
                match target d s1 tev with
                | Err e => (s1, Some e)
                | Ok None => (s1, None)             (* the immediate timed event was rejected *)
                | Ok (Some nxt) => enter_chain k d s1 nxt DNoneV
                end
              else (set_timer s1 us, None)
          end
      end
      end
  end.

(* the exit actions / on_exit events of the current state run only for an initialised FSM *)
Definition leaving_fails (d : tdef) (s : tstate) : bool :=
  match ts_entries s, ts_state s with
  | _ :: _, Some cur => str_mem cur (t_exit_bad d)
  | _, _ => false
  end.

(* an event (external, or the timed event delivered by a fired handle) *)
Definition do_event (d : tdef) (s : tstate) (e : etype) (ev_dur : dval) : tstate * res bool :=
  match target d s e with
  | Err EUnknownEvent => (s, Err EUnknownEvent)
  | Err k => (fail s, Err k)
  | Ok None => (s, Ok false)
  | Ok (Some nxt) =>
      if leaving_fails d s then (s, Err EUnknownEvent) else
      match enter_chain (chain_limit (t_fsm d)) d (stop_timer s) nxt ev_dur with
      | (s1, Some k) => (fail s1, Err k)
      | (s1, None) => (log_entry s1, Ok true)
      end
  end.

(* observed steps *)
Inductive tstep :=
| TExt (t : Z) (e : etype) (ev_dur : dval) (res : res bool)  (* external event at time t and its result *)
| TFire (t : Z) (id : nat)                                   (* the loop ran handle id at time t *)
| TStop (t : Z).                                             (* the simulation was stopped *)

Definition find_handle (id : nat) (hs : list handle) : option handle :=
  find (fun h => Nat.eqb (h_id h) id) hs.

Definition advance (s : tstate) (t : Z) : tstate :=
  {| ts_state := ts_state s; ts_active := ts_active s; ts_handles := ts_handles s; ts_now := t;
     ts_nextid := ts_nextid s; ts_entries := ts_entries s; ts_failed := ts_failed s |}.

(* no live handle may be overdue when time advances to t (it would have fired before) *)
Definition none_overdue (s : tstate) (t : Z) : bool :=
  forallb (fun h => negb (h_live h) || (t <=? h_when h)) (ts_handles s).

Definition resb_eq (a b : res bool) : bool :=
  match a, b with
  | Ok x, Ok y => Bool.eqb x y
  | Err x, Err y => errkind_eqb x y
  | _, _ => false
  end.

(* the timed event of the state a handle was created for *)
Definition tstep_do (d : tdef) (s : tstate) (x : tstep) : option tstate :=
  match x with
  | TExt t e dur r =>
      if (ts_now s <=? t) && none_overdue s t then
        let '(s1, r1) := do_event d (advance s t) e dur in
        if resb_eq r r1 then Some s1 else None
      else None
  | TFire t id =>
      if (ts_now s <=? t) && none_overdue s t then
        match find_handle id (ts_handles s) with
        | Some h =>
            if h_live h && (h_when h =? t) then
              (* the handle is spent; FSM.event(timed_event) runs for the state that set it *)
              let s0 := set_handles (advance s t) (kill id (ts_handles s)) in
              match ts_state s0 with
              | Some cur =>
                  match assoc cur (fd_timed (t_fsm d)) with
                  | Some tev => Some (fst (do_event d s0 tev DNoneV))
                  | None => None
                  end
              | None => None
              end
            else None
        | None => None
        end
      else None
  | TStop t =>
      if (ts_now s <=? t) && none_overdue s t then Some (stop_timer (advance s t)) else None
  end.

Fixpoint trun (d : tdef) (s : tstate) (xs : list tstep) : option tstate :=
  match xs with
  | [] => Some s
  | x :: r => match tstep_do d s x with Some s1 => trun d s1 r | None => None end
  end.

Definition tstate0 : tstate :=
  {| ts_state := None; ts_active := None; ts_handles := []; ts_now := 0; ts_nextid := 0;
     ts_entries := []; ts_failed := false |}.

Definition live_handles (s : tstate) : list handle := filter h_live (ts_handles s).

(* ---------- correspondence ---------- *)
Record tobs := {
  to_entries : list (Z * string);     (* time-stamped on_enter events *)
  to_final_state : option string;
  to_expiry : option Z;               (* get_state()[1] at the end (as loop time), None if no timer *)
  to_pending : nat;                   (* timer handles of the FSM still pending in the loop *)
  to_failed : bool }.

Fixpoint entries_eqb (a b : list (Z * string)) : bool :=
  match a, b with
  | [], [] => true
  | (t, s) :: a', (u, v) :: b' => (t =? u) && String.eqb s v && entries_eqb a' b'
  | _, _ => false
  end.

Definition expiry_of (s : tstate) : option Z :=
  match ts_active s with
  | Some id => match find (fun h => Nat.eqb (h_id h) id && h_live h) (ts_handles s) with
               | Some h => Some (h_when h)
               | None => None
               end
  | None => None
  end.

Definition oz_eqb (a b : option Z) : bool :=
  match a, b with Some x, Some y => x =? y | None, None => true | _, _ => false end.

Record tcase := { tc_def : tdef; tc_steps : list tstep; tc_obs : tobs }.

Definition tcase_agree (k : tcase) : bool :=
  match trun (tc_def k) tstate0 (tc_steps k) with
  | None => false
  | Some s =>
      entries_eqb (ts_entries s) (to_entries (tc_obs k)) &&
      ostr_eqb (ts_state s) (to_final_state (tc_obs k)) &&
      oz_eqb (expiry_of s) (to_expiry (tc_obs k)) &&
      Nat.eqb (List.length (live_handles s)) (to_pending (tc_obs k)) &&
      Bool.eqb (ts_failed s) (to_failed (tc_obs k))
  end.

(* the property on observed data only: at most one timer pending; a reported expiry is not in
   the past; nothing is pending after the stop *)
Fixpoint last_time (xs : list tstep) (acc : Z) : Z :=
  match xs with
  | [] => acc
  | TExt t _ _ _ :: r | TFire t _ :: r | TStop t :: r => last_time r t
  end.
Fixpoint ends_with_stop (xs : list tstep) : bool :=
  match xs with [] => false | [TStop _] => true | _ :: r => ends_with_stop r end.

Definition tcase_monitor (k : tcase) : bool :=
  let o := tc_obs k in
  Nat.leb (to_pending o) 1 &&
  match to_expiry o with
  | Some w => (last_time (tc_steps k) 0 <=? w) && Nat.eqb (to_pending o) 1
  | None => true
  end &&
  (if ends_with_stop (tc_steps k) then Nat.eqb (to_pending o) 0 else true).

Definition t_verdict (k : tcase) : ascii :=
  (if tcase_monitor k then (if tcase_agree k then "A" else "R") else "V")%char.
