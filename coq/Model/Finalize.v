(* Model of Circuit._validate_blk / _finalize (edzed/simulator.py:343-411), of the name
   resolver for event destinations and filter control blocks (64-112) and of the frozen
   state after finalisation.  Definitions only. *)
From Verif Require Export Values.
Open Scope string_scope.
Open Scope list_scope.

Inductive ref :=
| RObj (n : string)        (* a block object of this circuit *)
| RName (n : string)       (* a block name (any string, possibly '_not_X' or '_ctrl') *)
| RConstObj (v : val)      (* Const(v) *)
| RVal (v : val)           (* a plain value: wrapped into a Const *)
| RForeign.                (* a block object of another circuit *)

Inductive kind := KS | KC | KNot.
Definition input := (string * (ref + list ref))%type.
Record blockdef := { bd_name : string; bd_kind : kind; bd_inputs : list input }.

Inductive rres := RBlk (n : string) | RConst (v : val).
Definition rinput := (string * (rres + list rres))%type.

Definition has_name (bs : list blockdef) (n : string) : bool :=
  existsb (fun b => String.eqb (bd_name b) n) bs.

Definition starts_with_underscore (s : string) : bool :=
  match s with String c _ => Ascii.eqb c "_" | EmptyString => false end.
Definition not_prefix : string := "_not_".
Definition strip_not (s : string) : string := String.substring 5 (String.length s - 5) s.
Definition sixth_is_underscore (s : string) : bool :=
  match String.get 5 s with Some c => Ascii.eqb c "_" | None => false end.

(* _validate_blk: returns the resolved reference and the circuit (possibly with a new block) *)
Definition validate_blk (bs : list blockdef) (r : ref) : res (rres * list blockdef) :=
  match r with
  | RConstObj v => Ok (RConst v, bs)
  | RVal v => Ok (RConst v, bs)
  | RForeign => Err EValue
  | RObj n => Ok (RBlk n, bs)
  | RName s =>
      if starts_with_underscore s && negb (has_name bs s) then
        if String.eqb s "_ctrl" then
          Ok (RBlk s, bs ++ [{| bd_name := s; bd_kind := KS; bd_inputs := [] |}])
        else if String.prefix not_prefix s && negb (sixth_is_underscore s) then
          Ok (RBlk s, bs ++ [{| bd_name := s; bd_kind := KNot;
                                bd_inputs := [("_", inr [RName (strip_not s)])] |}])
        else Err EKey
      else if has_name bs s then Ok (RBlk s, bs) else Err EKey
  end.

Fixpoint validate_list (bs : list blockdef) (l : list ref) : res (list rres * list blockdef) :=
  match l with
  | [] => Ok ([], bs)
  | r :: rest =>
      match validate_blk bs r with
      | Err e => Err e
      | Ok (x, bs1) =>
          match validate_list bs1 rest with
          | Err e => Err e
          | Ok (xs, bs2) => Ok (x :: xs, bs2)
          end
      end
  end.

Fixpoint validate_inputs (bs : list blockdef) (ins : list input) : res (list rinput * list blockdef) :=
  match ins with
  | [] => Ok ([], bs)
  | (iname, inl r) :: rest =>
      match validate_blk bs r with
      | Err e => Err e
      | Ok (x, bs1) =>
          match validate_inputs bs1 rest with
          | Err e => Err e
          | Ok (xs, bs2) => Ok ((iname, inl x) :: xs, bs2)
          end
      end
  | (iname, inr g) :: rest =>
      match validate_list bs g with
      | Err e => Err e
      | Ok (xg, bs1) =>
          match validate_inputs bs1 rest with
          | Err e => Err e
          | Ok (xs, bs2) => Ok ((iname, inr xg) :: xs, bs2)
          end
      end
  end.

(* resolved inputs per block name *)
Definition resmap := list (string * list rinput).
Fixpoint rm_get (m : resmap) (n : string) : option (list rinput) :=
  match m with [] => None | (k, v) :: r => if String.eqb n k then Some v else rm_get r n end.
Definition rm_set (m : resmap) (n : string) (v : list rinput) : resmap :=
  (n, v) :: filter (fun kv => negb (String.eqb (fst kv) n)) m.

(* an already resolved input is a block object / Const *)
Definition ref_of_rres (x : rres) : ref :=
  match x with RBlk n => RObj n | RConst v => RConstObj v end.
Definition input_of_rinput (i : rinput) : input :=
  match i with
  | (n, inl x) => (n, inl (ref_of_rres x))
  | (n, inr g) => (n, inr (map ref_of_rres g))
  end.

(* one pass over a snapshot of block names *)
Fixpoint pass (todo : list string) (bs : list blockdef) (m : resmap) : res (list blockdef * resmap) :=
  match todo with
  | [] => Ok (bs, m)
  | n :: rest =>
      let ins := match rm_get m n with
                 | Some ri => map input_of_rinput ri
                 | None => match find (fun b => String.eqb (bd_name b) n) bs with
                           | Some b => bd_inputs b | None => [] end
                 end in
      match validate_inputs bs ins with
      | Err e => Err e
      | Ok (ri, bs1) => pass rest bs1 (rm_set m n ri)
      end
  end.

Definition names_of_kind (p : kind -> bool) (bs : list blockdef) : list string :=
  map bd_name (filter (fun b => p (bd_kind b)) bs).
Definition is_c (k : kind) : bool := match k with KS => false | _ => true end.
Definition is_not (k : kind) : bool := match k with KNot => true | _ => false end.

(* Circuit._finalize: all CBlocks, then all Not blocks (the first pass may create inverters) *)
Definition finalize (bs : list blockdef) : res (list blockdef * resmap) :=
  match pass (names_of_kind is_c bs) bs [] with
  | Err e => Err e
  | Ok (bs1, m1) => pass (names_of_kind is_not bs1) bs1 m1
  end.

(* connection sets derived from the resolved inputs *)
Definition rres_names (l : list rres) : list string :=
  flat_map (fun x => match x with RBlk n => [n] | RConst _ => [] end) l.
Definition rinput_names (i : rinput) : list string :=
  match snd i with inl x => rres_names [x] | inr g => rres_names g end.
Definition feeds (m : resmap) (a b : string) : bool :=   (* a feeds one of b's inputs *)
  match rm_get m b with
  | Some ri => existsb (String.eqb a) (flat_map rinput_names ri)
  | None => false
  end.
Definition iconn (m : resmap) (b : string) : list string :=
  match rm_get m b with Some ri => flat_map rinput_names ri | None => [] end.
Definition oconn (bs : list blockdef) (m : resmap) (a : string) : list string :=
  filter (fun b => feeds m a b) (map bd_name bs).

(* event destinations / filter control blocks given by name *)
Inductive need := NeedS | NeedAny.
Definition resolve_named (bs : list blockdef) (n : string) (w : need) : res (string * list blockdef) :=
  match validate_blk bs (RName n) with
  | Err e => Err e
  | Ok (RBlk x, bs1) =>
      match find (fun b => String.eqb (bd_name b) x) bs1, w with
      | Some b, NeedS => match bd_kind b with KS => Ok (x, bs1) | _ => Err EType end
      | Some b, NeedAny => Ok (x, bs1)
      | None, _ => Err EKey
      end
  | Ok (RConst _, _) => Err EOther
  end.

(* ---------- correspondence ---------- *)
Definition sset_eqb (a b : list string) : bool :=
  forallb (fun x => existsb (String.eqb x) b) a && forallb (fun x => existsb (String.eqb x) a) b.

Definition rres_eqb (a b : rres) : bool :=
  match a, b with
  | RBlk x, RBlk y => String.eqb x y
  | RConst v, RConst w => val_eqb v w
  | _, _ => false
  end.
Fixpoint rres_list_eqb (a b : list rres) : bool :=
  match a, b with
  | [], [] => true
  | x :: a', y :: b' => rres_eqb x y && rres_list_eqb a' b'
  | _, _ => false
  end.
Definition rinput_eqb (a b : rinput) : bool :=
  String.eqb (fst a) (fst b) &&
  match snd a, snd b with
  | inl x, inl y => rres_eqb x y
  | inr g, inr h => rres_list_eqb g h
  | _, _ => false
  end.
Fixpoint rinputs_eqb (a b : list rinput) : bool :=
  match a, b with
  | [] , [] => true
  | x :: a', y :: b' => rinput_eqb x y && rinputs_eqb a' b'
  | _, _ => false
  end.

(* what was observed for one block after finalisation *)
Record bobs := {
  bo_name : string;
  bo_inputs : option (list rinput);   (* CBlock.inputs as names/constants; None for SBlocks *)
  bo_conf : option (list rinput);     (* get_conf()['inputs'] (names of blocks AND of Consts) *)
  bo_icon : list string;
  bo_ocon : list string;
  bo_sig : option (list (string * option nat)) }.   (* input_signature(): None = single input *)

Record fobs := {
  fo_err : option errkind;            (* finalisation/start failed with ... *)
  fo_blocks : list bobs;              (* all blocks of the circuit afterwards, creation order *)
  fo_named : list (string * need * res string);  (* by-name references and what they became *)
  fo_frozen : bool }.                 (* addblock / connect / set_persistent_data all refused *)

Record fcase := { fc_blocks : list blockdef; fc_named : list (string * need); fc_obs : fobs }.

(* resolver first (as run_forever does), then finalize *)
Fixpoint resolve_all (bs : list blockdef) (l : list (string * need))
  : res (list (res string) * list blockdef) :=
  match l with
  | [] => Ok ([], bs)
  | (n, w) :: rest =>
      match resolve_named bs n w with
      | Err e => Err e
      | Ok (x, bs1) =>
          match resolve_all bs1 rest with
          | Err e => Err e
          | Ok (xs, bs2) => Ok (Ok x :: xs, bs2)
          end
      end
  end.

Definition model_final (k : fcase) : res (list (res string) * list blockdef * resmap) :=
  match resolve_all (fc_blocks k) (fc_named k) with
  | Err e => Err e
  | Ok (named, bs1) =>
      match finalize bs1 with
      | Err e => Err e
      | Ok (bs2, m) => Ok (named, bs2, m)
      end
  end.

Definition oinputs_eqb (a : option (list rinput)) (b : option (list rinput)) : bool :=
  match a, b with
  | Some x, Some y => rinputs_eqb x y
  | None, None => true
  | _, _ => false
  end.

Definition bobs_agree (bs : list blockdef) (m : resmap) (b : blockdef) (o : bobs) : bool :=
  String.eqb (bd_name b) (bo_name o) &&
  oinputs_eqb (if is_c (bd_kind b) then rm_get m (bd_name b) else None) (bo_inputs o) &&
  sset_eqb (iconn m (bd_name b)) (bo_icon o) &&
  sset_eqb (oconn bs m (bd_name b)) (bo_ocon o).

Fixpoint blocks_agree (bs : list blockdef) (m : resmap) (l : list blockdef) (os : list bobs) : bool :=
  match l, os with
  | [], [] => true
  | b :: l', o :: os' => bobs_agree bs m b o && blocks_agree bs m l' os'
  | _, _ => false
  end.

Definition res_str_eqb (a b : res string) : bool :=
  match a, b with
  | Ok x, Ok y => String.eqb x y
  | Err x, Err y => errkind_eqb x y
  | _, _ => false
  end.
Fixpoint named_agree (a : list (res string)) (b : list (string * need * res string)) : bool :=
  match a, b with
  | [], [] => true
  | x :: a', (_, _, y) :: b' => res_str_eqb x y && named_agree a' b'
  | _, _ => false
  end.

Definition fcase_agree (k : fcase) : bool :=
  match model_final k, fo_err (fc_obs k) with
  | Err e, Some e' => errkind_eqb e e'
  | Ok (named, bs, m), None =>
      blocks_agree bs m bs (fo_blocks (fc_obs k)) && named_agree named (fo_named (fc_obs k))
      && fo_frozen (fc_obs k)
  | _, _ => false
  end.

(* the property on observed data only: the biconditional, conf = inputs, names resolved *)
Definition obs_feeds (os : list bobs) (a : string) (b : bobs) : bool :=
  match bo_inputs b with
  | Some ri => existsb (String.eqb a) (flat_map rinput_names ri)
  | None => false
  end.
Definition find_obs (os : list bobs) (n : string) : option bobs :=
  find (fun o => String.eqb (bo_name o) n) os.

Definition conf_matches (o : bobs) : bool :=
  match bo_inputs o, bo_conf o with
  | Some a, Some b =>
      (* same shape and the same block names; constants appear in conf under their Const name *)
      Nat.eqb (List.length a) (List.length b) &&
      forallb (fun ab => String.eqb (fst (fst ab)) (fst (snd ab)) &&
                         match snd (fst ab), snd (snd ab) with
                         | inl _, inl _ => true
                         | inr g, inr h => Nat.eqb (List.length g) (List.length h)
                         | _, _ => false end) (combine a b)
  | None, None => true
  | _, _ => false
  end.

(* input_signature() describes the shape of inputs: None for a single input, the size of a group *)
Definition sig_matches (o : bobs) : bool :=
  match bo_inputs o, bo_sig o with
  | Some a, Some sg =>
      Nat.eqb (List.length a) (List.length sg) &&
      forallb (fun ab => String.eqb (fst (fst ab)) (fst (snd ab)) &&
                         match snd (fst ab), snd (snd ab) with
                         | inl _, None => true
                         | inr g, Some n => Nat.eqb (List.length g) n
                         | _, _ => false end) (combine a sg)
  | Some [], None => true          (* not connected: input_signature() raises *)
  | None, None => true
  | _, _ => false
  end.

Definition fobs_monitor (o : fobs) : bool :=
  match fo_err o with
  | Some _ => true
  | None =>
      let os := fo_blocks o in
      forallb (fun a =>
        forallb (fun b =>
          let ab := existsb (String.eqb (bo_name b)) (bo_ocon a) in      (* B in ocon(A) *)
          let ba := existsb (String.eqb (bo_name a)) (bo_icon b) in      (* A in icon(B) *)
          let f := obs_feeds os (bo_name a) b in                         (* A feeds B *)
          Bool.eqb ab ba && Bool.eqb ba f) os) os
      && forallb conf_matches os && forallb sig_matches os
      && forallb (fun o =>            (* the inverter behind '_not_NAME' is wired to NAME only *)
           if String.prefix not_prefix (bo_name o) && negb (sixth_is_underscore (bo_name o)) then
             match bo_inputs o with
             | Some [(_, inr [RBlk x])] => String.eqb x (strip_not (bo_name o))
             | _ => false
             end
           else true) os
      && forallb (fun nwr => match nwr with
                             | (n, _, Ok x) => String.eqb n x
                             | (_, _, Err _) => false end) (fo_named o)
      && fo_frozen o
  end.

Definition f_verdict (k : fcase) : ascii :=
  (if fobs_monitor (fc_obs k) then (if fcase_agree k then "A" else "R") else "V")%char.
