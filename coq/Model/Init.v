(* Model of block initialisation: Circuit.init_sblock (edzed/simulator.py:465-508), the three
   phases _init_sblocks_sync_1 / _async / _sync_2 with _run_tasks (413-531), early
   initialisation by a pending event (edzed/block.py:568-574) and output events emitted while
   initialising (event topologies may be cyclic: recursive event() calls are refused).
   Definitions only. *)
From Verif Require Export Values.
Open Scope list_scope.
Open Scope Z_scope.

Inductive rkind := RAbsent | RRaises | RNoEffect | RSets.      (* saved state: none / restore fails / ... *)
Inductive gkind := GNoEffect | GSets | GRaises.                (* init_regular *)
Inductive ascript := ADone (d : Z) | ARaise (d : Z) | ANever  (* init_async: finishes at d (and sets the output) ... *)
  | APoll (d : Z).   (* ValuePoll: the main task delivers the first value at d, whether or not
                        init_async is (still) waiting for it *)

Record ispec := {
  is_persistent : bool;
  is_restore : rkind;
  is_async : option (Z * ascript);    (* init_timeout (us) and what init_async does; None = no such method *)
  is_regular : gkind;
  is_initdef : bool;                  (* init_from_value exists and an initdef is given *)
  is_handler_sets : bool;             (* the 'put' handler sets the output (else it ignores the event) *)
  is_dests : list nat }.              (* on_output events go to these blocks *)

Inductive call := CRestore (b : nat) | CAsync (b : nat) | CRegular (b : nat) | CFromValue (b : nat)
                | CHandler (b : nat).

Record istate := {
  steps : nat -> Z;          (* init_steps_completed: 0, -1, 1, -2, 2 *)
  inited : nat -> bool;      (* output is not UNDEF *)
  active : nat -> bool;      (* _event_active: the block is inside its event() *)
  ilog : list call;
  ierr : bool;               (* the simulation was aborted / the start-up has failed (sticky) *)
  iexn : bool }.             (* an exception is propagating to the caller *)

Definition fupd {A} (f : nat -> A) (i : nat) (v : A) : nat -> A := fun k => if Nat.eqb k i then v else f k.
Definition set_steps (s : istate) (b : nat) (v : Z) : istate :=
  {| steps := fupd (steps s) b v; inited := inited s; active := active s; ilog := ilog s; ierr := ierr s; iexn := iexn s |}.
Definition set_inited (s : istate) (b : nat) : istate :=
  {| steps := steps s; inited := fupd (inited s) b true; active := active s; ilog := ilog s; ierr := ierr s; iexn := iexn s |}.
Definition set_active (s : istate) (b : nat) (v : bool) : istate :=
  {| steps := steps s; inited := inited s; active := fupd (active s) b v; ilog := ilog s; ierr := ierr s; iexn := iexn s |}.
Definition add_log (s : istate) (c : call) : istate :=
  {| steps := steps s; inited := inited s; active := active s; ilog := ilog s ++ [c]; ierr := ierr s; iexn := iexn s |}.
Definition set_err (s : istate) : istate :=
  {| steps := steps s; inited := inited s; active := active s; ilog := ilog s; ierr := true; iexn := iexn s |}.
Definition set_exn (s : istate) : istate :=
  {| steps := steps s; inited := inited s; active := active s; ilog := ilog s; ierr := ierr s; iexn := true |}.
Definition clear_exn (s : istate) : istate :=
  {| steps := steps s; inited := inited s; active := active s; ilog := ilog s; ierr := ierr s; iexn := false |}.
Definition halt (s : istate) : bool := ierr s || iexn s.

Definition spec_of (T : list ispec) (b : nat) : ispec :=
  nth b T {| is_persistent := false; is_restore := RAbsent; is_async := None; is_regular := GNoEffect;
             is_initdef := false; is_handler_sets := false; is_dests := [] |}.

(* set_output on block b, the 'put' event to block b and init_sblock, mutually recursive
   through the output events; fuel bounds the depth of the cascade.  Exceptions (iexn) travel
   back to the caller until something catches them:
     - event(): an exception out of the handler or out of the early initialization aborts the
       simulation (ierr), a recursive event() call is refused with an exception for the sender;
     - _restore_state and init_async: the error is logged and suppressed;
     - the synchronous passes: the start-up fails. *)
Fixpoint set_output (fuel : nat) (T : list ispec) (s : istate) (b : nat) : istate :=
  match fuel with
  | O => set_err s
  | S f =>
    if halt s then s else
    if inited s b then s                 (* same value again: no output event *)
    else
      let s1 := set_inited s b in
      fold_left (fun acc d => event_put f T acc d) (is_dests (spec_of T b)) s1
  end
with event_put (fuel : nat) (T : list ispec) (s : istate) (b : nat) : istate :=
  match fuel with
  | O => set_err s
  | S f =>
    if halt s then s else
    if active s b then set_exn s         (* forbidden recursive event() call *)
    else
    let s0 := set_active s b true in
    (* a block that has not completed its synchronous steps completes them first *)
    let s1 := if (0 <=? steps s0 b) && (steps s0 b <? 2) then
                let r := init_sblock f T (set_active s0 b false) b true in
                if iexn r then set_err r else set_active r b true
              else s0 in
    if halt s1 then set_active s1 b false else
    let s2 := add_log s1 (CHandler b) in
    let s3 := if is_handler_sets (spec_of T b) then set_output f T s2 b else s2 in
    let s4 := if iexn s3 then set_err s3 else s3 in
    set_active s4 b false
  end
with init_sblock (fuel : nat) (T : list ispec) (s : istate) (b : nat) (full : bool) : istate :=
  match fuel with
  | O => set_err s
  | S f =>
    if halt s then s else
    let st := steps s b in
    let sp := spec_of T b in
    let s1 :=
      if st =? 0 then
        let s' := set_steps s b (-1) in
        let s'' :=
          if is_persistent sp then
            match is_restore sp with
            | RAbsent => s'
            | RRaises => add_log s' (CRestore b)           (* the error is logged and ignored *)
            | RNoEffect => add_log s' (CRestore b)
            | RSets => clear_exn (set_output f T (add_log s' (CRestore b)) b)
            end
          else s' in
        if ierr s'' then s'' else set_steps s'' b 1
      else s in
    if halt s1 then s1 else
    if (st =? 1) || ((st =? 0) && full) then
      let s2 := add_log (set_steps s1 b (-2)) (CRegular b) in
      let s3 := match is_regular sp with
                | GNoEffect => s2
                | GSets => set_output f T s2 b
                | GRaises => set_exn s2
                end in
      if halt s3 then s3 else
      let s4 := if negb (inited s3 b) && is_initdef sp
                then set_output f T (add_log s3 (CFromValue b)) b else s3 in
      if halt s4 then s4 else set_steps s4 b 2
    else s1
  end.

Definition fuel_of (T : list ispec) : nat := 4 * List.length T + 6.

(* phase 1 / phase 3: init_sblock(full=False) for every block in creation order *)
Definition sync_pass (T : list ispec) (s : istate) : istate :=
  fold_left (fun acc b => let r := init_sblock (fuel_of T) T acc b false in
                          if iexn r then set_err r else r) (seq 0 (List.length T)) s.

(* ---- the asynchronous phase ---- *)
(* tasks are started for blocks still uninitialised after phase 1 that have init_async and a
   positive timeout *)
Definition async_started (T : list ispec) (s : istate) : list (nat * Z * ascript) :=
  flat_map (fun b => match is_async (spec_of T b) with
                     | Some (tmo, sc) => if negb (inited s b) && (0 <? tmo) then [(b, tmo, sc)] else []
                     | None => []
                     end) (seq 0 (List.length T)).

Definition done_time (sc : ascript) : option Z :=
  match sc with ADone d | ARaise d | APoll d => Some d | ANever => None end.

(* insertion sort by timeout, longest first, stable *)
Fixpoint ins_task (x : nat * Z * ascript) (l : list (nat * Z * ascript)) :=
  match l with
  | [] => [x]
  | y :: r => if snd (fst y) <? snd (fst x) then x :: l else y :: ins_task x r
  end.
Definition sort_tasks (l : list (nat * Z * ascript)) := fold_left (fun acc x => ins_task x acc) l [].

(* _run_tasks: wait for each task in that order; returns (time the phase ends, tasks that finish
   by themselves with their finishing time) *)
Fixpoint run_tasks (l : list (nat * Z * ascript)) (now : Z) (fin : list (Z * nat * ascript))
  : Z * list (Z * nat * ascript) :=
  match l with
  | [] => (now, fin)
  | (b, tmo, sc) :: r =>
      match done_time sc with
      | Some d =>
          if d <=? now then run_tasks r now (fin ++ [(d, b, sc)])                 (* already finished *)
          else if d <=? tmo then run_tasks r d (fin ++ [(d, b, sc)])              (* awaited to its end *)
          else run_tasks r (Z.max now tmo) fin                                   (* cancelled at its timeout *)
      | None => run_tasks r (Z.max now tmo) fin
      end
  end.

(* completions take effect in the order of their times (ties: creation order) *)
Definition is_poll (sc : ascript) : bool := match sc with APoll _ => true | _ => false end.
(* timers of one instant fire in the order of their creation: the poll timers of ValuePoll main
   tasks are older than those of the init_async tasks, which were started in creation order *)
Definition fin_before (x y : Z * nat * ascript) : bool :=
  (fst (fst x) <? fst (fst y)) ||
  ((fst (fst x) =? fst (fst y)) &&
   ((is_poll (snd x) && negb (is_poll (snd y))) ||
    (Bool.eqb (is_poll (snd x)) (is_poll (snd y)) && Nat.ltb (snd (fst x)) (snd (fst y))))).
Fixpoint ins_fin (x : Z * nat * ascript) (l : list (Z * nat * ascript)) :=
  match l with
  | [] => [x]
  | y :: r => if fin_before x y then x :: l else y :: ins_fin x r
  end.
Definition sort_fin (l : list (Z * nat * ascript)) := fold_left (fun acc x => ins_fin x acc) l [].

Definition async_phase (T : list ispec) (s : istate) : istate * Z :=
  let started := async_started T s in
  let s1 := fold_left (fun acc t => add_log acc (CAsync (fst (fst t)))) started s in
  let '(tend, fin) := run_tasks (sort_tasks started) 0 [] in
  let polls := flat_map (fun b => match is_async (spec_of T b) with
                                  | Some (_, APoll d) => if d <=? tend then [(d, b, APoll d)] else []
                                  | _ => [] end) (seq 0 (List.length T)) in
  let fin' := filter (fun f => match snd f with APoll _ => false | _ => true end) fin ++ polls in
  (fold_left (fun acc f => match snd f with
                           | ADone _ | APoll _ => clear_exn (set_output (fuel_of T) T acc (snd (fst f)))
                           | _ => acc end) (sort_fin fin') s1, tend).

Definition all_inited (T : list ispec) (s : istate) : bool :=
  forallb (inited s) (seq 0 (List.length T)).

Definition istate0 : istate :=
  {| steps := fun _ => 0; inited := fun _ => false; active := fun _ => false; ilog := []; ierr := false;
     iexn := false |}.

(* before the first pass: start() has created the main tasks, and a ValuePoll whose function
   delivers a value at its very first poll (APoll 0) sets its output - and sends its output events -
   before any block has been initialised; an exception that escapes ends that main task, which
   stops the simulation *)
Definition pre_phase (T : list ispec) (s : istate) : istate :=
  fold_left (fun acc b => match is_async (spec_of T b) with
                          | Some (_, APoll d) =>
                              if d =? 0 then
                                let r := set_output (fuel_of T) T acc b in
                                if iexn r then set_err r else r
                              else acc
                          | _ => acc
                          end) (seq 0 (List.length T)) s.

(* the whole start-up: (final state, duration of the asynchronous phase, success) *)
Definition run_init (T : list ispec) : istate * Z * bool :=
  let s1 := sync_pass T (pre_phase T istate0) in
  if ierr s1 then (s1, 0, false) else
  let '(s2, tend) := async_phase T s1 in
  if ierr s2 then (s2, tend, false) else
  let s3 := sync_pass T s2 in
  (s3, tend, negb (ierr s3) && all_inited T s3).

(* ---------- correspondence ---------- *)
Definition call_eqb (a b : call) : bool :=
  match a, b with
  | CRestore x, CRestore y | CAsync x, CAsync y | CRegular x, CRegular y
  | CFromValue x, CFromValue y | CHandler x, CHandler y => Nat.eqb x y
  | _, _ => false
  end.
Fixpoint calls_eqb (a b : list call) : bool :=
  match a, b with
  | [], [] => true
  | x :: a', y :: b' => call_eqb x y && calls_eqb a' b'
  | _, _ => false
  end.

Record icase := {
  ic_specs : list ispec;
  ic_eval_fails : bool;             (* the circuit contains a CBlock whose first evaluation raises *)
  ic_log : list call;               (* observed call log *)
  ic_ok : bool;                     (* wait_init() returned normally *)
  ic_all_defined : bool;            (* every output differed from UNDEF at that moment *)
  ic_async_wait : Z;                (* virtual time spent in the start-up *)
  ic_perm_ok : list bool;           (* outcome of the same blocks created in every other order *)
  ic_handler_in_init : list bool }. (* per handled event, in log order: it arrived while one of the block's
                                       own init routines was running (re-entrancy through a cyclic topology) *)

Definition icase_agree (k : icase) : bool :=
  let '(s, tend, ok) := run_init (ic_specs k) in
  Bool.eqb (ok && negb (ic_eval_fails k)) (ic_ok k) && (if ok then calls_eqb (ilog s) (ic_log k) && (tend =? ic_async_wait k) else true).

(* monitor on observed data: success => all outputs defined; each routine at most once per block
   and in the documented order; from_value only for blocks with an initdef; the start-up never
   takes longer than the largest init_timeout; the outcome is the same in every creation order *)
Definition count_call (c : call) (l : list call) : nat := List.length (filter (call_eqb c) l).
Fixpoint before (a b : call) (l : list call) : bool :=   (* no b occurs before the first a *)
  match l with
  | [] => true
  | x :: r => if call_eqb x a then true else if call_eqb x b then
                 negb (existsb (call_eqb a) r) else before a b r
  end.
Fixpoint never_before (a b : call) (l : list call) : bool :=   (* every b is preceded by an a *)
  match l with
  | [] => true
  | x :: r => if call_eqb x a then true else if call_eqb x b then false else never_before a b r
  end.
(* every handled event finds the block's synchronous steps completed (init_regular has run),
   unless it arrives in the middle of one of the block's own init routines *)
Fixpoint handlers_after_init (l : list call) (flags : list bool) (seen : list nat) : bool :=
  match l with
  | [] => true
  | CRegular b :: r => handlers_after_init r flags (b :: seen)
  | CHandler b :: r =>
      match flags with
      | fl :: flags' => (fl || existsb (Nat.eqb b) seen) && handlers_after_init r flags' seen
      | [] => false
      end
  | _ :: r => handlers_after_init r flags seen
  end.
Definition max_timeout (T : list ispec) : Z :=
  fold_left (fun m sp => match is_async sp with Some (t, _) => Z.max m t | None => m end) T 0.

Definition icase_monitor (k : icase) : bool :=
  let n := List.length (ic_specs k) in
  (if ic_ok k then ic_all_defined k else true) &&
  (* a block that cannot be initialised: its failing init_regular was called => no success *)
  (if ic_ok k then
     forallb (fun b => match is_regular (spec_of (ic_specs k) b) with
                       | GRaises => Nat.eqb (count_call (CRegular b) (ic_log k)) 0
                       | _ => true end) (seq 0 n)
   else true) &&
  forallb (fun b =>
    Nat.leb (count_call (CRestore b) (ic_log k)) 1 && Nat.leb (count_call (CRegular b) (ic_log k)) 1 &&
    Nat.leb (count_call (CFromValue b) (ic_log k)) 1 && Nat.leb (count_call (CAsync b) (ic_log k)) 1 &&
    before (CRestore b) (CRegular b) (ic_log k) && before (CRegular b) (CFromValue b) (ic_log k) &&
    (if is_initdef (spec_of (ic_specs k) b) then true
     else Nat.eqb (count_call (CFromValue b) (ic_log k)) 0) &&
    (if is_persistent (spec_of (ic_specs k) b) then true
     else Nat.eqb (count_call (CRestore b) (ic_log k)) 0)) (seq 0 n) &&
  handlers_after_init (ic_log k) (ic_handler_in_init k) [] &&
  (ic_async_wait k <=? max_timeout (ic_specs k)) &&
  forallb (Bool.eqb (ic_ok k)) (ic_perm_ok k).

Definition i_verdict (k : icase) : ascii :=
  (if icase_monitor k then (if icase_agree k then "A" else "R") else "V")%char.
