(* Model of edzed.utils.timeunits (convert / time_period / timestr / timestr_approx) with
   IEEE-754 double rounding (round-to-nearest-even, normal range) made explicit.
   Definitions only. *)
From Verif Require Export Values.
From Coq Require Export Qround Qabs DecimalString DecimalN NArith.
Open Scope list_scope.
Open Scope string_scope.

(* ---------- numbers ---------- *)
(* round half to even *)
Definition rhe (q : Q) : Z :=
  let f := Qfloor q in
  let r := (q - inject_Z f)%Q in
  match Qcompare r (1 # 2) with
  | Lt => f
  | Gt => (f + 1)%Z
  | Eq => if Z.even f then f else (f + 1)%Z
  end.

Definition pow2 (e : Z) : Q := if (0 <=? e)%Z then inject_Z (2 ^ e) else (1 # Z.to_pos (2 ^ (- e))).

(* the double nearest to a non-negative rational (no overflow/subnormals in our range) *)
Definition is_small_int (q : Q) : bool :=
  match Qden q with xH => ((0 <=? Qnum q) && (Qnum q <? 2 ^ 53))%Z | _ => false end.

Definition to_double (q : Q) : Q :=
  if is_small_int q then q else          (* integers below 2^53 are doubles *)
  if Qle_bool q 0 then (if Qeq_bool q 0 then 0%Q else q) else
  let n := Qnum q in let d := Zpos (Qden q) in
  let e0 := (Z.log2 n - Z.log2 d - 52)%Z in
  (* ensure 2^52 <= q / 2^e < 2^53 *)
  let m0 := (q / pow2 e0)%Q in
  let e := if Qle_bool (inject_Z (2 ^ 53)) m0 then (e0 + 1)%Z
           else if Qle_bool (inject_Z (2 ^ 52)) m0 then e0 else (e0 - 1)%Z in
  (inject_Z (rhe (q / pow2 e)) * pow2 e)%Q.

Definition fmul (a b : Q) : Q := to_double (a * b).
Definition fadd (a b : Q) : Q := to_double (a + b).
Definition fdiv (a b : Q) : Q := to_double (a / b).

(* ---------- strings ---------- *)
Definition is_digit (c : ascii) : bool :=
  let n := nat_of_ascii c in (Nat.leb 48 n && Nat.leb n 57)%bool.
(* \s with re.ASCII: space \t \n \v \f \r *)
Definition is_ws (c : ascii) : bool :=
  let n := nat_of_ascii c in
  (Nat.eqb n 32 || Nat.eqb n 9 || Nat.eqb n 10 || Nat.eqb n 11 || Nat.eqb n 12 || Nat.eqb n 13)%bool.

Fixpoint span_digits (s : string) : string * string :=
  match s with
  | String c r => if is_digit c then let '(a, b) := span_digits r in (String c a, b) else ("", s)
  | EmptyString => ("", "")
  end.
Fixpoint skip_ws (s : string) : string :=
  match s with String c r => if is_ws c then skip_ws r else s | EmptyString => "" end.

Definition N_of_digits (ds : string) : option N :=
  option_map N.of_uint (NilEmpty.uint_of_string ds).
Definition N2s (n : N) : string := NilEmpty.string_of_uint (N.to_uint n).

(* NUM = \d+(?:[.,]\d+)?  : (integer part, optional (fraction digits value, number of digits)) *)
Record num := { n_int : N; n_frac : option (N * nat) }.
Definition num_value (x : num) : Q :=
  match n_frac x with
  | None => inject_Z (Z.of_N (n_int x))
  | Some (f, k) => (inject_Z (Z.of_N (n_int x)) + inject_Z (Z.of_N f) / inject_Z (10 ^ Z.of_nat k))%Q
  end.

Definition read_num (s : string) : option (num * string) :=
  let '(ds, r) := span_digits s in
  match ds with
  | EmptyString => None
  | _ =>
    match N_of_digits ds with
    | None => None
    | Some i =>
        match r with
        | String c r1 =>
            if (Ascii.eqb c "." || Ascii.eqb c ",")%bool then
              let '(fs, r2) := span_digits r1 in
              match fs with
              | EmptyString => Some ({| n_int := i; n_frac := None |}, r)
              | _ => match N_of_digits fs with
                     | Some f => Some ({| n_int := i; n_frac := Some (f, String.length fs) |}, r2)
                     | None => None
                     end
              end
            else Some ({| n_int := i; n_frac := None |}, r)
        | EmptyString => Some ({| n_int := i; n_frac := None |}, r)
        end
    end
  end.

Definition lower (c : ascii) : ascii :=
  let n := nat_of_ascii c in if (Nat.leb 65 n && Nat.leb n 90)%bool then ascii_of_nat (n + 32) else c.

(* units in the order of the regular expression: index 0..3 = d h m s *)
Definition trad_unit (c : ascii) : option nat :=
  let l := lower c in
  if Ascii.eqb l "d" then Some 0%nat else if Ascii.eqb l "h" then Some 1%nat
  else if Ascii.eqb l "m" then Some 2%nat else if Ascii.eqb l "s" then Some 3%nat else None.

(* traditional format: returns the groups found, as (unit index, number), in order *)
Fixpoint parse_trad (fuel : nat) (s : string) (idx : nat) (acc : list (nat * num))
  : option (list (nat * num)) :=
  match fuel with
  | O => None
  | S f =>
    let s1 := skip_ws s in
    match s1 with
    | EmptyString => Some acc
    | _ =>
      match read_num s1 with
      | None => None
      | Some (x, r) =>
          let r1 := skip_ws r in
          match r1 with
          | String c r2 =>
              match trad_unit c with
              | Some j => if Nat.leb idx j then parse_trad f r2 (S j) (acc ++ [(j, x)])%list else None
              | None => None      (* a number followed by something that is not a unit *)
              end
          | EmptyString =>
              (* the last number without a unit letter: seconds *)
              if Nat.leb idx 3 then Some (acc ++ [(3%nat, x)])%list else None
          end
      end
    end
  end.

(* ISO 8601: P[nY][nM][nD][T[nH][nM][nS]], no inner white space, case sensitive.
   unit index 0..5 = S M(in) H D M(onth) Y, as in the reversed group list of the code *)
Definition iso_date_unit (c : ascii) : option nat :=
  if Ascii.eqb c "Y" then Some 5%nat else if Ascii.eqb c "M" then Some 4%nat
  else if Ascii.eqb c "D" then Some 3%nat else None.
Definition iso_time_unit (c : ascii) : option nat :=
  if Ascii.eqb c "H" then Some 2%nat else if Ascii.eqb c "M" then Some 1%nat
  else if Ascii.eqb c "S" then Some 0%nat else None.

(* groups must appear in decreasing unit index *)
Fixpoint parse_iso_part (fuel : nat) (time : bool) (s : string) (maxu : nat) (acc : list (nat * num))
  : option (list (nat * num) * string) :=
  match fuel with
  | O => None
  | S f =>
    match read_num s with
    | None => Some (acc, s)
    | Some (x, String c r) =>
        match (if time then iso_time_unit c else iso_date_unit c) with
        | Some j => if Nat.ltb j maxu then parse_iso_part f time r j (acc ++ [(j, x)])%list else None
        | None => None
        end
    | Some (_, EmptyString) => None
    end
  end.

Definition parse_iso (s : string) : option (list (nat * num)) :=
  match skip_ws s with
  | String "P" r =>
      let n := S (String.length r) in
      match parse_iso_part n false r 6 [] with
      | None => None
      | Some (acc, r1) =>
          match r1 with
          | String "T" r2 =>
              match parse_iso_part n true r2 3 acc with
              | None => None
              | Some (acc2, r3) => match skip_ws r3 with EmptyString => Some acc2 | _ => None end
              end
          | _ => match skip_ws r1 with EmptyString => Some acc | _ => None end
          end
      end
  | _ => None
  end.

(* scale factors by "reversed group" index: 1, 60, 3600, 86400, None, None *)
Definition scale (u : nat) : option Q :=
  match u with
  | 0%nat => Some 1%Q | 1%nat => Some 60%Q | 2%nat => Some 3600%Q | 3%nat => Some 86400%Q
  | _ => None
  end.

(* the loop of _convert over the groups from the smallest unit upwards *)
Fixpoint sum_groups (gs : list (nat * num)) (smallest : bool) (result : Q) : res Q :=
  match gs with
  | [] => if smallest then Err EValue else Ok result
  | (u, x) :: r =>
      match n_frac x, smallest with
      | Some _, false => Err EValue         (* only the smallest unit may have a fraction *)
      | _, _ =>
          let v := to_double (num_value x) in
          if Qeq_bool v 0 then sum_groups r false result else
          match scale u with
          | None => Err EValue              (* calendar years / months *)
          | Some sc => sum_groups r false (fadd result (fmul v sc))
          end
      end
  end.

(* traditional groups use index 0..3 = d h m s; convert to the reversed numbering *)
Definition trad_to_rev (gs : list (nat * num)) : list (nat * num) :=
  rev (map (fun g => ((3 - fst g)%nat, snd g)) gs).

Definition convert (s : string) : res Q :=
  match parse_trad (S (String.length s)) s 0 [] with
  | Some gs => sum_groups (trad_to_rev gs) true 0
  | None =>
      match parse_iso s with
      | Some gs => sum_groups (rev gs) true 0
      | None => Err EValue
      end
  end.

(* ---------- time_period ---------- *)
Inductive parg := PNone | PInt (z : Z) | PFloat (q : Q) | PStr (s : string) | POther.
Definition time_period (p : parg) : res (option Q) :=
  match p with
  | PNone => Ok None
  | PInt z => Ok (Some (if Qle_bool 0 (to_double (inject_Z z)) then to_double (inject_Z z) else 0%Q))
  | PFloat q => Ok (Some (if Qle_bool 0 q then q else 0%Q))
  | PStr s => match convert s with Ok q => Ok (Some q) | Err e => Err e end
  | POther => Err EType
  end.

(* ---------- timestr ---------- *)
Definition pad (k : nat) (s : string) : string :=
  String.concat "" (repeat "0" (k - String.length s)) ++ s.

(* "{x:.{prec}f}" for x >= 0 given k = round-half-even(x * 10^prec) *)
Definition fixed (k : Z) (prec : nat) : string :=
  let p := (10 ^ Z.of_nat prec)%Z in
  match prec with
  | O => N2s (Z.to_N k)
  | _ => N2s (Z.to_N (k / p)) ++ "." ++ pad prec (N2s (Z.to_N (k mod p)))
  end.

Definition parts (d h m : Z) (last : string) : string :=
  (if (d =? 0)%Z then "" else N2s (Z.to_N d) ++ "d") ++
  (if ((d =? 0) && (h =? 0))%Z then "" else N2s (Z.to_N h) ++ "h") ++
  N2s (Z.to_N m) ++ "m" ++ last.

Definition timestr_int (n : Z) : res string :=
  if (n <? 0)%Z then Err EValue else
  let d := (n / 86400)%Z in let s1 := (n mod 86400)%Z in
  let h := (s1 / 3600)%Z in let s2 := (s1 mod 3600)%Z in
  let m := (s2 / 60)%Z in let s := (s2 mod 60)%Z in
  Ok (parts d h m (N2s (Z.to_N s) ++ "s")).

Definition qfloorZ (q : Q) : Z := Qfloor q.
Definition round_n (x : Q) (prec : nat) : Q :=
  to_double (inject_Z (rhe (x * inject_Z (10 ^ Z.of_nat prec))) / inject_Z (10 ^ Z.of_nat prec)).

Definition timestr_float (x : Q) (prec : nat) : res string :=
  if Qle_bool 0 x then
    let x1 := round_n x prec in
    let d := qfloorZ (x1 / 86400) in let s1 := (x1 - inject_Z d * 86400)%Q in
    let h := qfloorZ (s1 / 3600) in let s2 := (s1 - inject_Z h * 3600)%Q in
    let m := qfloorZ (s2 / 60) in let s := (s2 - inject_Z m * 60)%Q in
    Ok (parts d h m (fixed (rhe (s * inject_Z (10 ^ Z.of_nat prec))) prec ++ "s"))
  else Err EValue.

(* ---------- timestr_approx ---------- *)
Inductive pynum := PyI (z : Z) | PyF (q : Q).
Definition pyq (x : pynum) : Q := match x with PyI z => inject_Z z | PyF q => q end.

Definition approx_stage1 (x : pynum) : pynum * nat :=   (* the float cascade; second = sprec *)
  match x with
  | PyI _ => (x, 0%nat)
  | PyF q0 =>
      let '(q1, p1) := if Qle_bool 1 q0 then (q0, 0%nat) else (round_n q0 3, 3%nat) in
      let '(q2, p2) := if (Qle_bool 1 q1 && negb (Qle_bool 10 q1))%bool then (round_n q1 2, 2%nat) else (q1, p1) in
      let '(q3, p3) := if (Qle_bool 10 q2 && negb (Qle_bool 60 q2))%bool then (round_n q2 1, 1%nat) else (q2, p2) in
      if (Qle_bool 60 q3 && negb (Qle_bool 36000 q3))%bool then (PyI (rhe q3), p3) else (PyF q3, p3)
  end.

(* seconds = UNIT * int(seconds / UNIT + 0.5), in floating point *)
Definition round_to (x : pynum) (unit : Z) : pynum :=
  PyI (unit * Qfloor (fadd (fdiv (to_double (pyq x)) (inject_Z unit)) (1 # 2)))%Z.

Definition timestr_approx (x : pynum) : res string :=
  if negb (Qle_bool 0 (pyq x)) then Err EValue else
  let '(y, sprec) := approx_stage1 x in
  let '(y1, omit_s) :=
      if (Qle_bool 36000 (pyq y) && negb (Qle_bool 864000 (pyq y)))%bool then (round_to y 60, true) else (y, false) in
  let '(y2, omit_s2, omit_m) :=
      if Qle_bool 864000 (pyq y1) then (round_to y1 3600, true, true) else (y1, omit_s, false) in
  let v := pyq y2 in
  let d := Qfloor (v / 86400) in let s1 := (v - inject_Z d * 86400)%Q in
  let h := Qfloor (s1 / 3600) in let s2 := (s1 - inject_Z h * 3600)%Q in
  let m := if omit_m then 0%Z else Qfloor (s2 / 60) in
  let s := if omit_m then s2 else (s2 - inject_Z m * 60)%Q in
  let pd := if (d =? 0)%Z then "" else N2s (Z.to_N d) ++ "d" in
  let ph := if ((d =? 0) && (h =? 0))%Z then "" else N2s (Z.to_N h) ++ "h" in
  let pm := if (negb omit_m && negb ((d =? 0) && (h =? 0) && (m =? 0))%Z)%bool then N2s (Z.to_N m) ++ "m" else "" in
  let ps := if omit_s2 then "" else
            match y2 with
            | PyF _ => fixed (rhe (s * inject_Z (10 ^ Z.of_nat sprec))) sprec ++ "s"
            | PyI _ => N2s (Z.to_N (Qfloor s)) ++ "s"
            end in
  Ok (pd ++ ph ++ pm ++ ps).

(* ---------- correspondence ---------- *)
Inductive dcase :=
| DConvert (s : string) (obs : res Q)
| DPeriod (p : parg) (obs : res (option Q))
| DTimestrInt (n : Z) (obs : res string)
| DTimestrFloat (x : Q) (prec : nat) (obs : res string)
| DApprox (x : pynum) (obs : res string)
| DInvInt (n : Z) (obs : res Q).     (* convert(timestr(n)) computed by the implementation *)

Definition resq_eqb (a b : res Q) : bool :=
  match a, b with Ok x, Ok y => Qeq_bool x y | Err x, Err y => errkind_eqb x y | _, _ => false end.
Definition ress_eqb (a b : res string) : bool :=
  match a, b with Ok x, Ok y => String.eqb x y | Err x, Err y => errkind_eqb x y | _, _ => false end.
Definition resoq_eqb (a b : res (option Q)) : bool :=
  match a, b with
  | Ok (Some x), Ok (Some y) => Qeq_bool x y
  | Ok None, Ok None => true
  | Err x, Err y => errkind_eqb x y
  | _, _ => false
  end.

Definition dcase_agree (c : dcase) : bool :=
  match c with
  | DConvert s o => resq_eqb (convert s) o
  | DPeriod p o => resoq_eqb (time_period p) o
  | DTimestrInt n o => ress_eqb (timestr_int n) o
  | DTimestrFloat x p o => ress_eqb (timestr_float x p) o
  | DApprox x o => ress_eqb (timestr_approx x) o
  | DInvInt n o => resq_eqb (Ok (inject_Z n)) o
  end.
(* the documented rounding step of timestr_approx by magnitude *)
Definition approx_step (x : Q) : Q :=
  if negb (Qle_bool 1 x) then 1 # 1000 else if negb (Qle_bool 10 x) then 1 # 100
  else if negb (Qle_bool 60 x) then 1 # 10 else if negb (Qle_bool 36000 x) then 1
  else if negb (Qle_bool 864000 x) then 60 else 3600.

(* monitor on the observed string only: it reads back (through convert) to a value that
   differs from the true one by less than the rounding step *)
Definition approx_monitor (x : pynum) (o : res string) : bool :=
  match o with
  | Ok s => match convert s with
            | Ok v => negb (Qle_bool (approx_step (pyq x)) (Qabs (v - pyq x)))
            | Err _ => false
            end
  | Err _ => negb (Qle_bool 0 (pyq x))
  end.

Definition d19_verdict (c : dcase) : ascii :=
  match c with
  | DApprox x o => if approx_monitor x o then (if dcase_agree c then "A" else "R") else "V"
  | _ => if dcase_agree c then "A" else "V"
  end%char.
