(* Model of the persistent-state bookkeeping: AddonPersistence (edzed/addons.py:35-125),
   Circuit._check_persistent_data (edzed/simulator.py:305-335), the saves after initialisation
   and at stop (524-527, 712-718) and the restore decision incl. FSM timers (edzed/fsm.py:290-318).
   Block states are opaque here (their semantics belong to other properties).  Definitions only. *)
From Verif Require Export Values.
Open Scope string_scope.
Open Scope list_scope.
Open Scope Z_scope.

(* an internal state as returned by get_state(): a canonical rendering plus, for an FSM with a
   running timer, the absolute expiration time (microseconds of wall-clock time) *)
Record bst := { b_repr : string; b_expiry : option Z }.
Definition bst_eqb (a b : bst) : bool :=
  String.eqb (b_repr a) (b_repr b) &&
  match b_expiry a, b_expiry b with
  | Some x, Some y => x =? y | None, None => true | _, _ => false end.

Record pcfg := {
  p_key : string;            (* str(block), e.g. "<Input 'i'>" *)
  p_persistent : bool;
  p_sync : bool;             (* sync_state *)
  p_exp : option Z }.        (* expiration in microseconds; None = never expires *)

Definition storage := list (string * bst).
Fixpoint sget (s : storage) (k : string) : option bst :=
  match s with [] => None | (k', v) :: r => if String.eqb k k' then Some v else sget r k end.
Definition sdel (s : storage) (k : string) : storage :=
  filter (fun kv => negb (String.eqb (fst kv) k)) s.
Definition sset (s : storage) (k : string) (v : bst) : storage := (k, v) :: sdel s k.

Record pstate := {
  ps_store : storage;
  ps_stop_ts : option Z;       (* storage['edzed-stop-time'] *)
  ps_extra : list string;      (* other keys present (entries of blocks that no longer exist, reserved keys) *)
  ps_persist : list bool }.    (* per block: still persistent (switched off after a handler error) *)

Definition is_reserved (k : string) : bool := String.prefix "edzed-" k.

(* _check_persistent_data: entries of unknown blocks are removed, 'edzed-*' entries are kept *)
Definition check_data (cfgs : list pcfg) (s : pstate) : pstate :=
  let keys := map p_key (filter p_persistent cfgs) in
  {| ps_store := filter (fun kv => existsb (String.eqb (fst kv)) keys) (ps_store s);
     ps_stop_ts := ps_stop_ts s;
     ps_extra := filter is_reserved (ps_extra s);
     ps_persist := map p_persistent cfgs |}.

Fixpoint save_all (cfgs : list pcfg) (on : list bool) (states : list bst) (st : storage) : storage :=
  match cfgs, on, states with
  | c :: cr, b :: br, x :: xr =>
      save_all cr br xr (if b then sset st (p_key c) x else st)
  | _, _, _ => st
  end.

Inductive pstep :=
| PInit (states : list bst)                        (* initialisation finished: all states saved *)
| PEvent (blk : nat) (ok : bool) (after : bst)     (* block blk handled an event (ok) or its handler failed *)
| PStop (t : Z) (states : list bst)                (* regular stop sequence at wall time t *)
| PFailedStart.                                    (* start() of some block failed: stop without saving *)

Fixpoint set_nth {A} (l : list A) (n : nat) (v : A) : list A :=
  match l, n with
  | [], _ => []
  | _ :: r, O => v :: r
  | x :: r, S k => x :: set_nth r k v
  end.

Definition pstep_do (cfgs : list pcfg) (s : pstate) (x : pstep) : pstate :=
  match x with
  | PInit states =>
      {| ps_store := save_all cfgs (ps_persist s) states (ps_store s); ps_stop_ts := ps_stop_ts s;
         ps_extra := ps_extra s; ps_persist := ps_persist s |}
  | PEvent blk ok after =>
      match nth_error cfgs blk, nth_error (ps_persist s) blk with
      | Some c, Some true =>
          if ok then
            if p_sync c then
              {| ps_store := sset (ps_store s) (p_key c) after; ps_stop_ts := ps_stop_ts s;
                 ps_extra := ps_extra s; ps_persist := ps_persist s |}
            else s
          else   (* the handler failed and the simulation is being stopped: no more saving for it *)
            {| ps_store := ps_store s; ps_stop_ts := ps_stop_ts s; ps_extra := ps_extra s;
               ps_persist := set_nth (ps_persist s) blk false |}
      | _, _ => s
      end
  | PStop t states =>
      {| ps_store := save_all cfgs (ps_persist s) states (ps_store s); ps_stop_ts := Some t;
         ps_extra := ps_extra s; ps_persist := ps_persist s |}
  | PFailedStart => s
  end.

(* which saved state is restored at the next start (None = normal initialisation) *)
Definition restore_decision (c : pcfg) (stop_ts : option Z) (now : Z) (saved : option bst) : option bst :=
  if negb (p_persistent c) then None else
  match saved with
  | None => None
  | Some st =>
      let expired :=
        match p_exp c with
        | None => false
        | Some e => if e <=? 0 then true
                    else match stop_ts with Some ts => ts + e <? now | None => false end
        end in
      if expired then None else
      match b_expiry st with
      | Some w => if w - now <=? 0 then None else Some st      (* the timer ran out meanwhile *)
      | None => Some st
      end
  end.

(* ---------- correspondence ---------- *)
Fixpoint storage_eqb_keys (keys : list string) (a b : storage) : bool :=
  match keys with
  | [] => true
  | k :: r => match sget a k, sget b k with
              | Some x, Some y => bst_eqb x y
              | None, None => true
              | _, _ => false
              end && storage_eqb_keys r a b
  end.

Record snap := { sn_store : storage; sn_stop_ts : option Z; sn_extra : list string }.

Definition sset_eqb (a b : list string) : bool :=
  forallb (fun x => existsb (String.eqb x) b) a && forallb (fun x => existsb (String.eqb x) a) b.
Definition oz_eq (a b : option Z) : bool :=
  match a, b with Some x, Some y => x =? y | None, None => true | _, _ => false end.

Definition snap_agree (cfgs : list pcfg) (s : pstate) (o : snap) : bool :=
  storage_eqb_keys (map p_key cfgs ++ map fst (sn_store o)) (ps_store s) (sn_store o) &&
  oz_eq (ps_stop_ts s) (sn_stop_ts o) && sset_eqb (ps_extra s) (sn_extra o).

Fixpoint psteps_agree (cfgs : list pcfg) (s : pstate) (xs : list (pstep * snap)) : bool :=
  match xs with
  | [] => true
  | (x, o) :: r => let s1 := pstep_do cfgs s x in snap_agree cfgs s1 o && psteps_agree cfgs s1 r
  end.

(* a restart from a snapshot *)
Record rcase := {
  rs_cfg : pcfg; rs_saved : option bst; rs_stop_ts : option Z; rs_now : Z;
  rs_fresh : bst;        (* the state a normal initialisation gives *)
  rs_observed : bst;     (* the state of the restarted block (expiry absolute) *)
  rs_entered : bool }.   (* entry actions / on_enter events ran during the restart *)

Definition rcase_agree (k : rcase) : bool :=
  match restore_decision (rs_cfg k) (rs_stop_ts k) (rs_now k) (rs_saved k) with
  | Some st => bst_eqb st (rs_observed k) && negb (rs_entered k)
  | None => String.eqb (b_repr (rs_fresh k)) (b_repr (rs_observed k))
  end.

Record pcase := {
  pc_cfgs : list pcfg; pc_init : snap; pc_init_states_present : bool;
  pc_steps : list (pstep * snap);
  pc_restarts : list rcase;
  pc_times : list Z }.       (* wall-clock time (us) at which each snapshot of pc_steps was taken *)

Definition pstate_of_snap (cfgs : list pcfg) (o : snap) : pstate :=
  {| ps_store := sn_store o; ps_stop_ts := sn_stop_ts o; ps_extra := sn_extra o;
     ps_persist := map p_persistent cfgs |}.

Definition pcase_agree (k : pcase) : bool :=
  psteps_agree (pc_cfgs k) (check_data (pc_cfgs k) (pstate_of_snap (pc_cfgs k) (pc_init k))) (pc_steps k)
  && forallb rcase_agree (pc_restarts k).

(* monitor on observed data only: after every successfully handled event of a persistent
   sync_state block the storage holds exactly the state reported by get_state() *)
(* nothing was written: same time stamp; whatever entry exists afterwards existed before with
   the same contents; no entry of an existing persistent block has disappeared *)
Definition nothing_written (cfgs : list pcfg) (before after : snap) : bool :=
  let pkeys := map p_key (filter p_persistent cfgs) in
  oz_eq (sn_stop_ts before) (sn_stop_ts after) &&
  forallb (fun k => match sget (sn_store before) k, sget (sn_store after) k with
                    | Some x, Some y => bst_eqb x y
                    | None, Some _ => false
                    | Some _, None => negb (existsb (String.eqb k) pkeys)
                    | None, None => true
                    end) (pkeys ++ map fst (sn_store after)).

Fixpoint sync_monitor (cfgs : list pcfg) (on : list bool) (xs : list (pstep * snap)) : bool :=
  match xs with
  | [] => true
  | (PEvent blk ok after, o) :: r =>
      match nth_error cfgs blk, nth_error on blk with
      | Some c, Some true =>
          if ok then
            (if p_sync c then match sget (sn_store o) (p_key c) with
                              | Some x => bst_eqb x after | None => false end else true)
            && sync_monitor cfgs on r
          else sync_monitor cfgs (set_nth on blk false) r
      | _, _ => sync_monitor cfgs on r
      end
  | (PStop t states, o) :: r =>
      oz_eq (sn_stop_ts o) (Some t) && sync_monitor cfgs on r
  | (_, _) :: r => sync_monitor cfgs on r
  end.

Definition failed_start_monitor (k : pcase) : bool :=
  match pc_steps k with
  | [(PFailedStart, o)] => nothing_written (pc_cfgs k) (pc_init k) o
  | _ => true
  end.

Definition pcase_monitor (k : pcase) : bool :=
  sync_monitor (pc_cfgs k) (map p_persistent (pc_cfgs k)) (pc_steps k) && failed_start_monitor k.

(* the state reported by get_state() (and therefore saved) never carries the expiration time of a
   timer that is over (2 ms tolerance for the rounding to milliseconds) *)
Definition fresh_expiry (t : Z) (b : bst) : bool :=
  match b_expiry b with Some e => t - 2000 <=? e | None => true end.
Fixpoint expiry_monitor (xs : list (pstep * snap)) (ts : list Z) : bool :=
  match xs, ts with
  | (x, _) :: r, t :: ts' =>
      match x with
      | PInit states | PStop _ states => forallb (fresh_expiry t) states
      | PEvent _ _ after => fresh_expiry t after
      | _ => true
      end && expiry_monitor r ts'
  | _, _ => true
  end.

Definition p_verdict (k : pcase) : ascii :=
  (if pcase_monitor k && expiry_monitor (pc_steps k) (pc_times k)
   then (if pcase_agree k then "A" else "R") else "V")%char.
