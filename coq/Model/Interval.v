(* Model of edzed/blocklib/timeinterval.py: numeric semantics of time / date / date-time
   intervals (normalisation, sorting, membership, as_list, as_string) and the string notations
   (traditional and ISO 8601 for Python 3.12).  Characters are ASCII.  Definitions only. *)
From Verif Require Export Values.
From Coq Require Export Ascii String.
Open Scope list_scope.
Open Scope Z_scope.

Inductive kind := KTime | KDate | KDateTime.

(* ---------- calendar ---------- *)
Definition leap (y : Z) : bool := ((y mod 4 =? 0) && negb (y mod 100 =? 0)) || (y mod 400 =? 0).
Definition days_in_month (y m : Z) : Z :=
  if m =? 2 then (if leap y then 29 else 28)
  else if (m =? 4) || (m =? 6) || (m =? 9) || (m =? 11) then 30 else 31.
Definition dummy_year : Z := 404.

Definition in_range (lo x hi : Z) : bool := (lo <=? x) && (x <=? hi).

Definition valid_time (l : list Z) : bool :=
  match l with
  | [h; m; s; u] => in_range 0 h 23 && in_range 0 m 59 && in_range 0 s 59 && in_range 0 u 999999
  | _ => false
  end.
Definition valid_date (l : list Z) : bool :=
  match l with
  | [m; d] => in_range 1 m 12 && in_range 1 d (days_in_month dummy_year m)
  | _ => false
  end.
Definition valid_datetime (l : list Z) : bool :=
  match l with
  | [y; m; d; h; mi; s; u] =>
      in_range 1 y 9999 && in_range 1 m 12 && in_range 1 d (days_in_month y m) && valid_time [h; mi; s; u]
  | _ => false
  end.

Fixpoint pad (n : nat) (l : list Z) : list Z :=
  match n with
  | O => []
  | S n' => match l with [] => 0 :: pad n' [] | x :: r => x :: pad n' r end
  end.

(* a sequence endpoint -> normalised endpoint (full length), None = ValueError *)
Definition norm_endpoint (k : kind) (l : list Z) : option (list Z) :=
  match k with
  | KTime => let n := List.length l in
             if (Nat.leb 1 n && Nat.leb n 4)%bool then
               let p := pad 4 l in if valid_time p then Some p else None
             else None
  | KDate => if valid_date l then Some l else None
  | KDateTime => let n := List.length l in
                 if (Nat.leb 5 n && Nat.leb n 7)%bool then
                   let p := pad 7 l in if valid_datetime p then Some p else None
                 else None
  end.

(* lexicographic order of equally long integer lists = order of the datetime objects *)
Fixpoint lex_lt (a b : list Z) : bool :=
  match a, b with
  | x :: a', y :: b' => (x <? y) || ((x =? y) && lex_lt a' b')
  | [], _ :: _ => true
  | _, _ => false
  end.
Fixpoint list_eqb (a b : list Z) : bool :=
  match a, b with
  | [], [] => true
  | x :: a', y :: b' => (x =? y) && list_eqb a' b'
  | _, _ => false
  end.
Definition lex_le (a b : list Z) : bool := lex_lt a b || list_eqb a b.

Definition range := (list Z * list Z)%type.
Definition range_lt (r1 r2 : range) : bool :=
  lex_lt (fst r1) (fst r2) || (list_eqb (fst r1) (fst r2) && lex_lt (snd r1) (snd r2)).

(* stable insertion sort, as Python's sorted() on the (start, stop) tuples *)
Fixpoint ins_range (x : range) (l : list range) : list range :=
  match l with
  | [] => [x]
  | y :: r => if range_lt x y then x :: l else y :: ins_range x r
  end.
Definition sort_ranges (l : list range) : list range := fold_left (fun acc x => ins_range x acc) l [].

(* a range given as a sequence of endpoints: 2 endpoints, or 1 for dates *)
Definition norm_range (k : kind) (eps : list (list Z)) : option range :=
  match eps with
  | [a; b] => match norm_endpoint k a, norm_endpoint k b with
              | Some a', Some b' => Some (a', b') | _, _ => None end
  | [a] => match k with
           | KDate => match norm_endpoint k a with Some a' => Some (a', a') | None => None end
           | _ => None
           end
  | _ => None
  end.

Fixpoint all_some {A} (l : list (option A)) : option (list A) :=
  match l with
  | [] => Some []
  | Some x :: r => match all_some r with Some r' => Some (x :: r') | None => None end
  | None :: _ => None
  end.

Definition normalize (k : kind) (rs : list (list (list Z))) : option (list range) :=
  match all_some (map (norm_range k) rs) with
  | Some l => Some (sort_ranges l)
  | None => None
  end.

(* ---------- membership ---------- *)
Definition cmp_open (lo x hi : list Z) : bool :=
  if lex_lt lo hi then lex_le lo x && lex_lt x hi else lex_le lo x || lex_lt x hi.
Definition cmp_closed (lo x hi : list Z) : bool :=
  if lex_le lo hi then lex_le lo x && lex_le x hi else lex_le lo x || lex_le x hi.
Definition cmp_dt (lo x hi : list Z) : bool := lex_le lo x && lex_lt x hi.

Definition in_range_k (k : kind) (r : range) (x : list Z) : bool :=
  match k with
  | KTime => cmp_open (fst r) x (snd r)
  | KDate => cmp_closed (fst r) x (snd r)
  | KDateTime => cmp_dt (fst r) x (snd r)
  end.
Definition contains (k : kind) (rs : list range) (x : list Z) : bool := existsb (fun r => in_range_k k r x) rs.

(* ---------- the documented membership rules on a linear scale ---------- *)
Definition time_key (l : list Z) : Z :=
  match l with [h; m; s; u] => ((h * 60 + m) * 60 + s) * 1000000 + u | _ => 0 end.
Definition day_us : Z := 86400000000.
(* cyclic half-open interval [a, b) on a circle of length D; a = b is the whole circle *)
Definition cyc_open (D a b x : Z) : bool := (x - a) mod D <? (if a =? b then D else (b - a) mod D).

Fixpoint days_before (m : nat) : Z :=      (* days of the leap year before month m+1 *)
  match m with O => 0 | S m' => days_before m' + days_in_month dummy_year (Z.of_nat m) end.
Definition date_key (l : list Z) : Z :=
  match l with [m; d] => days_before (Z.to_nat (m - 1)) + d - 1 | _ => 0 end.
(* cyclic closed interval [a, b] on a circle of 366 days *)
Definition cyc_closed (D a b x : Z) : bool := (x - a) mod D <=? (b - a) mod D.

(* ---------- rendering (as_string) ---------- *)
Definition digit_char (d : Z) : ascii := ascii_of_nat (48 + Z.to_nat d).
Fixpoint dec_fixed (w : nat) (n : Z) : list ascii :=       (* exactly w digits, leading zeros *)
  match w with O => [] | S w' => dec_fixed w' (n / 10) ++ [digit_char (n mod 10)] end.
Definition dec_min (n : Z) : list ascii :=                 (* 1..2 digits without leading zero (n < 100) *)
  if n <? 10 then [digit_char n] else dec_fixed 2 n.

Definition chars (s : string) : list ascii := list_ascii_of_string s.
Definition colon : ascii := ":"%char.

Definition render_time (l : list Z) : list ascii :=
  match l with
  | [h; m; s; u] => dec_fixed 2 h ++ [colon] ++ dec_fixed 2 m ++ [colon] ++ dec_fixed 2 s ++
                    (if u =? 0 then [] else "."%char :: dec_fixed 6 u)
  | _ => []
  end.
Definition month_names : list string :=
  ["January"; "February"; "March"; "April"; "May"; "June"; "July"; "August"; "September"; "October";
   "November"; "December"]%string.
Definition month3 (m : Z) : list ascii := firstn 3 (chars (nth (Z.to_nat (m - 1)) month_names ""%string)).
Definition render_date (l : list Z) : list ascii :=
  match l with [m; d] => month3 m ++ [" "%char] ++ dec_min d | _ => [] end.
Definition render_datetime (l : list Z) : list ascii :=
  match l with
  | [y; m; d; h; mi; s; u] => dec_fixed 4 y ++ ["-"%char] ++ dec_fixed 2 m ++ ["-"%char] ++ dec_fixed 2 d
                              ++ [" "%char] ++ render_time [h; mi; s; u]
  | _ => []
  end.
Definition render_ep (k : kind) (l : list Z) : list ascii :=
  match k with KTime => render_time l | KDate => render_date l | KDateTime => render_datetime l end.
Definition render_range (k : kind) (r : range) : list ascii :=
  match k with
  | KDate => if list_eqb (fst r) (snd r) then render_ep k (fst r) ++ [";"%char]
             else render_ep k (fst r) ++ chars " / " ++ render_ep k (snd r) ++ [";"%char]
  | _ => render_ep k (fst r) ++ chars " / " ++ render_ep k (snd r) ++ [";"%char]
  end.
Fixpoint join_sp (l : list (list ascii)) : list ascii :=
  match l with [] => [] | [x] => x | x :: r => x ++ " "%char :: join_sp r end.
Definition as_string (k : kind) (rs : list range) : list ascii := join_sp (map (render_range k) rs).
Definition as_list (rs : list range) : list (list (list Z)) := map (fun r => [fst r; snd r]) rs.
