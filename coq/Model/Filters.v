(* Model of the event-filter pipeline (edzed/block.py Event.send) and of the bundled
   filters (edzed/blocklib/filters.py).  Definitions only. *)
From Verif Require Export Values.
From Coq Require Export Qabs.
Open Scope Z_scope.

(* What one filter call produces. *)
Inductive fres :=
| FReplace (d : data)     (* returned a mapping: replaces the data *)
| FPass                   (* any other true value *)
| FReject                 (* a false value *)
| FRaise (k : errkind).   (* the filter raised *)

(* The loop in Event.send: Some d = delivered with d, None = rejected (send returns False) *)
Fixpoint pipeline (fs : list (data -> fres)) (d : data) : res (option data) :=
  match fs with
  | [] => Ok (Some d)
  | f :: r =>
      match f d with
      | FReplace d' => pipeline r d'
      | FPass => pipeline r d
      | FReject => Ok None
      | FRaise k => Err k
      end
  end.

(* ---- not_from_undef *)
Definition not_from_undef (d : data) : fres :=
  match dget d "previous" with
  | Some VUndef | None => FReject
  | Some _ => FPass
  end.

(* ---- Edge(rise, fall, u_rise, u_fall) *)
Record edge_cfg := { e_rise : bool; e_fall : bool; e_urise : option bool; e_ufall : bool }.
Definition eff_urise (c : edge_cfg) : bool :=
  match e_urise c with Some b => b | None => e_rise c end.

Definition edge_pass (c : edge_cfg) (previous value : val) : bool :=
  match previous with
  | VUndef => if truthy value then eff_urise c else e_ufall c
  | _ => if truthy value then negb (truthy previous) && e_rise c
         else truthy previous && e_fall c
  end.

Definition edge (c : edge_cfg) (d : data) : fres :=
  match dget d "value", dget d "previous" with
  | Some v, Some p => if edge_pass c p v then FPass else FReject
  | _, _ => FRaise EKey
  end.

(* ---- Delta(delta): state = last passed value *)
Definition qabs_ge (a b delta : Q) : bool := Qle_bool delta (Qabs (a - b)).

Definition delta_step (delta : Q) (last : option Q) (v : Q) : bool * option Q :=
  match last with
  | None => (true, Some v)
  | Some l => if qabs_ge l v delta then (true, Some v) else (false, last)
  end.

Fixpoint delta_run (delta : Q) (last : option Q) (vs : list Q) : list bool :=
  match vs with
  | [] => []
  | v :: r => let '(p, last') := delta_step delta last v in p :: delta_run delta last' r
  end.

(* ---- IfOutput / IfNotIitialized: the control block's output is a parameter *)
Definition if_output (ctrl_out : val) (d : data) : fres :=
  if truthy ctrl_out then FReplace d else FReject.
Definition if_not_initialized (ctrl_out : val) (d : data) : fres :=
  match ctrl_out with VUndef => FReplace d | _ => FReject end.

(* ---- DataEdit *)
Inductive mres := MVal (v : val) | MDelete | MReject.
Inductive mfun := MF_succ | MF_const (v : val) | MF_delete | MF_reject
                | MF_reject_falsy | MF_delete_truthy.
Definition apply_mfun (f : mfun) (v : val) : mres :=
  match f with
  | MF_succ => match v with VInt z => MVal (VInt (z + 1)) | _ => MVal v end
  | MF_const c => MVal c
  | MF_delete => MDelete
  | MF_reject => MReject
  | MF_reject_falsy => if truthy v then MVal v else MReject
  | MF_delete_truthy => if truthy v then MDelete else MVal v
  end.

Inductive deop :=
| OpAdd (kvs : data)
| OpSetdefault (kvs : data)
| OpCopy (src dst : string)
| OpRename (src dst : string)
| OpDelete (ks : list string)
| OpPermit (ks : list string)
| OpModify (k : string) (f : mfun)
| OpAddOutput (k : string) (out : val).

Inductive opres := DOk (d : data) | DReject | DErr (k : errkind).

Definition de_apply (o : deop) (d : data) : opres :=
  match o with
  | OpAdd kvs => DOk (fold_left (fun acc kv => dset acc (fst kv) (snd kv)) kvs d)
  | OpSetdefault kvs =>
      DOk (fold_left (fun acc kv => if dmem acc (fst kv) then acc else dset acc (fst kv) (snd kv)) kvs d)
  | OpCopy s t => match dget d s with Some v => DOk (dset d t v) | None => DErr EKey end
  | OpRename s t => match dget d s with Some v => DOk (ddel (dset d t v) s) | None => DErr EKey end
  | OpDelete ks => DOk (fold_left ddel ks d)
  | OpPermit ks => DOk (filter (fun kv => str_in (fst kv) ks) d)
  | OpModify k f =>
      match dget d k with
      | None => DErr EKey
      | Some v => match apply_mfun f v with
                  | MVal v' => DOk (dset d k v')
                  | MDelete => DOk (ddel d k)
                  | MReject => DReject
                  end
      end
  | OpAddOutput k out => DOk (dset d k out)
  end.

Fixpoint de_chain (ops : list deop) (d : data) : opres :=
  match ops with
  | [] => DOk d
  | o :: r => match de_apply o d with
              | DOk d' => de_chain r d'
              | DReject => DReject
              | DErr k => DErr k
              end
  end.

Definition dataedit (ops : list deop) (d : data) : fres :=
  match de_chain ops d with
  | DOk d' => FReplace d'
  | DReject => FReject
  | DErr k => FRaise k
  end.

(* ---- filters as data, for the generated cases *)
Inductive filt :=
| F_not_from_undef
| F_edge (c : edge_cfg)
| F_if_output (ctrl_out : val)
| F_if_not_init (ctrl_out : val)
| F_dataedit (ops : list deop)
| F_const (r : bool)          (* user filter returning True / False *)
| F_truthy_nonmapping         (* user filter returning a non-mapping true value, e.g. 1 *)
| F_key (k : string)          (* user filter: lambda data: data.get(k) *)
| F_badkey.                   (* user filter returning a mapping with a non-string key *)

Definition run_filt (f : filt) : data -> fres :=
  match f with
  | F_not_from_undef => not_from_undef
  | F_edge c => edge c
  | F_if_output o => if_output o
  | F_if_not_init o => if_not_initialized o
  | F_dataedit ops => dataedit ops
  | F_const true => fun _ => FPass
  | F_const false => fun _ => FReject
  | F_truthy_nonmapping => fun _ => FPass
  | F_key k => fun d => match dget d k with
                        | Some (VMap l) =>       (* the item is itself a mapping: it replaces the data *)
                            FReplace (map (fun kz => (fst kz, VInt (snd kz))) l)
                        | Some v => if truthy v then FPass else FReject
                        | None => FReject
                        end
  | F_badkey => fun _ => FRaise EType
  end.

(* Event.send(source, **data): the sender's name becomes the 'source' item, then the filters *)
Definition send (src : string) (fs : list (data -> fres)) (d : data) : res (option data) :=
  pipeline fs (dset d "source" (VStr src)).

(* ---- a correspondence case *)
Inductive fobs := ObsDelivered (d : data) | ObsRejected | ObsRaised (k : errkind).

Record fcase := { f_src : string; f_filters : list filt; f_data : data; f_obs : fobs }.

Definition fcase_agree (c : fcase) : bool :=
  match send (f_src c) (map run_filt (f_filters c)) (f_data c), f_obs c with
  | Ok (Some d), ObsDelivered d' => data_equiv d d'
  | Ok None, ObsRejected => true
  | Err k, ObsRaised k' => errkind_eqb k k'
  | _, _ => false
  end.

(* Delta: one filter instance across a sequence of deliveries *)
Record dcase := { d_delta : Q; d_values : list Q; d_passed : list bool }.
Fixpoint blist_eqb (a b : list bool) : bool :=
  match a, b with
  | [], [] => true
  | x :: a', y :: b' => Bool.eqb x y && blist_eqb a' b'
  | _, _ => false
  end.
Definition dcase_agree (c : dcase) : bool := blist_eqb (delta_run (d_delta c) None (d_values c)) (d_passed c).

(* Delta's property stated on observed values only: v passes iff no value passed before
   or it differs from the LAST PASSED value by at least delta *)
Fixpoint delta_monitor (delta : Q) (lastp : option Q) (vs : list Q) (ps : list bool) : bool :=
  match vs, ps with
  | [], [] => true
  | v :: r, p :: r' =>
      let should := match lastp with None => true | Some l => qabs_ge l v delta end in
      Bool.eqb p should && delta_monitor delta (if p then Some v else lastp) r r'
  | _, _ => false
  end.
Definition dcase_monitor (c : dcase) : bool := delta_monitor (d_delta c) None (d_values c) (d_passed c).

Inductive anycase := CF (c : fcase) | CD (c : dcase).

Definition verdict2 (agree monitor : bool) : ascii :=
  match agree, monitor with
  | true, true => "A" | true, false => "X" | false, true => "R" | false, false => "V"
  end%char.

Definition any_verdict (c : anycase) : ascii :=
  match c with
  | CF f => if fcase_agree f then "A"%char else "V"%char
  | CD d => verdict2 (dcase_agree d) (dcase_monitor d)
  end.
