(* Python values as far as the models need them. *)
From Coq Require Export List ZArith QArith Bool String Ascii Lia.
Export ListNotations.
Open Scope Z_scope.

(* A Python value.  Floats are exact rationals (IEEE rounding is not modelled;
   the harness only feeds numbers on which binary floating point is exact).
   Tuples are tuples of integers, dicts have string keys and integer values - enough for "equal but not identical"
   values and for group inputs of boolean blocks. *)
Inductive val :=
| VUndef                      (* edzed.UNDEF *)
| VNone
| VBool (b : bool)
| VInt (z : Z)
| VFlt (q : Q)
| VStr (s : string)
| VTup (l : list Z)
| VMap (l : list (string * Z)).   (* a dict with string keys and integer values; the harness
                                     writes the items sorted by key (canonical form) *)

Definition num_of (v : val) : option Q :=
  match v with
  | VBool b => Some (if b then 1%Q else 0%Q)
  | VInt z => Some (inject_Z z)
  | VFlt q => Some q
  | _ => None
  end.

Fixpoint zlist_eqb (a b : list Z) : bool :=
  match a, b with
  | [], [] => true
  | x :: a', y :: b' => Z.eqb x y && zlist_eqb a' b'
  | _, _ => false
  end.

Fixpoint kvlist_eqb (a b : list (string * Z)) : bool :=
  match a, b with
  | [], [] => true
  | (k, x) :: a', (k', y) :: b' => String.eqb k k' && Z.eqb x y && kvlist_eqb a' b'
  | _, _ => false
  end.

(* Python's == on this universe. *)
Definition py_eq (a b : val) : bool :=
  match num_of a, num_of b with
  | Some x, Some y => Qeq_bool x y
  | Some _, None | None, Some _ => false
  | None, None =>
    match a, b with
    | VUndef, VUndef => true
    | VNone, VNone => true
    | VStr s, VStr t => String.eqb s t
    | VTup l, VTup m => zlist_eqb l m
    | VMap l, VMap m => kvlist_eqb l m
    | _, _ => false
    end
  end.

(* bool(x) *)
Definition truthy (v : val) : bool :=
  match v with
  | VUndef => false
  | VNone => false
  | VBool b => b
  | VInt z => negb (Z.eqb z 0)
  | VFlt q => negb (Qeq_bool q 0)
  | VStr s => negb (String.eqb s "")
  | VTup l => match l with [] => false | _ => true end
  | VMap l => match l with [] => false | _ => true end
  end.

Lemma zlist_eqb_refl l : zlist_eqb l l = true.
Proof. induction l as [|x l IH]; simpl; [reflexivity|]. now rewrite Z.eqb_refl, IH. Qed.

Lemma zlist_eqb_eq a b : zlist_eqb a b = true <-> a = b.
Proof.
  revert b; induction a as [|x a IH]; destruct b as [|y b]; simpl; split; intros H;
    try reflexivity; try discriminate.
  - apply andb_true_iff in H as [H1 H2]. apply Z.eqb_eq in H1. apply IH in H2. now subst.
  - inversion H; subst. now rewrite Z.eqb_refl, zlist_eqb_refl.
Qed.

Lemma kvlist_eqb_refl l : kvlist_eqb l l = true.
Proof.
  induction l as [|[k x] l IH]; simpl; [reflexivity|]. now rewrite String.eqb_refl, Z.eqb_refl, IH.
Qed.

Lemma kvlist_eqb_eq a b : kvlist_eqb a b = true <-> a = b.
Proof.
  revert b; induction a as [|[k x] a IH]; destruct b as [|[k' y] b]; simpl; split; intros H;
    try reflexivity; try discriminate.
  - apply andb_true_iff in H as [H1 H3]. apply andb_true_iff in H1 as [H1 H2].
    apply String.eqb_eq in H1. apply Z.eqb_eq in H2. apply IH in H3. now subst.
  - inversion H; subst. now rewrite String.eqb_refl, Z.eqb_refl, kvlist_eqb_refl.
Qed.

Lemma py_eq_refl v : py_eq v v = true.
Proof.
  destruct v; unfold py_eq; simpl; try reflexivity;
    try (apply Qeq_bool_iff; reflexivity).
  - apply String.eqb_refl.
  - apply zlist_eqb_refl.
  - apply kvlist_eqb_refl.
Qed.

Lemma py_eq_sym a b : py_eq a b = py_eq b a.
Proof.
  unfold py_eq. destruct (num_of a) as [x|] eqn:Ha, (num_of b) as [y|] eqn:Hb; try reflexivity.
  - destruct (Qeq_bool x y) eqn:E.
    + symmetry. apply Qeq_bool_iff. symmetry. now apply Qeq_bool_iff.
    + destruct (Qeq_bool y x) eqn:E2; [|reflexivity].
      apply Qeq_bool_iff in E2. symmetry in E2. apply Qeq_bool_iff in E2. congruence.
  - destruct a, b; simpl in *; try discriminate; try reflexivity.
    + apply String.eqb_sym.
    + destruct (zlist_eqb l l0) eqn:E.
      * apply zlist_eqb_eq in E. subst. now rewrite zlist_eqb_refl.
      * destruct (zlist_eqb l0 l) eqn:E2; [|reflexivity].
        apply zlist_eqb_eq in E2. subst. now rewrite zlist_eqb_refl in E.
    + destruct (kvlist_eqb l l0) eqn:E.
      * apply kvlist_eqb_eq in E. subst. now rewrite kvlist_eqb_refl.
      * destruct (kvlist_eqb l0 l) eqn:E2; [|reflexivity].
        apply kvlist_eqb_eq in E2. subst. now rewrite kvlist_eqb_refl in E.
Qed.

Lemma py_eq_trans a b c : py_eq a b = true -> py_eq b c = true -> py_eq a c = true.
Proof.
  unfold py_eq.
  destruct (num_of a) as [x|] eqn:Ha, (num_of b) as [y|] eqn:Hb, (num_of c) as [z|] eqn:Hc;
    intros H1 H2; try discriminate.
  - apply Qeq_bool_iff in H1, H2. apply Qeq_bool_iff. now rewrite H1.
  - destruct a, b; try discriminate; destruct c; try discriminate; try reflexivity.
    + apply String.eqb_eq in H1, H2. subst. apply String.eqb_refl.
    + apply zlist_eqb_eq in H1, H2. subst. apply zlist_eqb_refl.
    + apply kvlist_eqb_eq in H1, H2. subst. apply kvlist_eqb_refl.
Qed.

(* Results with a small error enumeration (what the harness maps exceptions to). *)
Inductive errkind :=
| EUnknownEvent | EParam | EHandler | ERecursion | EInstability
| ENotInitialized | EInvalidState | EValue | EType | EKey | EOutOfFuel | EOther.

Inductive res (A : Type) := Ok (a : A) | Err (k : errkind).
Arguments Ok {A} a.
Arguments Err {A} k.

Definition errkind_eqb (a b : errkind) : bool :=
  match a, b with
  | EUnknownEvent, EUnknownEvent | EParam, EParam | EHandler, EHandler
  | ERecursion, ERecursion | EInstability, EInstability
  | ENotInitialized, ENotInitialized | EInvalidState, EInvalidState
  | EValue, EValue | EType, EType | EKey, EKey | EOutOfFuel, EOutOfFuel
  | EOther, EOther => true
  | _, _ => false
  end.

(* Event data: association list, first binding wins. *)
Definition data := list (string * val).

Fixpoint dget (d : data) (k : string) : option val :=
  match d with
  | [] => None
  | (k', v) :: r => if String.eqb k k' then Some v else dget r k
  end.

Fixpoint ddel (d : data) (k : string) : data :=
  match d with
  | [] => []
  | (k', v) :: r => if String.eqb k k' then ddel r k else (k', v) :: ddel r k
  end.

(* Python dict assignment d[k] = v keeps the position of an existing key. *)
Fixpoint dset (d : data) (k : string) (v : val) : data :=
  match d with
  | [] => [(k, v)]
  | (k', v') :: r => if String.eqb k k' then (k', v) :: r else (k', v') :: dset r k v
  end.

Definition dmem (d : data) (k : string) : bool :=
  match dget d k with Some _ => true | None => false end.

(* Result strings printed by the generated Cases files: one character per case. *)
Fixpoint verdict_string (l : list ascii) : string :=
  match l with [] => EmptyString | c :: r => String c (verdict_string r) end.

(* Strict equality of values (same Python type and value): used to compare event data. *)
Definition val_eqb (a b : val) : bool :=
  match a, b with
  | VUndef, VUndef | VNone, VNone => true
  | VBool x, VBool y => Bool.eqb x y
  | VInt x, VInt y => Z.eqb x y
  | VFlt x, VFlt y => Qeq_bool x y
  | VStr x, VStr y => String.eqb x y
  | VTup x, VTup y => zlist_eqb x y
  | VMap x, VMap y => kvlist_eqb x y
  | _, _ => false
  end.

Definition oval_eqb (a b : option val) : bool :=
  match a, b with
  | Some x, Some y => val_eqb x y
  | None, None => true
  | _, _ => false
  end.

Definition keys (d : data) : list string := map fst d.

(* extensional equality of two dictionaries *)
Definition data_equiv (a b : data) : bool :=
  forallb (fun k => oval_eqb (dget a k) (dget b k)) (keys a ++ keys b).

Definition str_in (k : string) (l : list string) : bool := existsb (String.eqb k) l.

Lemma dget_dset_same d k v : dget (dset d k v) k = Some v.
Proof.
  induction d as [|[k' v'] r IH]; simpl.
  - now rewrite String.eqb_refl.
  - destruct (String.eqb k k') eqn:E; simpl; rewrite E; [reflexivity|exact IH].
Qed.

Lemma dget_dset_other d k v k2 : k2 <> k -> dget (dset d k v) k2 = dget d k2.
Proof.
  intros Hne. induction d as [|[k' v'] r IH]; simpl.
  - apply String.eqb_neq in Hne. now rewrite Hne.
  - destruct (String.eqb k k') eqn:E; simpl.
    + apply String.eqb_eq in E. subst k'. apply String.eqb_neq in Hne. now rewrite Hne.
    + destruct (String.eqb k2 k'); [reflexivity|exact IH].
Qed.

Lemma dget_ddel_same d k : dget (ddel d k) k = None.
Proof.
  induction d as [|[k' v'] r IH]; simpl; [reflexivity|].
  destruct (String.eqb k k') eqn:E; simpl; [exact IH|]. now rewrite E.
Qed.

Lemma dget_ddel_other d k k2 : k2 <> k -> dget (ddel d k) k2 = dget d k2.
Proof.
  intros Hne. induction d as [|[k' v'] r IH]; simpl; [reflexivity|].
  destruct (String.eqb k k') eqn:E; simpl.
  - apply String.eqb_eq in E. subst k'. apply String.eqb_neq in Hne. now rewrite Hne.
  - destruct (String.eqb k2 k'); [reflexivity|exact IH].
Qed.

Lemma val_eqb_refl v : val_eqb v v = true.
Proof.
  destruct v; simpl; try reflexivity.
  - now destruct b.
  - apply Z.eqb_refl.
  - apply Qeq_bool_iff. reflexivity.
  - apply String.eqb_refl.
  - apply zlist_eqb_refl.
  - apply kvlist_eqb_refl.
Qed.

Lemma val_eqb_sym a b : val_eqb a b = true -> val_eqb b a = true.
Proof.
  destruct a, b; simpl; try discriminate; try reflexivity; intros H.
  - destruct b, b0; auto.
  - apply Z.eqb_eq in H. subst. apply Z.eqb_refl.
  - apply Qeq_bool_iff in H. apply Qeq_bool_iff. now symmetry.
  - apply String.eqb_eq in H. subst. apply String.eqb_refl.
  - apply zlist_eqb_eq in H. subst. apply zlist_eqb_refl.
  - apply kvlist_eqb_eq in H. subst. apply kvlist_eqb_refl.
Qed.

Lemma val_eqb_trans a b c : val_eqb a b = true -> val_eqb b c = true -> val_eqb a c = true.
Proof.
  destruct a, b; simpl; try discriminate; destruct c; simpl; try discriminate; try reflexivity;
    intros H1 H2.
  - destruct b, b0, b1; auto.
  - apply Z.eqb_eq in H1, H2. subst. apply Z.eqb_refl.
  - apply Qeq_bool_iff in H1, H2. apply Qeq_bool_iff. now rewrite H1.
  - apply String.eqb_eq in H1, H2. subst. apply String.eqb_refl.
  - apply zlist_eqb_eq in H1, H2. subst. apply zlist_eqb_refl.
  - apply kvlist_eqb_eq in H1, H2. subst. apply kvlist_eqb_refl.
Qed.

Lemma oval_eqb_refl a : oval_eqb a a = true.
Proof. destruct a; simpl; [apply val_eqb_refl|reflexivity]. Qed.
Lemma oval_eqb_sym a b : oval_eqb a b = true -> oval_eqb b a = true.
Proof. destruct a, b; simpl; try discriminate; auto using val_eqb_sym. Qed.
Lemma oval_eqb_trans a b c : oval_eqb a b = true -> oval_eqb b c = true -> oval_eqb a c = true.
Proof. destruct a, b, c; simpl; try discriminate; eauto using val_eqb_trans. Qed.

Lemma dget_not_in_keys d k : ~ In k (keys d) -> dget d k = None.
Proof.
  induction d as [|[k' v] r IH]; simpl; [reflexivity|]. intros H.
  destruct (String.eqb k k') eqn:E.
  - apply String.eqb_eq in E. subst. exfalso. apply H. now left.
  - apply IH. intros C. apply H. now right.
Qed.

Lemma data_equiv_get a b k : data_equiv a b = true -> oval_eqb (dget a k) (dget b k) = true.
Proof.
  unfold data_equiv. intros H.
  destruct (in_dec string_dec k (keys a ++ keys b)) as [I|N].
  - rewrite forallb_forall in H. now apply H.
  - rewrite !dget_not_in_keys; [reflexivity| |]; intros C; apply N; apply in_or_app; auto.
Qed.

Lemma dget_in_keys d k v : dget d k = Some v -> In k (keys d).
Proof.
  induction d as [|[k' v'] r IH]; simpl; [discriminate|].
  destruct (String.eqb k k') eqn:E.
  - apply String.eqb_eq in E. subst. now left.
  - intros H. right. now apply IH.
Qed.
