(* The bundled predicate filters as regenerated from edzed/blocklib/filters.py (Gen/GenFilters.v)
   are the hand-written definitions of Model/Filters.v, about which the C16 theorems are stated. *)
From Verif Require Import Values Filters GenFilters.
Open Scope list_scope.

Theorem generated_not_from_undef : forall d, g_not_from_undef d = not_from_undef d.
Proof. reflexivity. Qed.

Theorem generated_edge : forall c previous value,
  g_edge_pass (e_rise c) (e_fall c) (g_edge_eff_urise (e_rise c) (e_fall c) (e_ufall c) (e_urise c)) (e_ufall c)
              previous value
  = edge_pass c previous value.
Proof. intros c p v. destruct p; reflexivity. Qed.

Theorem generated_delta : forall delta last v, g_delta_step delta last v = delta_step delta last v.
Proof. reflexivity. Qed.

Theorem generated_if_output : forall o d, g_if_output o d = if_output o d.
Proof. reflexivity. Qed.

Theorem generated_not_if_initialized : forall o d, g_not_if_initialized o d = if_not_initialized o d.
Proof. reflexivity. Qed.

Print Assumptions generated_not_from_undef.
Print Assumptions generated_edge.
Print Assumptions generated_delta.
Print Assumptions generated_if_output.
Print Assumptions generated_not_if_initialized.
