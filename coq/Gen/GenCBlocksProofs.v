(* The output functions of the bundled combinational blocks as regenerated from
   edzed/blocklib/cblocks.py (Gen/GenCBlocks.v) are the hand-written apply_fun of Model/Sim.v, about
   which the C01 theorems are stated. *)
From Verif Require Import Values Sim GenCBlocks.
From Coq Require Import ZArith Lia.
Open Scope list_scope.

(* the input plumbing of CBlock (InputGetter, check_signature: a one-element positional group for
   Not and Compare, two single inputs for Override, the whole positional group as one argument for
   And/Or/Xor because unpack is False) around the generated functions *)
Definition apply_fun_gen (f : cfun) (own : val) (ivs : list (string * ival)) : res val :=
  match f with
  | FNot => match ilookup "_" ivs with
            | Some (VG [x]) => Ok (g_Not_calc x) | _ => Err EOther end
  | FAnd => match ilookup "_" ivs with
            | Some (VG l) => if g_And_unpack then Err EOther else Ok (g_And_func l) | _ => Err EOther end
  | FOr => match ilookup "_" ivs with
           | Some (VG l) => if g_Or_unpack then Err EOther else Ok (g_Or_func l) | _ => Err EOther end
  | FXor => match ilookup "_" ivs with
            | Some (VG l) => if g_Xor_unpack then Err EOther else Ok (g_Xor_func l) | _ => Err EOther end
  | FCompare lo hi =>
      match ilookup "_" ivs with
      | Some (VG [x]) => match num_of x with
                         | Some q => Ok (g_Compare_calc lo hi own q)
                         | None => Err EType end
      | _ => Err EOther end
  | FOverride null =>
      match ilookup "input" ivs, ilookup "override" ivs with
      | Some (VS i), Some (VS o) => Ok (g_Override_calc null i o)
      | _, _ => Err EOther end
  | FFunc unpack => apply_fun (FFunc unpack) own ivs        (* user function: not generated *)
  end.

Lemma xor_parity l :
  negb ((Z.of_nat (List.length (filter truthy l)) mod 2 =? 0)%Z) = Z.odd (count_truthy l).
Proof.
  unfold count_truthy. rewrite Zmod_odd. destruct (Z.odd _); reflexivity.
Qed.

Theorem generated_cblocks_are_model : forall f own ivs, apply_fun_gen f own ivs = apply_fun f own ivs.
Proof.
  intros f own ivs. destruct f; cbn [apply_fun_gen apply_fun]; try reflexivity.
  - (* Xor *)
    destruct (ilookup "_" ivs) as [[v|l]|]; try reflexivity.
    unfold g_Xor_unpack, g_Xor_func. rewrite xor_parity. reflexivity.
Qed.

Theorem generated_compare_threshold : forall lo hi own, g_Compare_thr lo hi own = compare_thr lo hi own.
Proof. intros lo hi own. destruct own; reflexivity. Qed.

Theorem generated_signatures :
  g_Not_signature = [("_", Some 1%nat)] /\ g_Compare_signature = [("_", Some 1%nat)] /\
  g_Override_signature = [("input", None); ("override", None)] /\ g_Override_default_null = VNone.
Proof. repeat split. Qed.

Print Assumptions generated_cblocks_are_model.
Print Assumptions generated_compare_threshold.
Print Assumptions generated_signatures.
