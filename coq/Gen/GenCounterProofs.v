(* The Gallina rendering of class Counter that tools/gen_counter.py regenerates from the source on
   every run (Gen/GenCounter.v) is the same function as the hand-written model (Model/Counter.v),
   about which the C20 theorems are stated.  If the source changes, either the translator refuses
   it or this file no longer compiles. *)
From Verif Require Import Values Counter GenCounter.
Open Scope Q_scope.

(* the event dispatch of SBlock.event (keyword-only parameters and their defaults) around the
   generated handlers *)
Definition gstep (c : ccfg) (out : Q) (e : cev) : res Q * Q :=
  match e with
  | Inc a =>
      let '(r, o) := g_event_inc (cmod c) out (cinit c)
                       (match a with Some x => x | None => g_event_inc_default_amount end) in (Ok r, o)
  | Dec a =>
      let '(r, o) := g_event_dec (cmod c) out (cinit c)
                       (match a with Some x => x | None => g_event_dec_default_amount end) in (Ok r, o)
  | Put (Some v) => let '(r, o) := g_event_put (cmod c) out (cinit c) v in (Ok r, o)
  | Put None => if g_event_put_requires_value then (Err EParam, out)
                else let '(r, o) := g_event_put (cmod c) out (cinit c) 0 in (Ok r, o)
  | Reset => let '(r, o) := g_event_reset (cmod c) out (cinit c) in (Ok r, o)
  | Unknown => (Err EUnknownEvent, out)
  end.

Theorem generated_step_is_model : forall c out e, gstep c out e = cstep c out e.
Proof.
  intros c out e. destruct e as [a|a|v| |]; cbn.
  - destruct a; reflexivity.
  - destruct a; reflexivity.
  - destruct v; reflexivity.
  - reflexivity.
  - reflexivity.
Qed.

Theorem generated_start_is_model : forall c restored,
  snd (match restored with
       | Some r => g_restore_state (cmod c) r
       | None => g_init_from_value (cmod c) (cinit c)
       end) = cstart c restored.
Proof. intros c [r|]; reflexivity. Qed.

Theorem generated_create_is_model : forall m i,
  ccreate m i = match m with
                | Some mm => if g_create_refuses mm then Err EValue else Ok {| cmod := m; cinit := i |}
                | None => Ok {| cmod := m; cinit := i |}
                end.
Proof. intros [mm|] i; reflexivity. Qed.

Theorem generated_default_initdef : g_default_initdef = 0.
Proof. reflexivity. Qed.

Print Assumptions generated_step_is_model.
Print Assumptions generated_start_is_model.
Print Assumptions generated_create_is_model.
Print Assumptions generated_default_initdef.
