From Verif Require Import Values Dispatch.
Open Scope list_scope.
Open Scope nat_scope.

(* flags and handler counters before/after *)
Definition pres (s s' : st) : Prop :=
  (forall k, active s' k = active s k) /\ (forall k, running s' k = running s k).

Lemma pres_refl s : pres s s.
Proof. split; reflexivity. Qed.
Lemma pres_trans a b c : pres a b -> pres b c -> pres a c.
Proof. intros [A1 R1] [A2 R2]. split; intros k; [rewrite A2, A1|rewrite R2, R1]; reflexivity. Qed.

Section ScriptPres.
  Variable df : st -> nat -> etspec -> bool -> st * outcome.
  Hypothesis df_pres : forall s b et vt s' o, df s b et vt = (s', o) -> pres s s'.
  Lemma run_script_pres acts : forall s s' r, run_script df s acts = (s', r) -> pres s s'.
  Proof.
    induction acts as [|a acts IH]; intros s s' r; simpl.
    - intros H; inversion H; subst. apply pres_refl.
    - destruct a as [sd| |].
      + destruct (s_pass sd); [|apply IH].
        destruct (df s (s_dest sd) (s_et sd) (s_vt sd)) as [s1 o] eqn:E.
        pose proof (df_pres _ _ _ _ _ _ E) as P1.
        destruct o; intros H; try (apply IH in H; eapply pres_trans; eassumption).
        inversion H; subst. exact P1.
      + intros H; inversion H; subst. apply pres_refl.
      + intros H; inversion H; subst. apply pres_refl.
  Qed.
End ScriptPres.

Ltac close_pres b :=
  split; intros k;
  repeat match goal with
         | P : pres _ _ |- _ =>
             let A := fresh "A" in let R := fresh "R" in
             destruct P as [A R]; specialize (A k); specialize (R k)
         end;
  cbn [active running set_active set_ist set_aborted start_handler end_handler] in *;
  unfold fupd in *; destruct (Nat.eqb k b) eqn:Ek;
  try (apply Nat.eqb_eq in Ek; subst k); try congruence; try lia.

(* every event() call - handled, vetoed, resolved to "no event", unknown, wrong parameters,
   failed, refused as recursive, even out of fuel - leaves every guard flag as it found it *)
Theorem deliver_pres fuel : forall T s b et vt s' o,
  deliver fuel T s b et vt = (s', o) -> pres s s'.
Proof.
  induction fuel as [|f IH]; intros T s b et vt s' o; simpl.
  - intros H; inversion H; subst. apply pres_refl.
  - destruct (active s b) eqn:Ha.
    { intros H; inversion H; subst. apply pres_refl. }
    destruct (resolve et vt) as [name|].
    2:{ intros H; inversion H; subst. clear H IH. close_pres b. }
    cbn [ist set_active].
    destruct (ist s b) eqn:Ei.
    + (* early initialisation *)
      destruct (run_script (deliver f T) (set_ist (set_active (set_active s b true) b false) b IProg)
                           (b_init (get_blk T b))) as [s'' r] eqn:Er.
      pose proof (run_script_pres (deliver f T) (IH T) _ _ _ _ Er) as P1.
      destruct r as [e|].
      { intros H; inversion H; subst. clear H IH Er. close_pres b. }
      destruct (hlookup name (b_handlers (get_blk T b))) as [acts|].
      2:{ intros H; inversion H; subst. clear H IH Er. close_pres b. }
      assert (G : forall acts0,
        (let s3 := start_handler (set_active (set_ist s'' b IDone) b true) b name in
         let '(s4, r) := run_script (deliver f T) s3 acts0 in
         let s5 := end_handler s4 b in
         match r with
         | None => (set_active s5 b false, ORet)
         | Some EUnknownEvent => (set_active s5 b false, OErr EUnknownEvent)
         | Some e => (set_active (set_aborted s5) b false, OErr e)
         end) = (s', o) -> pres s s').
      { intros acts0. cbv zeta.
        destruct (run_script (deliver f T) _ acts0) as [s4 r] eqn:Eh.
        pose proof (run_script_pres (deliver f T) (IH T) _ _ _ _ Eh) as P2.
        destruct r as [[]|]; intros H; inversion H; subst; clear H IH Er Eh; close_pres b. }
      destruct acts as [|[sd| |] rest]; try (apply G).
      intros H; inversion H; subst. clear H IH Er G. close_pres b.
    + (* initialisation in progress: straight to the handler *)
      destruct (hlookup name (b_handlers (get_blk T b))) as [acts|].
      2:{ intros H; inversion H; subst. clear H IH. close_pres b. }
      assert (G : forall acts0,
        (let s3 := start_handler (set_active s b true) b name in
         let '(s4, r) := run_script (deliver f T) s3 acts0 in
         let s5 := end_handler s4 b in
         match r with
         | None => (set_active s5 b false, ORet)
         | Some EUnknownEvent => (set_active s5 b false, OErr EUnknownEvent)
         | Some e => (set_active (set_aborted s5) b false, OErr e)
         end) = (s', o) -> pres s s').
      { intros acts0. cbv zeta.
        destruct (run_script (deliver f T) _ acts0) as [s4 r] eqn:Eh.
        pose proof (run_script_pres (deliver f T) (IH T) _ _ _ _ Eh) as P2.
        destruct r as [[]|]; intros H; inversion H; subst; clear H IH Eh; close_pres b. }
      destruct acts as [|[sd| |] rest]; try (apply G).
      intros H; inversion H; subst. clear H IH G. close_pres b.
    + destruct (hlookup name (b_handlers (get_blk T b))) as [acts|].
      2:{ intros H; inversion H; subst. clear H IH. close_pres b. }
      assert (G : forall acts0,
        (let s3 := start_handler (set_active s b true) b name in
         let '(s4, r) := run_script (deliver f T) s3 acts0 in
         let s5 := end_handler s4 b in
         match r with
         | None => (set_active s5 b false, ORet)
         | Some EUnknownEvent => (set_active s5 b false, OErr EUnknownEvent)
         | Some e => (set_active (set_aborted s5) b false, OErr e)
         end) = (s', o) -> pres s s').
      { intros acts0. cbv zeta.
        destruct (run_script (deliver f T) _ acts0) as [s4 r] eqn:Eh.
        pose proof (run_script_pres (deliver f T) (IH T) _ _ _ _ Eh) as P2.
        destruct r as [[]|]; intros H; inversion H; subst; clear H IH Eh; close_pres b. }
      destruct acts as [|[sd| |] rest]; try (apply G).
      intros H; inversion H; subst. clear H IH G. close_pres b.
Qed.

(* ---------- no handler of a block ever starts while another handler of it is running ---------- *)
Definition Good (s : st) : Prop := forall k, running s k > 0 -> active s k = true.

Lemma Good_pres s s' : pres s s' -> Good s -> Good s'.
Proof. intros [A R] G k. rewrite R, A. apply G. Qed.

Section ScriptNoRe.
  Variable df : st -> nat -> etspec -> bool -> st * outcome.
  Hypothesis df_pres : forall s b et vt s' o, df s b et vt = (s', o) -> pres s s'.
  Hypothesis df_nore : forall s b et vt s' o, Good s -> reentered s = false ->
                                             df s b et vt = (s', o) -> reentered s' = false.
  Lemma run_script_nore acts : forall s s' r, Good s -> reentered s = false ->
    run_script df s acts = (s', r) -> reentered s' = false.
  Proof.
    induction acts as [|a acts IH]; intros s s' r G N; simpl.
    - intros H; inversion H; subst. exact N.
    - destruct a as [sd| |].
      + destruct (s_pass sd); [|now apply IH].
        destruct (df s (s_dest sd) (s_et sd) (s_vt sd)) as [s1 o] eqn:E.
        pose proof (df_pres _ _ _ _ _ _ E) as P1.
        pose proof (df_nore _ _ _ _ _ _ G N E) as N1.
        pose proof (Good_pres _ _ P1 G) as G1.
        destruct o; intros H; try (eapply IH; eassumption).
        inversion H; subst. exact N1.
      + intros H; inversion H; subst. exact N.
      + intros H; inversion H; subst. exact N.
  Qed.
End ScriptNoRe.

Lemma Good_window s b : Good s -> active s b = false ->
  Good (set_ist (set_active (set_active s b true) b false) b IProg).
Proof.
  intros G Ha k. cbn [running active set_ist set_active]. unfold fupd.
  destruct (Nat.eqb_spec k b) as [->|Hne]; [|apply G].
  intros Hr. specialize (G b Hr). congruence.
Qed.

Lemma Good_handler s b name : Good s -> active s b = true -> Good (start_handler s b name).
Proof.
  intros G Ha k. cbn [running active start_handler]. unfold fupd.
  destruct (Nat.eqb_spec k b) as [->|Hne]; [intros _; exact Ha|apply G].
Qed.

Theorem deliver_no_reentry fuel : forall T s b et vt s' o,
  Good s -> reentered s = false -> deliver fuel T s b et vt = (s', o) -> reentered s' = false.
Proof.
  induction fuel as [|f IH]; intros T s b et vt s' o G N; simpl.
  - intros H; inversion H; subst. exact N.
  - destruct (active s b) eqn:Ha.
    { intros H; inversion H; subst. exact N. }
    assert (R0 : running s b = 0).
    { destruct (running s b) eqn:E; [reflexivity|]. assert (running s b > 0) by lia.
      specialize (G b H). congruence. }
    destruct (resolve et vt) as [name|].
    2:{ intros H; inversion H; subst. exact N. }
    cbn [ist set_active].
    assert (HANDLER : forall s2 acts0,
      Good s2 -> active s2 b = true -> running s2 b = 0 -> reentered s2 = false ->
      (let s3 := start_handler s2 b name in
       let '(s4, r) := run_script (deliver f T) s3 acts0 in
       let s5 := end_handler s4 b in
       match r with
       | None => (set_active s5 b false, ORet)
       | Some EUnknownEvent => (set_active s5 b false, OErr EUnknownEvent)
       | Some e => (set_active (set_aborted s5) b false, OErr e)
       end) = (s', o) -> reentered s' = false).
    { intros s2 acts0 G2 A2 R2 N2. cbv zeta.
      destruct (run_script (deliver f T) (start_handler s2 b name) acts0) as [s4 r] eqn:Eh.
      assert (N3 : reentered (start_handler s2 b name) = false).
      { cbn [reentered start_handler]. rewrite N2, R2. reflexivity. }
      pose proof (run_script_nore (deliver f T) (deliver_pres f T) (IH T) _ _ _ _
                    (Good_handler _ _ name G2 A2) N3 Eh) as N4.
      destruct r as [[]|]; intros H; inversion H; subst; exact N4. }
    destruct (ist s b) eqn:Ei.
    + destruct (run_script (deliver f T) (set_ist (set_active (set_active s b true) b false) b IProg)
                           (b_init (get_blk T b))) as [s'' r] eqn:Er.
      pose proof (run_script_pres (deliver f T) (deliver_pres f T) _ _ _ _ Er) as P1.
      pose proof (run_script_nore (deliver f T) (deliver_pres f T) (IH T) _ _ _ _
                    (Good_window _ _ G Ha) N Er) as N1.
      destruct r as [e|].
      { intros H; inversion H; subst. exact N1. }
      destruct (hlookup name (b_handlers (get_blk T b))) as [acts|].
      2:{ intros H; inversion H; subst. exact N1. }
      assert (G2 : Good (set_active (set_ist s'' b IDone) b true)).
      { pose proof (Good_pres _ _ P1 (Good_window _ _ G Ha)) as G''.
        intros k. cbn [running active set_active set_ist]. unfold fupd.
        destruct (Nat.eqb_spec k b); [reflexivity|apply G'']. }
      assert (R2 : running (set_active (set_ist s'' b IDone) b true) b = 0).
      { cbn [running set_active set_ist]. destruct P1 as [_ R]. rewrite R.
        cbn [running set_active set_ist]. exact R0. }
      assert (A2 : active (set_active (set_ist s'' b IDone) b true) b = true).
      { cbn [active set_active]. unfold fupd. now rewrite Nat.eqb_refl. }
      destruct acts as [|[sd| |] rest];
        try (apply (HANDLER _ _ G2 A2 R2 N1)).
      intros H; inversion H; subst. exact N1.
    + destruct (hlookup name (b_handlers (get_blk T b))) as [acts|].
      2:{ intros H; inversion H; subst. exact N. }
      assert (G2 : Good (set_active s b true)).
      { intros k. cbn [running active set_active]. unfold fupd.
        destruct (Nat.eqb_spec k b); [reflexivity|apply G]. }
      assert (A2 : active (set_active s b true) b = true).
      { cbn [active set_active]. unfold fupd. now rewrite Nat.eqb_refl. }
      destruct acts as [|[sd| |] rest]; try (apply (HANDLER _ _ G2 A2 R0 N)).
      intros H; inversion H; subst. exact N.
    + destruct (hlookup name (b_handlers (get_blk T b))) as [acts|].
      2:{ intros H; inversion H; subst. exact N. }
      assert (G2 : Good (set_active s b true)).
      { intros k. cbn [running active set_active]. unfold fupd.
        destruct (Nat.eqb_spec k b); [reflexivity|apply G]. }
      assert (A2 : active (set_active s b true) b = true).
      { cbn [active set_active]. unfold fupd. now rewrite Nat.eqb_refl. }
      destruct acts as [|[sd| |] rest]; try (apply (HANDLER _ _ G2 A2 R0 N)).
      intros H; inversion H; subst. exact N.
Qed.

(* a call that reaches a block which is handling an event is refused ... *)
Theorem loop_detected fuel T s b et vt :
  active s b = true -> deliver (S fuel) T s b et vt = (s, OErr ERecursion).
Proof. intros H. simpl. now rewrite H. Qed.

(* ... and the refusal stops the simulation as soon as it passes through a handler:
   any error other than "unknown event" coming out of a routine makes the block abort *)
Theorem handler_error_aborts fuel T s b name acts s4 e vt :
  active s b = false -> ist s b = IDone ->
  hlookup name (b_handlers (get_blk T b)) = Some acts ->
  (forall r, acts <> AParamErr :: r) ->
  run_script (deliver fuel T) (start_handler (set_active s b true) b name) acts = (s4, Some e) ->
  e <> EUnknownEvent ->
  exists s', deliver (S fuel) T s b (ETPlain name) vt = (s', OErr e) /\ aborted s' = true.
Proof.
  intros Ha Hi Hh Hp Hr He. simpl. rewrite Ha. cbn [ist set_active]. rewrite Hi, Hh.
  destruct acts as [|[sd| |] rest]; try (exfalso; eapply Hp; reflexivity);
    cbv zeta; rewrite Hr; destruct e; try congruence; eexists; split; reflexivity.
Qed.

(* harmless outcomes: they never abort at the level of the block concerned *)
Theorem cond_none_harmless fuel T s b et vt :
  active s b = false -> resolve et vt = None ->
  exists s', deliver (S fuel) T s b et vt = (s', ONone) /\ aborted s' = aborted s /\ pres s s'.
Proof.
  intros Ha Hr. simpl. rewrite Ha, Hr. eexists. split; [reflexivity|]. split; [reflexivity|].
  close_pres b.
Qed.

Theorem unknown_event_harmless fuel T s b name vt :
  active s b = false -> ist s b = IDone -> hlookup name (b_handlers (get_blk T b)) = None ->
  exists s', deliver (S fuel) T s b (ETPlain name) vt = (s', OErr EUnknownEvent) /\
             aborted s' = aborted s /\ pres s s'.
Proof.
  intros Ha Hi Hh. simpl. rewrite Ha. cbn [ist set_active]. rewrite Hi, Hh.
  eexists. split; [reflexivity|]. split; [reflexivity|]. close_pres b.
Qed.

Theorem param_error_harmless fuel T s b name rest vt :
  active s b = false -> ist s b = IDone ->
  hlookup name (b_handlers (get_blk T b)) = Some (AParamErr :: rest) ->
  exists s', deliver (S fuel) T s b (ETPlain name) vt = (s', OErr EParam) /\
             aborted s' = aborted s /\ pres s s'.
Proof.
  intros Ha Hi Hh. simpl. rewrite Ha. cbn [ist set_active]. rewrite Hi, Hh.
  eexists. split; [reflexivity|]. split; [reflexivity|]. close_pres b.
Qed.

(* a send vetoed by a filter delivers nothing and changes nothing *)
Theorem filter_veto_harmless df s sd r :
  s_pass sd = false -> run_script df s (ASend sd :: r) = run_script df s r.
Proof. intros H. simpl. now rewrite H. Qed.

(* after ANY top-level event every block accepts events again *)
Theorem guard_released fuel T s b et vt s' o n :
  all_released n s = true -> deliver fuel T s b et vt = (s', o) -> all_released n s' = true.
Proof.
  intros H E. destruct (deliver_pres _ _ _ _ _ _ _ _ E) as [A _].
  unfold all_released in *. rewrite forallb_forall in *. intros k Hk. rewrite A. now apply H.
Qed.

(* ---------- start-up phase and the link theorem ---------- *)
Lemma init_phase_inv fuel T order : forall s s' e,
  Good s -> reentered s = false -> init_phase fuel T s order = (s', e) ->
  pres s s' /\ reentered s' = false.
Proof.
  induction order as [|b r IH]; intros s s' e G N; simpl.
  - intros H; inversion H; subst. split; [apply pres_refl|exact N].
  - destruct (ist s b) eqn:Ei; try (apply IH; assumption).
    destruct (run_script (deliver fuel T) (set_ist s b IProg) (b_init (get_blk T b))) as [s'' k] eqn:Er.
    assert (G1 : Good (set_ist s b IProg)) by exact G.
    pose proof (run_script_pres (deliver fuel T) (deliver_pres fuel T) _ _ _ _ Er) as P1.
    pose proof (run_script_nore (deliver fuel T) (deliver_pres fuel T)
                  (deliver_no_reentry fuel T) _ _ _ _ G1 N Er) as N1.
    destruct k as [k|].
    + intros H; inversion H; subst. split; [exact P1|exact N1].
    + intros H. assert (G2 : Good (set_ist s'' b IDone)) by (exact (Good_pres _ _ P1 G1)).
      destruct (IH _ _ _ G2 N1 H) as [P2 N2]. split; [|exact N2].
      eapply pres_trans; [exact P1|exact P2].
Qed.

Lemma Good_st0 : Good st0.
Proof. intros k H. simpl in H. lia. Qed.

Lemma all_released_pres n s s' : pres s s' -> all_released n s = true -> all_released n s' = true.
Proof.
  intros [A _] H. unfold all_released in *. rewrite forallb_forall in *.
  intros k Hk. rewrite A. now apply H.
Qed.

Lemma run_tops_monitor fuel T ts : forall s obs,
  Good s -> reentered s = false -> all_released (List.length T) s = true ->
  run_tops fuel T s ts obs = true -> forallb tobs_monitor obs = true.
Proof.
  induction ts as [|t r IH]; intros s obs G N AR; destruct obs as [|o obs']; simpl;
    try discriminate; [reflexivity|].
  destruct (deliver fuel T (clear_log s) (t_blk t) (t_et t) (t_vt t)) as [s1 out] eqn:E.
  assert (Gc : Good (clear_log s)) by exact G.
  pose proof (deliver_pres _ _ _ _ _ _ _ _ E) as P1.
  pose proof (deliver_no_reentry _ _ _ _ _ _ _ _ Gc N E) as N1.
  pose proof (Good_pres _ _ P1 Gc) as G1.
  assert (AR1 : all_released (List.length T) s1 = true).
  { eapply all_released_pres; [exact P1|exact AR]. }
  intros H. repeat (apply andb_true_iff in H; destruct H as [H ?]).
  apply andb_true_iff. split.
  - unfold tobs_monitor.
    match goal with Hx : Bool.eqb (all_released _ s1) (o_released o) = true |- _ =>
      apply Bool.eqb_prop in Hx; rewrite <- Hx, AR1 end.
    match goal with Hx : Bool.eqb (negb (reentered s1)) (o_maxdepth_ok o) = true |- _ =>
      apply Bool.eqb_prop in Hx; rewrite <- Hx, N1 end.
    simpl. destruct (o_outcome o) as [| |[]]; reflexivity.
  - eapply IH; eassumption.
Qed.

Theorem dispatch_agree_implies_monitor k : dcase_agree k = true -> dcase_monitor k = true.
Proof.
  unfold dcase_agree, dcase_monitor.
  destruct (init_phase (fuel_for (d_topo k)) (d_topo k) st0 (seq 0 (List.length (d_topo k))))
    as [s1 e] eqn:Ei.
  destruct (init_phase_inv _ _ _ _ _ _ Good_st0 eq_refl Ei) as [P1 N1].
  intros H. repeat (apply andb_true_iff in H; destruct H as [H ?]).
  match goal with Hx : Bool.eqb (negb (reentered s1)) (d_init_depth_ok k) = true |- _ =>
    apply Bool.eqb_prop in Hx; rewrite <- Hx, N1 end.
  simpl. destruct e as [e|].
  - (* the start failed: no top-level events were run *)
    destruct (d_obs k); [reflexivity|discriminate].
  - eapply run_tops_monitor; [exact (Good_pres _ _ P1 Good_st0)|exact N1| |eassumption].
    eapply all_released_pres; [exact P1|].
    unfold all_released. apply forallb_forall. intros; reflexivity.
Qed.
