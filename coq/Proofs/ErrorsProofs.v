From Verif Require Import Values Errors.
Open Scope list_scope.
Open Scope Z_scope.

(* once set, the error never changes - whatever is delivered later *)
Theorem error_write_once e ss : deliver_all (Some e) ss = Some e.
Proof.
  induction ss as [|s r IH]; simpl; [reflexivity|].
  destruct (delivered s); simpl; exact IH.
Qed.

(* ... and it is the FIRST delivery *)
Theorem error_is_first ss1 s d ss2 :
  Forall (fun x => delivered x = None) ss1 -> delivered s = Some d ->
  deliver_all None (ss1 ++ s :: ss2) = Some d.
Proof.
  intros H Hd. unfold deliver_all. rewrite fold_left_app.
  assert (E : fold_left (fun e x => match delivered x with Some d0 => record e d0 | None => e end)
                        ss1 None = None).
  { induction H as [|x l Hx _ IH]; simpl; [reflexivity|]. now rewrite Hx. }
  rewrite E. simpl. rewrite Hd. simpl. apply error_write_once.
Qed.

Theorem nothing_delivered ss :
  Forall (fun x => delivered x = None) ss -> deliver_all None ss = None.
Proof. induction 1 as [|x l Hx _ IH]; simpl; [reflexivity|]. now rewrite Hx. Qed.

(* which sources terminate the simulation *)
Theorem fatal_sources s :
  (exists d, delivered s = Some d) <->
  match s with
  | SHandlerError _ | SCalcError _ | SSyncInitError _ | SMonitoredTask _ | SAbortCall _
  | SCtrlAbort _ | SCtrlShutdown | SShutdown => True
  | _ => False
  end.
Proof. destruct s; simpl; split; intros H; try exact I; try (destruct H; discriminate); eauto; destruct H. Qed.

Theorem cancel_is_normal sups :
  shutdown_result (Some DCancel) = ReturnsNone /\
  (first_failed sups = None -> run_result (Some DCancel) sups = ReturnsNone).
Proof. split; [reflexivity|]. intros H. simpl. now rewrite H. Qed.

Theorem raised_is_first t sups :
  run_result (Some (DExc t)) sups = Raises t /\ shutdown_result (Some (DExc t)) = Raises t.
Proof. split; reflexivity. Qed.

Theorem supporting_task_error_reported e sups t :
  (e = None \/ e = Some DCancel) -> first_failed sups = Some t -> run_result e sups = Raises t.
Proof. intros [-> | ->] H; simpl; now rewrite H. Qed.

Theorem first_failed_is_lowest_index pre t post :
  Forall (fun x => match x with SupFailed _ => False | _ => True end) pre ->
  first_failed (pre ++ SupFailed t :: post) = Some t.
Proof.
  induction 1 as [|x l Hx _ IH]; simpl; [reflexivity|]. destruct x; try exact IH. destruct Hx.
Qed.

Theorem errors_agree_implies_run_rule k :
  ecase_agree k = true ->
  outcome_eqb (run_result (deliver_all None (ec_sources k)) (ec_sups k)) (ec_run k) = true /\
  ec_ready_after k = false.
Proof.
  unfold ecase_agree. intros H. repeat (apply andb_true_iff in H; destruct H as [H ?]).
  split; [assumption|]. now apply negb_true_iff.
Qed.
