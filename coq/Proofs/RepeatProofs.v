From Verif Require Import Values Repeat.
Open Scope list_scope.
Open Scope Z_scope.

(* the model state described by the observation-level bookkeeping of the monitor *)
Definition Rel (c : rcfg) (s : rstate) (last : option (Z * Z)) (n : nat) (stopped : bool) : Prop :=
  r_stopped s = stopped /\ r_n s = n /\
  match last with
  | Some (lt, t0) =>
      r_last s = Some lt /\
      r_deadline s = if stopped then None
                     else if more c n then Some (t0 + (Z.of_nat n + 1) * rc_interval c) else None
  | None => r_last s = None /\ r_deadline s = None
  end.

Lemma due_ok_of_rel c s last n stopped t :
  Rel c s last n stopped -> not_overdue s t = true -> due_ok c last n stopped t = true.
Proof.
  intros (Hs & Hn & H) Ho. unfold due_ok, not_overdue in *.
  destruct last as [[lt t0]|]; [|reflexivity]. destruct H as [_ Hd]. rewrite Hd in Ho.
  destruct stopped; [reflexivity|]. destruct (more c n); simpl; [exact Ho|reflexivity].
Qed.

(* every trace the model accepts satisfies the monitor (which only looks at the observed steps):
   copies carry the latest matching event, are numbered 1,2,3,..., come exactly interval apart
   starting at the event, never exceed count, none is missing, nothing happens after the stop *)
Lemma rrun_rmon c xs : forall s last n stopped s' tend,
  Rel c s last n stopped -> rrun c s xs = Some s' ->
  r_now s' <= tend -> not_overdue s' tend = true ->
  rmon c xs last n stopped tend = true.
Proof.
  induction xs as [|x r IH]; intros s last n stopped s' tend HR; simpl.
  - intros H Hn Ho; inversion H; subst. eapply due_ok_of_rel; eassumption.
  - destruct (rstep_do c s x) as [s1|] eqn:E; [|discriminate]. intros Hrun Hn Ho.
    destruct HR as (Hs & Hnn & HL).
    destruct x as [t tag matching fwd|t tag k|t]; unfold rstep_do in E.
    + destruct ((r_now s <=? t) && not_overdue s t && negb (r_stopped s)) eqn:G; [|discriminate].
      apply andb_true_iff in G as [G G3]. apply andb_true_iff in G as [G1 G2].
      rewrite Hs in G3. destruct stopped; [discriminate G3|].
      assert (D : due_ok c last n false t = true)
        by (eapply due_ok_of_rel; [repeat split; eassumption|exact G2]).
      rewrite D. simpl. destruct matching.
      * destruct fwd; [|discriminate]. inversion E; subst s1. simpl.
        eapply IH; [|exact Hrun|exact Hn|exact Ho].
        repeat split; cbn [r_stopped r_n r_last r_deadline]; try reflexivity.
        destruct (more c 0); [f_equal; lia|reflexivity].
      * destruct fwd; [discriminate|]. inversion E; subst s1. simpl.
        eapply IH; [|exact Hrun|exact Hn|exact Ho].
        repeat split; simpl; try assumption.
    + destruct ((r_now s <=? t) && negb (r_stopped s)) eqn:G; [|discriminate].
      apply andb_true_iff in G as [G1 G3]. rewrite Hs in G3. destruct stopped; [discriminate G3|].
      simpl.
      destruct (r_deadline s) as [dl|] eqn:Ed; [|discriminate].
      destruct (r_last s) as [lt|] eqn:El; [|discriminate].
      destruct ((dl =? t) && (lt =? tag) && Nat.eqb k (S (r_n s))) eqn:G4; [|discriminate].
      apply andb_true_iff in G4 as [G4 G6]. apply andb_true_iff in G4 as [G4 G5].
      apply Z.eqb_eq in G4, G5. apply Nat.eqb_eq in G6. subst dl lt.
      destruct last as [[lt t0]|]; [|destruct HL; congruence].
      destruct HL as [HL1 HL2]. inversion HL1; subst lt.
      destruct (more c n) eqn:Em; [|discriminate]. inversion HL2 as [Ht].
      rewrite Z.eqb_refl. rewrite Hnn in G6. subst k. rewrite Nat.eqb_refl. cbn [andb].
      assert (T : (t =? t0 + Z.of_nat (S n) * rc_interval c) = true).
      { apply Z.eqb_eq. rewrite Nat2Z.inj_succ. unfold Z.succ. first [lia | nia]. }
      rewrite <- Ht. rewrite T. cbn [andb].
      assert (C : match rc_count c with None => true | Some m => Nat.leb (S n) m end = true).
      { unfold more in Em. destruct (rc_count c) as [m|]; [|reflexivity].
        apply Nat.ltb_lt in Em. apply Nat.leb_le. lia. }
      rewrite C. cbn [andb]. inversion E; subst s1.
      eapply IH; [|exact Hrun|exact Hn|exact Ho].
      repeat split; cbn [r_stopped r_n r_last r_deadline]; try reflexivity.
      destruct (more c (S n)); [f_equal; rewrite Nat2Z.inj_succ; lia|reflexivity].
    + destruct ((r_now s <=? t) && not_overdue s t) eqn:G; [|discriminate].
      apply andb_true_iff in G as [G1 G2].
      assert (D : due_ok c last n stopped t = true)
        by (eapply due_ok_of_rel; [repeat split; eassumption|exact G2]).
      rewrite D. simpl. inversion E; subst s1.
      eapply IH; [|exact Hrun|exact Hn|exact Ho].
      repeat split; simpl; try assumption.
      destruct last as [[lt t0]|]; destruct HL as [A B]; split; auto.
Qed.

Theorem repeat_agree_implies_monitor k : rcase_agree k = true -> rcase_monitor k = true.
Proof.
  unfold rcase_agree, rcase_monitor.
  destruct (rrun (rk_cfg k) rstate0 (rk_steps k)) as [s|] eqn:R; [|discriminate].
  intros H. repeat (apply andb_true_iff in H; destruct H as [H ?]).
  apply andb_true_iff. split; [|assumption].
  eapply rrun_rmon; [|exact R|now apply Z.leb_le|assumption].
  repeat split; reflexivity.
Qed.

Theorem nothing_after_stop c s x : r_stopped s = true ->
  match x with RStop _ => True | _ => rstep_do c s x = None end.
Proof.
  intros H. destruct x; simpl; try exact I; rewrite H; now rewrite ?andb_false_r.
Qed.

Theorem other_types_ignored c s t tag s' :
  rstep_do c s (RRecv t tag false false) = Some s' ->
  r_last s' = r_last s /\ r_n s' = r_n s /\ r_deadline s' = r_deadline s.
Proof.
  simpl. destruct ((r_now s <=? t) && not_overdue s t && negb (r_stopped s)); [|discriminate].
  intros H; inversion H; subst. simpl. auto.
Qed.

Theorem other_types_not_forwarded c s t tag : rstep_do c s (RRecv t tag false true) = None.
Proof. simpl. now destruct ((r_now s <=? t) && not_overdue s t && negb (r_stopped s)). Qed.

Theorem count_zero_no_copy c s t tag s' t2 tag2 n :
  rc_count c = Some 0%nat -> rstep_do c s (RRecv t tag true true) = Some s' ->
  rstep_do c s' (RResend t2 tag2 n) = None.
Proof.
  intros Hc. simpl.
  destruct ((r_now s <=? t) && not_overdue s t && negb (r_stopped s)); [|discriminate].
  intros H; inversion H; subst. simpl. unfold more. rewrite Hc. simpl.
  now destruct (t <=? t2).
Qed.

Theorem newer_event_restarts c s t tag s' :
  rstep_do c s (RRecv t tag true true) = Some s' ->
  r_last s' = Some tag /\ r_n s' = 0%nat /\
  r_deadline s' = (if more c 0 then Some (t + rc_interval c) else None).
Proof.
  simpl. destruct ((r_now s <=? t) && not_overdue s t && negb (r_stopped s)); [|discriminate].
  intros H; inversion H; subst. simpl. auto.
Qed.
