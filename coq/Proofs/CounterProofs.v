From Verif Require Import Values Counter.
From Coq Require Import Qround Qfield Morphisms Setoid Permutation.
Open Scope Q_scope.

Lemma Qfloor_unique x n : inject_Z n <= x -> x < inject_Z (n + 1) -> Qfloor x = n.
Proof.
  intros H1 H2.
  pose proof (Qfloor_le x) as F1. pose proof (Qlt_floor x) as F2.
  assert (A : (n < Qfloor x + 1)%Z).
  { rewrite Zlt_Qlt. eapply Qle_lt_trans; eassumption. }
  assert (B : (Qfloor x < n + 1)%Z).
  { rewrite Zlt_Qlt. eapply Qle_lt_trans; eassumption. }
  lia.
Qed.

Lemma Qfloor_sub_Z x k : Qfloor (x - inject_Z k) = (Qfloor x - k)%Z.
Proof.
  apply Qfloor_unique.
  - unfold Z.sub. rewrite inject_Z_plus, inject_Z_opp.
    pose proof (Qfloor_le x). unfold Qminus. apply Qplus_le_compat; [assumption|apply Qle_refl].
  - replace (Qfloor x - k + 1)%Z with ((Qfloor x + 1) + - k)%Z by lia.
    rewrite inject_Z_plus, inject_Z_opp.
    pose proof (Qlt_floor x). unfold Qminus.
    apply Qplus_lt_le_compat; [assumption|apply Qle_refl].
Qed.

Global Instance pymod_comp : Proper (Qeq ==> Qeq ==> Qeq) pymod.
Proof.
  intros a a' Ha m m' Hm. unfold pymod.
  assert (E : Qfloor (a / m) = Qfloor (a' / m')) by (apply Qfloor_comp; now rewrite Ha, Hm).
  rewrite E, Ha, Hm. reflexivity.
Qed.

Lemma pymod_shift a m k : ~ m == 0 -> pymod (a - m * inject_Z k) m == pymod a m.
Proof.
  intros Hm. unfold pymod.
  assert (E : (a - m * inject_Z k) / m == a / m - inject_Z k) by (field; exact Hm).
  rewrite (Qfloor_comp _ _ E), Qfloor_sub_Z.
  unfold Z.sub. rewrite inject_Z_plus, inject_Z_opp. ring.
Qed.

Lemma pymod_add_l a b m : ~ m == 0 -> pymod (pymod a m + b) m == pymod (a + b) m.
Proof.
  intros Hm. unfold pymod at 2.
  setoid_replace (a - m * inject_Z (Qfloor (a / m)) + b)
    with ((a + b) - m * inject_Z (Qfloor (a / m))) by ring.
  now apply pymod_shift.
Qed.

Lemma pymod_sub_l a b m : ~ m == 0 -> pymod (pymod a m - b) m == pymod (a - b) m.
Proof. intros Hm. unfold Qminus. now apply pymod_add_l. Qed.

Lemma pymod_range a m : 0 < m -> 0 <= pymod a m /\ pymod a m < m.
Proof.
  intros Hm. unfold pymod.
  pose proof (Qfloor_le (a / m)) as F1. pose proof (Qlt_floor (a / m)) as F2.
  assert (Hne : ~ m == 0) by (intros E; rewrite E in Hm; discriminate).
  assert (A : m * inject_Z (Qfloor (a / m)) <= a).
  { setoid_replace a with (m * (a / m)) at 2 by (field; exact Hne).
    apply Qmult_le_l; assumption. }
  assert (B : a < m * inject_Z (Qfloor (a / m) + 1)).
  { setoid_replace a with (m * (a / m)) at 1 by (field; exact Hne).
    apply Qmult_lt_l; assumption. }
  rewrite inject_Z_plus in B.
  split.
  - apply (Qplus_le_l _ _ (m * inject_Z (Qfloor (a / m)))). ring_simplify. exact A.
  - apply (Qplus_lt_l _ _ (m * inject_Z (Qfloor (a / m)))). ring_simplify.
    ring_simplify in B. exact B.
Qed.

Lemma pymod_idem a m : ~ m == 0 -> pymod (pymod a m) m == pymod a m.
Proof.
  intros Hm. setoid_replace (pymod a m) with (pymod a m + 0) at 1 by ring.
  rewrite pymod_add_l by exact Hm. now setoid_replace (a + 0) with a by ring.
Qed.

Global Instance setmod_comp m : Proper (Qeq ==> Qeq) (setmod m).
Proof. intros a b H. destruct m; simpl; [now rewrite H|exact H]. Qed.

Definition mod_ok (m : option Q) : Prop := match m with Some mm => ~ mm == 0 | None => True end.

(* one step: the model output is the reduced reference accumulator *)
Lemma cstep_acc c out acc e :
  mod_ok (cmod c) -> out == setmod (cmod c) acc ->
  snd (cstep c out e) == setmod (cmod c) (acc_step (cinit c) acc e).
Proof.
  intros Hm H. destruct e as [a|a|[v|]| |]; simpl; try exact H; try reflexivity.
  - destruct (cmod c) as [mm|]; simpl in *.
    + rewrite H. now apply pymod_add_l.
    + now rewrite H.
  - destruct (cmod c) as [mm|]; simpl in *.
    + rewrite H. now apply pymod_sub_l.
    + now rewrite H.
Qed.

Lemma cstep_out_comp c o o' e : o == o' -> snd (cstep c o e) == snd (cstep c o' e).
Proof.
  intros H. destruct e as [a|a|[v|]| |]; simpl; try exact H; try reflexivity;
    apply setmod_comp; now rewrite H.
Qed.

(* C20 main: after ANY event list, the output is the plain accumulator reduced once *)
Theorem counter_reduction_commutes c evs out acc :
  mod_ok (cmod c) -> out == setmod (cmod c) acc ->
  cfinal c out evs == setmod (cmod c) (fold_left (acc_step (cinit c)) evs acc).
Proof.
  intros Hm. revert out acc. induction evs as [|e r IH]; intros out acc H; simpl.
  - exact H.
  - apply IH. now apply cstep_acc.
Qed.

Lemma setmod_range mm v : 0 < mm -> 0 <= setmod (Some mm) v /\ setmod (Some mm) v < mm.
Proof. intros; simpl; now apply pymod_range. Qed.

(* every output produced by a handled event lies in [0, M) *)
Theorem counter_in_range c mm evs out :
  cmod c = Some mm -> 0 < mm -> (0 <= out /\ out < mm) ->
  Forall (fun xo => 0 <= snd xo /\ snd xo < mm) (crun c out evs).
Proof.
  intros Hc Hm. revert out. induction evs as [|e r IH]; intros out Ho; simpl; [constructor|].
  destruct (cstep c out e) as [x o] eqn:E.
  assert (Hr : 0 <= o /\ o < mm).
  { destruct e as [a|a|[v|]| |]; simpl in E; inversion E; subst; clear E;
      rewrite ?Hc; try (apply setmod_range; assumption); assumption. }
  constructor; [exact Hr|]. now apply IH.
Qed.

Theorem counter_event_returns_output c out e q o :
  cstep c out e = (Ok q, o) -> q = o.
Proof. destruct e as [a|a|[v|]| |]; simpl; intros H; inversion H; reflexivity. Qed.

Theorem counter_faulty_event_no_change c out e k o :
  cstep c out e = (Err k, o) -> o = out /\ (e = Put None /\ k = EParam \/ e = Unknown /\ k = EUnknownEvent).
Proof. destruct e as [a|a|[v|]| |]; simpl; intros H; inversion H; auto. Qed.

Theorem counter_modulo_zero_refused m i : m == 0 -> ccreate (Some m) i = Err EValue.
Proof. intros H. unfold ccreate. apply Qeq_bool_iff in H. now rewrite H. Qed.

Theorem counter_start_reduced c r mm :
  cmod c = Some mm -> 0 < mm -> 0 <= cstart c r /\ cstart c r < mm.
Proof. intros Hc Hm. unfold cstart. rewrite Hc. destruct r; now apply setmod_range. Qed.

(* ---- agreement with the model implies the monitor (observed values only) ---- *)
Lemma in_range_true m o :
  (forall mm, m = Some mm -> 0 < mm -> 0 <= o /\ o < mm) -> in_range m o = true.
Proof.
  destruct m as [mm|]; simpl; [|reflexivity]. intros H.
  destruct (Qle_bool mm 0) eqn:E; [reflexivity|].
  assert (Hm : 0 < mm).
  { apply Qnot_le_lt. intros C. apply Qle_bool_iff in C. congruence. }
  destruct (H mm eq_refl Hm) as [H1 H2].
  apply andb_true_iff. split.
  - now apply Qle_bool_iff.
  - apply negb_true_iff. destruct (Qle_bool mm o) eqn:E2; [|reflexivity].
    apply Qle_bool_iff in E2. exfalso. eapply Qlt_not_le; eassumption.
Qed.

Lemma setmod_in_range m v o : mod_ok m -> o == setmod m v -> in_range m o = true.
Proof.
  intros Hm Ho. apply in_range_true. intros mm -> Hpos. rewrite Ho. now apply setmod_range.
Qed.

Lemma cagree_monitor c evs : forall obs out acc prev,
  mod_ok (cmod c) -> out == setmod (cmod c) acc -> out == prev ->
  cagree c out evs obs = true -> cmonitor c acc prev evs obs = true.
Proof.
  induction evs as [|e r IH]; intros obs out acc prev Hm Hacc Hprev; destruct obs as [|[x o] r'];
    simpl; try discriminate; [reflexivity|].
  destruct (cstep c out e) as [mx mo] eqn:E.
  intros H. apply andb_true_iff in H as [H H3]. apply andb_true_iff in H as [H1 H2].
  apply Qeq_bool_iff in H2.
  assert (Hmo : mo == setmod (cmod c) (acc_step (cinit c) acc e)).
  { pose proof (cstep_acc c out acc e Hm Hacc) as S. now rewrite E in S. }
  assert (Hrange : in_range (cmod c) o = true).
  { eapply setmod_in_range; [exact Hm|]. rewrite <- H2. exact Hmo. }
  rewrite Hrange, andb_true_r.
  apply andb_true_iff. split.
  - destruct e as [a|a|[v|]| |]; simpl in E; inversion E; subst mx; clear E;
      destruct x as [q|k]; simpl in H1; try discriminate.
    + apply Qeq_bool_iff in H1. apply andb_true_iff; split; apply Qeq_bool_iff.
      * rewrite <- H1, <- H2. now subst mo.
      * rewrite <- H2. exact Hmo.
    + apply Qeq_bool_iff in H1. apply andb_true_iff; split; apply Qeq_bool_iff.
      * rewrite <- H1, <- H2. now subst mo.
      * rewrite <- H2. exact Hmo.
    + apply Qeq_bool_iff in H1. apply andb_true_iff; split; apply Qeq_bool_iff.
      * rewrite <- H1, <- H2. now subst mo.
      * rewrite <- H2. exact Hmo.
    + destruct k; try discriminate. apply Qeq_bool_iff. subst mo. now rewrite <- H2, <- Hprev.
    + apply Qeq_bool_iff in H1. apply andb_true_iff; split; apply Qeq_bool_iff.
      * rewrite <- H1, <- H2. now subst mo.
      * rewrite <- H2. exact Hmo.
    + destruct k; try discriminate. apply Qeq_bool_iff. subst mo. now rewrite <- H2, <- Hprev.
  - eapply IH; [exact Hm| exact Hmo | exact H2 | exact H3].
Qed.

(* The link theorem: whatever run of the implementation the model agrees with
   satisfies the property's monitor. *)
Theorem counter_agree_implies_monitor k : case_agree k = true -> case_monitor k = true.
Proof.
  unfold case_agree, case_monitor, ccreate.
  destruct (k_mod k) as [mm|] eqn:Hmod.
  - destruct (Qeq_bool mm 0) eqn:Ez; [trivial|].
    intros H. apply andb_true_iff in H as [H H3]. apply andb_true_iff in H as [H1 H2].
    assert (Hm : mod_ok (Some mm)).
    { simpl. intros C. apply Qeq_bool_iff in C. congruence. }
    apply Qeq_bool_iff in H2. unfold cstart in *. simpl in *.
    assert (Hs : k_start k == pymod (start_acc k) mm).
    { rewrite <- H2. unfold start_acc. destruct (k_restored k); reflexivity. }
    rewrite H1. simpl.
    apply andb_true_iff; split; [apply andb_true_iff; split|].
    + now apply Qeq_bool_iff.
    + eapply (setmod_in_range (Some mm)); [exact Hm|exact Hs].
    + eapply cagree_monitor; [exact Hm| |exact H2|exact H3].
      simpl. unfold start_acc. destruct (k_restored k); reflexivity.
  - intros H. apply andb_true_iff in H as [H H3]. apply andb_true_iff in H as [H1 H2].
    apply Qeq_bool_iff in H2. unfold cstart in *. simpl in *.
    rewrite H1. simpl.
    apply andb_true_iff; split.
    + apply Qeq_bool_iff. rewrite <- H2. unfold start_acc. destruct (k_restored k); reflexivity.
    + eapply cagree_monitor; [exact I| |exact H2|exact H3].
      simpl. unfold start_acc. destruct (k_restored k); reflexivity.
Qed.

(* ---- algebraic corollaries of the reduction theorem (added in the last session) ---- *)

(* 'reset' restores exactly what start-up without a persisted value produces *)
Theorem counter_reset_is_start c out : cstep c out Reset = (Ok (cstart c None), cstart c None).
Proof. reflexivity. Qed.

(* inc by a then dec by the same a restores every already-reduced output *)
Theorem counter_inc_dec_cancel c out a :
  mod_ok (cmod c) -> out == setmod (cmod c) out ->
  cfinal c out [Inc a; Dec a] == out /\ cfinal c out [Dec a; Inc a] == out.
Proof.
  intros Hm H. split.
  - rewrite (counter_reduction_commutes c [Inc a; Dec a] out out Hm H). simpl.
    rewrite H at 2. apply setmod_comp. ring.
  - rewrite (counter_reduction_commutes c [Dec a; Inc a] out out Hm H). simpl.
    rewrite H at 2. apply setmod_comp. ring.
Qed.

(* every output produced under a positive modulo is a fixed point of the reduction,
   i.e. the hypothesis of counter_inc_dec_cancel holds on every reachable output *)
Theorem counter_output_reduced c mm v :
  cmod c = Some mm -> ~ mm == 0 -> setmod (cmod c) v == setmod (cmod c) (setmod (cmod c) v).
Proof. intros E Hm. rewrite E. simpl. symmetry. now apply pymod_idem. Qed.

(* the order of a put-free, reset-free batch of inc/dec events does not matter *)
Definition delta (e : cev) : Q :=
  match e with Inc a => dflt1 a | Dec a => - dflt1 a | _ => 0 end.
Definition incdec (e : cev) : bool := match e with Inc _ | Dec _ => true | _ => false end.

Lemma acc_incdec init evs : forallb incdec evs = true -> forall acc,
  fold_left (acc_step init) evs acc == acc + fold_right (fun e s => delta e + s) 0 evs.
Proof.
  induction evs as [|e r IH]; intros Hf acc; simpl in *.
  - ring.
  - apply andb_prop in Hf as [He Hr]. rewrite (IH Hr).
    destruct e as [a|a|v| |]; simpl in *; try discriminate; ring.
Qed.

Theorem counter_incdec_sum c evs out acc :
  mod_ok (cmod c) -> out == setmod (cmod c) acc -> forallb incdec evs = true ->
  cfinal c out evs == setmod (cmod c) (acc + fold_right (fun e s => delta e + s) 0 evs).
Proof.
  intros Hm H Hf. rewrite (counter_reduction_commutes c evs out acc Hm H).
  apply setmod_comp. now apply acc_incdec.
Qed.

Lemma delta_sum_perm evs evs' : Permutation evs evs' ->
  fold_right (fun e s => delta e + s) 0 evs == fold_right (fun e s => delta e + s) 0 evs'.
Proof.
  induction 1 as [|x l l' _ IH|x y l|l l' l'' _ IH1 _ IH2]; simpl.
  - reflexivity.
  - now rewrite IH.
  - ring.
  - now rewrite IH1.
Qed.

Lemma incdec_perm evs evs' : Permutation evs evs' -> forallb incdec evs = true -> forallb incdec evs' = true.
Proof.
  intros P H. rewrite forallb_forall in *. intros x Hx. apply H.
  eapply Permutation_in; [symmetry; exact P|exact Hx].
Qed.

Theorem counter_incdec_order_irrelevant c evs evs' out acc :
  mod_ok (cmod c) -> out == setmod (cmod c) acc -> forallb incdec evs = true ->
  Permutation evs evs' -> cfinal c out evs == cfinal c out evs'.
Proof.
  intros Hm H Hf P.
  rewrite (counter_incdec_sum c evs out acc Hm H Hf).
  rewrite (counter_incdec_sum c evs' out acc Hm H (incdec_perm _ _ P Hf)).
  apply setmod_comp. now rewrite (delta_sum_perm _ _ P).
Qed.
