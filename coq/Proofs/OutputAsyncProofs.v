From Verif Require Import Values OutputAsync.
From Coq Require Import Permutation.
Open Scope list_scope.
Open Scope Z_scope.

(* puts that were accepted and have no result event yet *)
Definition coro_ids (l : list arun) : list nat :=
  map a_id (filter (fun a => match a_phase a with PhCoro => true | _ => false end) l).
Definition owed_ids (s : ostate) : list nat := match owed s with Some (i, _) => [i] | None => [] end.
Definition pending (s : ostate) : list nat := q s ++ coro_ids (active s) ++ owed_ids s.

(* every accepted put is pending or reported, exactly once (stated with occurrence counts) *)
Definition cnt (i : nat) (l : list nat) : nat := count_occ Nat.eq_dec l i.
Arguments cnt : simpl never.
Definition PInv (s : ostate) : Prop :=
  (forall i, cnt i (seen s) = (cnt i (q s) + cnt i (coro_ids (active s)) + cnt i (owed_ids s)
                              + cnt i (reported s))%nat) /\
  (forall i, (cnt i (seen s) <= 1)%nat).

Lemma memn_false_notin i l : memn i l = false -> ~ In i l.
Proof.
  unfold memn. intros H Hin.
  assert (existsb (Nat.eqb i) l = true) by (apply existsb_exists; exists i; split; [exact Hin|apply Nat.eqb_refl]).
  congruence.
Qed.
Lemma memn_true_in i l : memn i l = true -> In i l.
Proof. unfold memn. intros H. apply existsb_exists in H as (x & Hx & E). apply Nat.eqb_eq in E. now subst. Qed.

Lemma coro_ids_app a b : coro_ids (a ++ b) = coro_ids a ++ coro_ids b.
Proof. unfold coro_ids. now rewrite filter_app, map_app. Qed.

Lemma in_coro_split id l :
  existsb (fun a => Nat.eqb (a_id a) id && match a_phase a with PhCoro => true | _ => false end) l = true ->
  forall u,
  Permutation (coro_ids l)
    (id :: coro_ids (map (fun a => if Nat.eqb (a_id a) id then {| a_id := id; a_phase := PhGuard u |} else a) l))
  \/ True.
Proof. intros; now right. Qed.

(* result list and put list as recorded by the state *)
Lemma step_lists c s x s' :
  ostep_do c s x = Some s' ->
  seen s' = (match x with OPut _ id => [id] | _ => [] end) ++ seen s /\
  reported s' = (match x with OResult _ id _ => [id] | _ => [] end) ++ reported s.
Proof.
  destruct x as [t id|t id|t id r|t id r|t n|t]; unfold ostep_do; intros H.
  - destruct ((onow s <=? t) && negb (memn id (seen s)) && no_owed s); [|discriminate].
    inversion H; subst; simpl; auto.
  - destruct ((onow s <=? t) && no_owed s && starting s); [|discriminate].
    destruct (o_mode c).
    + destruct (q s) as [|h rest]; [discriminate|]. destruct (active s); [|discriminate].
      destruct (Nat.eqb h id); [|discriminate]. inversion H; subst; simpl; auto.
    + destruct (q s) as [|h rest]; [discriminate|]. destruct (active s); [|discriminate].
      destruct (Nat.eqb h id); [|discriminate]. inversion H; subst; simpl; auto.
    + destruct (memn id (q s)); [|discriminate]. inversion H; subst; simpl; auto.
  - destruct ((onow s <=? t) && in_coro id s && no_owed s); [|discriminate].
    destruct (match r with OCancelled => _ | _ => true end); [|discriminate].
    inversion H; subst; simpl; auto.
  - destruct ((onow s <=? t) && negb (memn id (reported s))); [|discriminate].
    destruct (owed s) as [[i r0]|].
    + destruct (Nat.eqb i id && outc_eqb r r0); [|discriminate]. inversion H; subst; simpl; auto.
    + destruct (o_mode c); try discriminate. destruct r; try discriminate.
      destruct (q s) as [|h [|h2 rest]]; try discriminate.
      destruct (Nat.eqb h id && match active s with [] => true | _ => false end); [|discriminate].
      inversion H; subst; simpl; auto.
  - destruct ((onow s <=? t) && no_owed s); [|discriminate].
    destruct (Nat.eqb n (S (oout s))).
    + destruct (negb (starting s) && Nat.eqb (oout s) (List.length (active s))); [|discriminate].
      inversion H; subst; simpl; auto.
    + destruct (Nat.eqb (S n) (oout s)); [|discriminate].
      destruct (drop_due t (active s)) as [act'|]; [|discriminate].
      destruct (Nat.eqb n _); [|discriminate]. inversion H; subst; simpl; auto.
  - destruct (onow s <=? t); [|discriminate]. inversion H; subst; simpl; auto.
Qed.

Lemma run_lists c xs : forall s s',
  orun c s xs = Some s' ->
  seen s' = rev (puts_of xs) ++ seen s /\ reported s' = rev (results_of xs) ++ reported s.
Proof.
  induction xs as [|x r IH]; intros s s'; simpl.
  - intros H; inversion H; subst. auto.
  - destruct (ostep_do c s x) as [s1|] eqn:E; [|discriminate]. intros H.
    destruct (IH _ _ H) as [A B]. destruct (step_lists _ _ _ _ E) as [C D].
    rewrite A, B, C, D. destruct x; simpl; rewrite <- ?app_assoc; auto.
Qed.

(* guard-phase bookkeeping does not touch the coroutine ids *)
Lemma coro_ids_drop_due t l l' : drop_due t l = Some l' -> coro_ids l' = coro_ids l.
Proof.
  revert l'. induction l as [|a r IH]; intros l'; simpl; [discriminate|].
  destruct (a_phase a) as [|u] eqn:Ep.
  - destruct (drop_due t r) as [r'|]; [|discriminate]. intros H; inversion H; subst.
    unfold coro_ids in *. simpl. rewrite Ep. simpl. f_equal. now apply IH.
  - destruct (u =? t).
    + intros H; inversion H; subst. unfold coro_ids. simpl. now rewrite Ep.
    + destruct (drop_due t r) as [r'|]; [|discriminate]. intros H; inversion H; subst.
      unfold coro_ids in *. simpl. rewrite Ep. now apply IH.
Qed.

Lemma cnt_app i a b : cnt i (a ++ b) = (cnt i a + cnt i b)%nat.
Proof. unfold cnt. apply count_occ_app. Qed.
Lemma cnt_cons i x l : cnt i (x :: l) = ((if Nat.eqb x i then 1 else 0) + cnt i l)%nat.
Proof.
  unfold cnt. simpl. destruct (Nat.eq_dec x i) as [->|N].
  - now rewrite Nat.eqb_refl.
  - apply Nat.eqb_neq in N. now rewrite N.
Qed.
Lemma cnt_nil i : cnt i [] = 0%nat.
Proof. reflexivity. Qed.

Lemma cnt_remn i id l : cnt i (remn id l) = if Nat.eqb i id then 0%nat else cnt i l.
Proof.
  unfold remn. induction l as [|x r IH]; simpl; [now destruct (Nat.eqb i id)|].
  destruct (Nat.eqb x id) eqn:E; simpl.
  - rewrite IH. apply Nat.eqb_eq in E. subst x. rewrite cnt_cons.
    destruct (Nat.eqb i id) eqn:E2; [reflexivity|].
    rewrite Nat.eqb_sym, E2. reflexivity.
  - rewrite !cnt_cons, IH. destruct (Nat.eqb i id) eqn:E2; [|reflexivity].
    apply Nat.eqb_eq in E2. subst i. now rewrite E.
Qed.

Lemma cnt_memn i l : memn i l = true -> (1 <= cnt i l)%nat.
Proof.
  intros H. apply memn_true_in in H. unfold cnt.
  apply (proj1 (count_occ_In Nat.eq_dec l i)) in H. lia.
Qed.

Lemma cnt_coro_guard i id u l :
  cnt i (coro_ids (map (fun a => if Nat.eqb (a_id a) id then {| a_id := id; a_phase := PhGuard u |} else a) l))
  = if Nat.eqb i id then 0%nat else cnt i (coro_ids l).
Proof.
  unfold coro_ids. induction l as [|a r IH]; simpl; [now destruct (Nat.eqb i id)|].
  destruct (Nat.eqb (a_id a) id) eqn:E; simpl.
  - rewrite IH. destruct (Nat.eqb i id) eqn:E2; [reflexivity|].
    destruct (a_phase a); simpl; [|reflexivity].
    rewrite cnt_cons. apply Nat.eqb_eq in E. rewrite E, Nat.eqb_sym, E2. reflexivity.
  - destruct (a_phase a); simpl; [|exact IH].
    rewrite !cnt_cons, IH. destruct (Nat.eqb i id) eqn:E2; [|reflexivity].
    apply Nat.eqb_eq in E2. subst i. now rewrite E.
Qed.

Lemma cnt_in_coro id s : in_coro id s = true -> (1 <= cnt id (coro_ids (active s)))%nat.
Proof.
  unfold in_coro, coro_ids. induction (active s) as [|a r IH]; simpl; [discriminate|].
  destruct (Nat.eqb (a_id a) id) eqn:E; simpl.
  - destruct (a_phase a); simpl.
    + intros _. rewrite cnt_cons, E. lia.
    + exact IH.
  - intros H. destruct (a_phase a); simpl; [rewrite cnt_cons, E|]; now apply IH.
Qed.

Lemma cnt_coro_single i id :
  cnt i (coro_ids [{| a_id := id; a_phase := PhCoro |}]) = if Nat.eqb id i then 1%nat else 0%nat.
Proof. unfold coro_ids. simpl. rewrite cnt_cons, cnt_nil. lia. Qed.

Ltac cnts := repeat (rewrite ?cnt_app, ?cnt_cons, ?cnt_nil, ?cnt_remn, ?cnt_coro_guard in * ).

Lemma step_PInv c s x s' : PInv s -> ostep_do c s x = Some s' -> PInv s'.
Proof.
  intros [HC HU]. destruct x as [t id|t id|t id r|t id r|t n|t]; unfold ostep_do; intros H.
  - (* OPut *)
    destruct ((onow s <=? t) && negb (memn id (seen s)) && no_owed s) eqn:G; [|discriminate].
    apply andb_true_iff in G as [G G3]. apply andb_true_iff in G as [_ G2].
    apply negb_true_iff in G2. apply memn_false_notin in G2.
    assert (Z0 : cnt id (seen s) = 0%nat) by (unfold cnt; now apply count_occ_not_In).
    unfold no_owed in G3. destruct (owed s) eqn:Eo; [discriminate|].
    inversion H; subst; clear H. unfold PInv, owed_ids in *. simpl. rewrite ?Eo in *.
    split; intros i; specialize (HC i); specialize (HU i); cnts;
      destruct (Nat.eqb id i) eqn:E; try (apply Nat.eqb_eq in E; subst i); lia.
  - (* OStart *)
    destruct ((onow s <=? t) && no_owed s && starting s) eqn:G; [|discriminate].
    apply andb_true_iff in G as [G _]. apply andb_true_iff in G as [_ G2].
    unfold no_owed in G2. destruct (owed s) eqn:Eo; [discriminate|].
    destruct (o_mode c).
    + destruct (q s) as [|h rest] eqn:Eq; [discriminate|]. destruct (active s) eqn:Ea; [|discriminate].
      destruct (Nat.eqb h id) eqn:Eh; [|discriminate]. apply Nat.eqb_eq in Eh. subst h.
      inversion H; subst; clear H. unfold PInv, owed_ids, coro_ids in *. simpl. rewrite ?Eo, ?Eq, ?Ea in *. simpl in *.
      split; intros i; specialize (HC i); specialize (HU i); cnts; lia.
    + destruct (q s) as [|h rest] eqn:Eq; [discriminate|]. destruct (active s) eqn:Ea; [|discriminate].
      destruct (Nat.eqb h id) eqn:Eh; [|discriminate]. apply Nat.eqb_eq in Eh. subst h.
      inversion H; subst; clear H. unfold PInv, owed_ids, coro_ids in *. simpl. rewrite ?Eo, ?Eq, ?Ea in *. simpl in *.
      split; intros i; specialize (HC i); specialize (HU i); cnts; lia.
    + destruct (memn id (q s)) eqn:Em; [|discriminate]. apply cnt_memn in Em.
      inversion H; subst; clear H. unfold PInv, owed_ids in *. simpl. rewrite ?Eo in *.
      split; intros i; pose proof (HC i) as HCi; pose proof (HU i) as HUi;
        pose proof (HC id) as HCd; pose proof (HU id) as HUd;
        rewrite ?coro_ids_app; cnts; rewrite ?cnt_coro_single;
        destruct (Nat.eqb i id) eqn:E; try (apply Nat.eqb_eq in E; subst i);
        rewrite ?Nat.eqb_refl; try (rewrite Nat.eqb_sym, E); lia.
  - (* OEnd *)
    destruct ((onow s <=? t) && in_coro id s && no_owed s) eqn:G; [|discriminate].
    apply andb_true_iff in G as [G G3]. apply andb_true_iff in G as [_ G2].
    apply cnt_in_coro in G2. unfold no_owed in G3. destruct (owed s) eqn:Eo; [discriminate|].
    destruct (match r with OCancelled => _ | _ => true end); [|discriminate].
    inversion H; subst; clear H. unfold PInv, owed_ids in *. simpl. rewrite ?Eo in *.
    split; intros i; pose proof (HC i) as HCi; pose proof (HU i) as HUi;
      pose proof (HC id) as HCd; pose proof (HU id) as HUd; cnts;
      destruct (Nat.eqb i id) eqn:E; try (apply Nat.eqb_eq in E; subst i);
      rewrite ?Nat.eqb_refl; try (rewrite Nat.eqb_sym, E); lia.
  - (* OResult *)
    destruct ((onow s <=? t) && negb (memn id (reported s))); [|discriminate].
    destruct (owed s) as [[i0 r0]|] eqn:Eo.
    + destruct (Nat.eqb i0 id && outc_eqb r r0) eqn:G; [|discriminate].
      apply andb_true_iff in G as [G _]. apply Nat.eqb_eq in G. subst i0.
      inversion H; subst; clear H. unfold PInv, owed_ids in *. simpl. rewrite ?Eo in *.
      split; intros i; specialize (HC i); specialize (HU i); cnts; lia.
    + destruct (o_mode c); try discriminate. destruct r; try discriminate.
      destruct (q s) as [|h [|h2 rest]] eqn:Eq; try discriminate.
      destruct (Nat.eqb h id && match active s with [] => true | _ => false end) eqn:G; [|discriminate].
      apply andb_true_iff in G as [G _]. apply Nat.eqb_eq in G. subst h.
      inversion H; subst; clear H. unfold PInv, owed_ids in *. simpl. rewrite ?Eo, ?Eq in *.
      split; intros i; specialize (HC i); specialize (HU i); cnts; lia.
  - (* OOut *)
    destruct ((onow s <=? t) && no_owed s) eqn:G; [|discriminate].
    apply andb_true_iff in G as [_ G2]. unfold no_owed in G2. destruct (owed s) eqn:Eo; [discriminate|].
    destruct (Nat.eqb n (S (oout s))).
    + destruct (negb (starting s) && Nat.eqb (oout s) (List.length (active s))); [|discriminate].
      inversion H; subst; clear H. unfold PInv, owed_ids in *. simpl. rewrite ?Eo in *. split; assumption.
    + destruct (Nat.eqb (S n) (oout s)); [|discriminate].
      destruct (drop_due t (active s)) as [act'|] eqn:Ed; [|discriminate].
      destruct (Nat.eqb n _); [|discriminate].
      inversion H; subst; clear H. unfold PInv, owed_ids in *. simpl. rewrite ?Eo in *.
      rewrite (coro_ids_drop_due _ _ _ Ed). split; assumption.
  - destruct (onow s <=? t); [|discriminate]. inversion H; subst; clear H.
    unfold PInv, owed_ids in *. simpl. split; assumption.
Qed.

Lemma PInv0 : PInv ostate0.
Proof. split; intros i; unfold cnt; simpl; lia. Qed.

Lemma run_PInv c xs : forall s s', PInv s -> orun c s xs = Some s' -> PInv s'.
Proof.
  induction xs as [|x r IH]; intros s s' HP; simpl.
  - intros H; inversion H; subst; exact HP.
  - destruct (ostep_do c s x) as [s1|] eqn:E; [|discriminate]. apply IH. eapply step_PInv; eassumption.
Qed.

Lemma cnt_rev i l : cnt i (rev l) = cnt i l.
Proof.
  induction l as [|x r IH]; simpl; [reflexivity|]. rewrite cnt_app, IH, cnt_cons, cnt_cons, cnt_nil. lia.
Qed.

Lemma count_results_cnt id xs : count_results id xs = cnt id (results_of xs).
Proof.
  induction xs as [|x r IH]; simpl; [reflexivity|].
  destruct x; simpl; try exact IH. rewrite cnt_cons, IH, Nat.eqb_sym. reflexivity.
Qed.

(* exactly one of on_success / on_error / on_cancel for every accepted put, and no result event
   for anything else - in every run the model accepts that ends quiescent *)
Theorem one_result_per_put c xs s :
  orun c ostate0 xs = Some s -> quiescent s = true ->
  (forall id, In id (puts_of xs) -> count_results id xs = 1%nat) /\
  (forall id, In id (results_of xs) -> In id (puts_of xs)).
Proof.
  intros R Q. destruct (run_PInv _ _ _ _ PInv0 R) as [HC HU].
  destruct (run_lists _ _ _ _ R) as [Hs Hr]. simpl in Hs, Hr. rewrite app_nil_r in Hs, Hr.
  unfold quiescent in Q. destruct (q s) eqn:Eq; [|discriminate].
  destruct (active s) eqn:Ea; [|discriminate]. destruct (owed s) eqn:Eo; [discriminate|].
  assert (E : forall i, cnt i (puts_of xs) = cnt i (results_of xs)).
  { intros i. specialize (HC i). unfold owed_ids, coro_ids in HC. rewrite ?Hs, ?Hr, ?Eq, ?Ea, ?Eo in HC.
    cbn [filter map] in HC. rewrite !cnt_rev, !cnt_nil in HC. lia. }
  split.
  - intros id Hin. rewrite count_results_cnt, <- E.
    specialize (HU id). rewrite Hs, cnt_rev in HU.
    assert (1 <= cnt id (puts_of xs))%nat.
    { unfold cnt. apply (proj1 (count_occ_In Nat.eq_dec _ _)) in Hin. lia. }
    lia.
  - intros id Hin. apply (count_occ_In Nat.eq_dec). fold (cnt id (puts_of xs)). rewrite E.
    unfold cnt. apply (proj1 (count_occ_In Nat.eq_dec _ _)) in Hin. lia.
Qed.

Theorem wait_one_at_a_time g sc s t id s' :
  ostep_do {| o_mode := MWait; o_guard := g; o_selfcancel := sc |} s (OStart t id) = Some s' ->
  active s = [] /\ exists rest, q s = id :: rest.
Proof.
  unfold ostep_do.
  destruct ((onow s <=? t) && no_owed s && starting s); [|discriminate]. cbn [o_mode].
  destruct (q s) as [|h rest]; [discriminate|]. destruct (active s); [|discriminate].
  destruct (Nat.eqb h id) eqn:E; [|discriminate]. apply Nat.eqb_eq in E. subst. eauto.
Qed.

Theorem cancel_only_for_newer_event c s t id s' :
  ostep_do c s (OEnd t id OCancelled) = Some s' ->
  In id (o_selfcancel c) \/ (o_mode c = MCancel /\ q s <> []).
Proof.
  unfold ostep_do.
  destruct ((onow s <=? t) && in_coro id s && no_owed s); [|discriminate].
  destruct (memn id (o_selfcancel c)) eqn:Esc; [intros _; left; now apply memn_true_in|].
  cbn [orb]. destruct (o_mode c) eqn:Em; cbn iota beta.
  - intros H; discriminate H.
  - destruct (q s) eqn:Eq.
    + simpl. intros H. discriminate H.
    + intros _. right. split; [reflexivity|discriminate].
  - intros H; discriminate H.
Qed.

Theorem guard_time_exact c s t n s' :
  ostep_do c s (OOut t n) = Some s' -> S n = oout s ->
  exists act', drop_due t (active s) = Some act' /\ active s' = act'.
Proof.
  intros H Hn. unfold ostep_do in H.
  destruct ((onow s <=? t) && no_owed s); [|discriminate H].
  destruct (Nat.eqb n (S (oout s))) eqn:E1; [apply Nat.eqb_eq in E1; lia|].
  destruct (Nat.eqb (S n) (oout s)); [|discriminate H].
  destruct (drop_due t (active s)) as [act'|]; [|discriminate H].
  destruct (Nat.eqb n (List.length act' + (if starting s then 1 else 0))); [|discriminate H].
  inversion H; subst. eauto.
Qed.
