(* C18: the count limit as an invariant of every accepted trace.  Proofs only (RInv is the invariant). *)
From Verif Require Import Values Repeat RepeatProofs.
From Coq Require Import ZArith Lia Bool.
Open Scope list_scope.

(* "until 'count' repetitions have been sent": on every accepted trace of any length the repeat
   number never exceeds count, and a copy is pending only while fewer than count were sent *)
Definition RInv (c : rcfg) (s : rstate) : Prop :=
  (r_deadline s <> None -> more c (r_n s) = true) /\
  (forall k, rc_count c = Some k -> (r_n s <= k)%nat).

Lemma RInv_init c : RInv c rstate0.
Proof. split; [intros H; now elim H|intros k _; simpl; lia]. Qed.

Lemma more_lt c n k : rc_count c = Some k -> more c n = true -> (n < k)%nat.
Proof. unfold more. intros ->. apply Nat.ltb_lt. Qed.

Lemma RInv_step c s x s' : RInv c s -> rstep_do c s x = Some s' -> RInv c s'.
Proof.
  intros [I1 I2] H. destruct x as [t tag m f|t tag n|t]; simpl in H.
  - destruct ((r_now s <=? t)%Z && not_overdue s t && negb (r_stopped s)); [|discriminate].
    destruct m, f; try discriminate; inversion H; subst; clear H; split; simpl.
    + destruct (more c 0) eqn:M; [reflexivity|intros X; now elim X].
    + intros k _. lia.
    + exact I1.
    + exact I2.
  - destruct ((r_now s <=? t)%Z && negb (r_stopped s)); [|discriminate].
    destruct (r_deadline s) as [dl|] eqn:D; [|discriminate].
    destruct (r_last s) as [lt|]; [|discriminate].
    destruct ((dl =? t)%Z && (lt =? tag)%Z && Nat.eqb n (S (r_n s))) eqn:C; [|discriminate].
    apply andb_prop in C as [_ C]. apply Nat.eqb_eq in C.
    inversion H; subst; clear H; split; simpl.
    + destruct (more c (S (r_n s))) eqn:M; [reflexivity|intros X; now elim X].
    + intros k Hk. assert (M : more c (r_n s) = true) by (apply I1; discriminate).
      pose proof (more_lt _ _ _ Hk M). lia.
  - destruct ((r_now s <=? t)%Z && not_overdue s t); [|discriminate].
    inversion H; subst; clear H; split; simpl.
    + intros X; now elim X.
    + exact I2.
Qed.

Theorem repeat_count_bound c xs : forall s s', RInv c s -> rrun c s xs = Some s' -> RInv c s'.
Proof.
  induction xs as [|x r IH]; intros s s' I; cbn [rrun].
  - intros H; inversion H; subst; exact I.
  - destruct (rstep_do c s x) as [s1|] eqn:E; [|discriminate]. intros H.
    eapply IH; [eapply RInv_step; eassumption|exact H].
Qed.

Theorem repeat_never_exceeds_count c xs s' k :
  rc_count c = Some k -> rrun c rstate0 xs = Some s' ->
  (r_n s' <= k)%nat /\ (r_n s' = k -> r_deadline s' = None).
Proof.
  intros Hk R. destruct (repeat_count_bound c xs _ _ (RInv_init c) R) as [I1 I2].
  split; [now apply I2|].
  intros E. destruct (r_deadline s') eqn:D; [|reflexivity].
  assert (M : more c (r_n s') = true) by (apply I1; discriminate).
  pose proof (more_lt _ _ _ Hk M). lia.
Qed.

(* every copy accepted anywhere in a trace has a number within the count *)
Theorem repeat_copy_number_bounded c pre t tag n post s' k :
  rc_count c = Some k -> rrun c rstate0 (pre ++ RResend t tag n :: post) = Some s' -> (1 <= n <= k)%nat.
Proof.
  intros Hk. revert s'. 
  assert (G : forall xs s s', RInv c s -> rrun c s (xs ++ RResend t tag n :: post) = Some s' -> (1 <= n <= k)%nat).
  { induction xs as [|x r IH]; intros s s' I; cbn [rrun app].
    - destruct (rstep_do c s (RResend t tag n)) as [s1|] eqn:E; [|discriminate]. intros _.
      pose proof (RInv_step _ _ _ _ I E) as [_ J]. specialize (J k Hk).
      simpl in E.
      destruct ((r_now s <=? t)%Z && negb (r_stopped s)); [|discriminate].
      destruct (r_deadline s); [|discriminate]. destruct (r_last s); [|discriminate].
      destruct ((z =? t)%Z && (z0 =? tag)%Z && Nat.eqb n (S (r_n s))) eqn:C; [|discriminate].
      apply andb_prop in C as [_ C]. apply Nat.eqb_eq in C.
      inversion E; subst s1. simpl in J. lia.
    - destruct (rstep_do c s x) as [s1|] eqn:E; [|discriminate]. intros H.
      eapply IH; [eapply RInv_step; eassumption|exact H]. }
  intros s' R. eapply G; [apply RInv_init|exact R].
Qed.
