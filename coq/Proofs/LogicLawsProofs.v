(* Composition laws of the logic blocks (C01): proofs only. *)
From Verif Require Import Values Sim SimProofs.
Open Scope list_scope.

(* feeding one block's boolean output into another: the composition laws a user relies on
   when rewiring a circuit (De Morgan, double negation, Xor of two = inequality) *)
Definition bnot (x : val) : val := VBool (negb (truthy x)).

Lemma truthy_bool b : truthy (VBool b) = b.
Proof. destruct b; reflexivity. Qed.

Lemma truthy_bnot x : truthy (bnot x) = negb (truthy x).
Proof. unfold bnot. apply truthy_bool. Qed.

Lemma existsb_bnot l : existsb truthy (map bnot l) = negb (forallb truthy l).
Proof.
  induction l as [|x r IH]; cbn [map existsb forallb]; [reflexivity|].
  now rewrite truthy_bnot, IH, negb_andb.
Qed.
Lemma forallb_bnot l : forallb truthy (map bnot l) = negb (existsb truthy l).
Proof.
  induction l as [|x r IH]; cbn [map existsb forallb]; [reflexivity|].
  now rewrite truthy_bnot, IH, negb_orb.
Qed.

Theorem not_and_is_or_not own l :
  apply_fun FNot own [("_"%string, VG [VBool (forallb truthy l)])]
  = apply_fun FOr own [("_"%string, VG (map bnot l))].
Proof. now rewrite not_spec, or_spec, truthy_bool, existsb_bnot. Qed.

Theorem not_or_is_and_not own l :
  apply_fun FNot own [("_"%string, VG [VBool (existsb truthy l)])]
  = apply_fun FAnd own [("_"%string, VG (map bnot l))].
Proof. now rewrite not_spec, and_spec, truthy_bool, forallb_bnot. Qed.

Theorem not_not_is_truth own x :
  apply_fun FNot own [("_"%string, VG [bnot x])] = Ok (VBool (truthy x)).
Proof. rewrite not_spec. unfold bnot. now rewrite truthy_bool, negb_involutive. Qed.

Theorem xor_app own l1 l2 :
  apply_fun FXor own [("_"%string, VG (l1 ++ l2))]
  = Ok (VBool (xorb (Nat.odd (List.length (filter truthy l1))) (Nat.odd (List.length (filter truthy l2))))).
Proof.
  rewrite xor_spec. f_equal. f_equal. rewrite filter_app, app_length.
  rewrite Nat.odd_add. reflexivity.
Qed.
