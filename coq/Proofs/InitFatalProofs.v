(* C05: a synchronous initialization routine that fails is fatal, whoever triggered it - and a
   start-up that succeeds has initialised every block. *)
From Verif Require Import Values Init.
Open Scope list_scope.
Open Scope Z_scope.

Definition raises_reg (T : list ispec) (b : nat) : bool :=
  match is_regular (spec_of T b) with GRaises => true | _ => false end.
Definition NoRaise (T : list ispec) (l : list call) : Prop :=
  forall b, In (CRegular b) l -> raises_reg T b = false.
(* either the start-up has failed already, or no failing init_regular has been called *)
Definition Strong (T : list ispec) (s : istate) : Prop := ierr s = true \/ NoRaise T (ilog s).
(* ... or its exception is still on its way to the caller *)
Definition Weak (T : list ispec) (s : istate) : Prop := Strong T s \/ iexn s = true.

Section Fatal.
Variable T : list ispec.

Lemma Strong_same s s' : ierr s' = ierr s -> ilog s' = ilog s -> Strong T s -> Strong T s'.
Proof. unfold Strong. intros -> ->. auto. Qed.
Lemma Strong_set_steps s b v : Strong T s -> Strong T (set_steps s b v).
Proof. now apply Strong_same. Qed.
Lemma Strong_set_inited s b : Strong T s -> Strong T (set_inited s b).
Proof. now apply Strong_same. Qed.
Lemma Strong_set_active s b v : Strong T s -> Strong T (set_active s b v).
Proof. now apply Strong_same. Qed.
Lemma Strong_set_exn s : Strong T s -> Strong T (set_exn s).
Proof. now apply Strong_same. Qed.
Lemma Strong_clear_exn s : Strong T s -> Strong T (clear_exn s).
Proof. now apply Strong_same. Qed.
Lemma Strong_set_err s : Strong T (set_err s).
Proof. left. reflexivity. Qed.
Lemma Strong_add_log s c :
  (forall b, c = CRegular b -> raises_reg T b = false) -> Strong T s -> Strong T (add_log s c).
Proof.
  intros Hc [H|H]; [left; exact H|right]. simpl. intros b Hin.
  apply in_app_or in Hin as [Hin|[Hin|[]]]; [now apply H|]. now apply Hc.
Qed.
Lemma Strong_Weak s : Strong T s -> Weak T s.
Proof. now left. Qed.
Lemma Weak_noexn s : Weak T s -> iexn s = false -> Strong T s.
Proof. intros [H|H] E; [exact H|congruence]. Qed.

Lemma fold_Strong {A} (g : istate -> A -> istate) (l : list A) :
  (forall s a, Strong T s -> Strong T (g s a)) -> forall s, Strong T s -> Strong T (fold_left g l s).
Proof.
  intros Hg. induction l as [|a r IH]; intros s Hs; simpl; [exact Hs|]. apply IH, Hg, Hs.
Qed.

Lemma fatal_mutual fuel : forall s b,
  (Strong T s -> Strong T (set_output fuel T s b)) /\
  (Strong T s -> Strong T (event_put fuel T s b)) /\
  (forall full, Strong T s -> Weak T (init_sblock fuel T s b full)).
Proof.
  induction fuel as [|f IH]; intros s b.
  - simpl. repeat split; intros; try apply Strong_Weak; apply Strong_set_err.
  - assert (IHo : forall s b, Strong T s -> Strong T (set_output f T s b)) by (intros; now apply IH).
    assert (IHe : forall s b, Strong T s -> Strong T (event_put f T s b)) by (intros; now apply IH).
    assert (IHi : forall s b full, Strong T s -> Weak T (init_sblock f T s b full)) by (intros; now apply IH).
    split; [|split].
    + intros Hs. cbn [set_output]. destruct (halt s); [exact Hs|]. destruct (inited s b); [exact Hs|].
      apply fold_Strong; [intros; now apply IHe|]. now apply Strong_set_inited.
    + intros Hs. cbn [event_put]. destruct (halt s); [exact Hs|].
      destruct (active s b); [now apply Strong_set_exn|]. cbv zeta.
      set (s0 := set_active s b true).
      assert (H0 : Strong T s0) by now apply Strong_set_active.
      set (s1 := if (0 <=? steps s0 b) && (steps s0 b <? 2) then _ else s0).
      assert (H1 : Strong T s1).
      { subst s1. destruct ((0 <=? steps s0 b) && (steps s0 b <? 2)); [|exact H0].
        pose proof (IHi (set_active s0 b false) b true (Strong_set_active _ _ _ H0)) as W.
        destruct (iexn _) eqn:E; [apply Strong_set_err|].
        apply Strong_set_active. now apply Weak_noexn. }
      destruct (halt s1); [now apply Strong_set_active|].
      set (s2 := add_log s1 (CHandler b)).
      assert (H2 : Strong T s2) by (apply Strong_add_log; [discriminate|exact H1]).
      set (s3 := if is_handler_sets (spec_of T b) then _ else s2).
      assert (H3 : Strong T s3) by (subst s3; destruct (is_handler_sets _); [now apply IHo|exact H2]).
      apply Strong_set_active. destruct (iexn s3); [apply Strong_set_err|exact H3].
    + intros full Hs. cbn [init_sblock]. destruct (halt s); [now apply Strong_Weak|]. cbv zeta.
      set (s1 := if steps s b =? 0 then _ else s).
      assert (H1 : Strong T s1).
      { subst s1. destruct (steps s b =? 0); [|exact Hs].
        set (s' := set_steps s b (-1)).
        assert (H' : Strong T s') by now apply Strong_set_steps.
        assert (Ha : Strong T (add_log s' (CRestore b))) by (apply Strong_add_log; [discriminate|exact H']).
        set (s'' := if is_persistent (spec_of T b) then _ else s').
        assert (H'' : Strong T s'').
        { subst s''. destruct (is_persistent _); [|exact H'].
          destruct (is_restore _); try assumption. apply Strong_clear_exn. now apply IHo. }
        destruct (ierr s''); [exact H''|now apply Strong_set_steps]. }
      destruct (halt s1); [now apply Strong_Weak|].
      destruct ((steps s b =? 1) || ((steps s b =? 0) && full)); [|now apply Strong_Weak].
      set (s2 := add_log (set_steps s1 b (-2)) (CRegular b)).
      destruct (is_regular (spec_of T b)) eqn:Er.
      * assert (H2 : Strong T s2).
        { apply Strong_add_log; [|now apply Strong_set_steps].
          intros b0 E. inversion E; subst b0. unfold raises_reg. now rewrite Er. }
        destruct (halt s2); [now apply Strong_Weak|].
        set (s4 := if negb (inited s2 b) && is_initdef (spec_of T b) then _ else s2).
        assert (H4 : Strong T s4).
        { subst s4. destruct (negb (inited s2 b) && is_initdef (spec_of T b)); [|exact H2].
          apply IHo. apply Strong_add_log; [discriminate|exact H2]. }
        destruct (halt s4); apply Strong_Weak; [exact H4|now apply Strong_set_steps].
      * assert (H2 : Strong T s2).
        { apply Strong_add_log; [|now apply Strong_set_steps].
          intros b0 E. inversion E; subst b0. unfold raises_reg. now rewrite Er. }
        set (s3 := set_output f T s2 b).
        assert (H3 : Strong T s3) by now apply IHo.
        destruct (halt s3); [now apply Strong_Weak|].
        set (s4 := if negb (inited s3 b) && is_initdef (spec_of T b) then _ else s3).
        assert (H4 : Strong T s4).
        { subst s4. destruct (negb (inited s3 b) && is_initdef (spec_of T b)); [|exact H3].
          apply IHo. apply Strong_add_log; [discriminate|exact H3]. }
        destruct (halt s4); apply Strong_Weak; [exact H4|now apply Strong_set_steps].
      * (* init_regular raises: the exception is on its way *)
        assert (Hx : halt (set_exn s2) = true) by (unfold halt; simpl; apply orb_true_r).
        rewrite Hx. right. reflexivity.
Qed.

Lemma sync_pass_Strong s : Strong T s -> Strong T (sync_pass T s).
Proof.
  unfold sync_pass. apply fold_Strong. intros s0 b Hs0.
  pose proof (proj2 (proj2 (fatal_mutual (fuel_of T) s0 b)) false Hs0) as W. cbv zeta.
  destruct (iexn _) eqn:E; [apply Strong_set_err|now apply Weak_noexn].
Qed.

Lemma async_phase_Strong s : Strong T s -> Strong T (fst (async_phase T s)).
Proof.
  intros Hs. unfold async_phase. cbv zeta.
  destruct (run_tasks (sort_tasks (async_started T s)) 0 []) as [tend fin]. simpl.
  apply fold_Strong.
  - intros s0 fx Hs0. destruct (snd fx); try exact Hs0;
      apply Strong_clear_exn; now apply (proj1 (fatal_mutual (fuel_of T) s0 _)).
  - apply fold_Strong; [|exact Hs]. intros s0 t Hs0. apply Strong_add_log; [discriminate|exact Hs0].
Qed.

Lemma pre_phase_Strong s : Strong T s -> Strong T (pre_phase T s).
Proof.
  unfold pre_phase. apply fold_Strong. intros s0 b Hs0.
  destruct (is_async (spec_of T b)) as [[tmo sc]|]; [|exact Hs0].
  destruct sc; try exact Hs0. destruct (d =? 0); [|exact Hs0]. cbv zeta.
  pose proof (proj1 (fatal_mutual (fuel_of T) s0 b) Hs0) as W.
  destruct (iexn _); [apply Strong_set_err|exact W].
Qed.

Lemma Strong0 : Strong T istate0.
Proof. right. intros b []. Qed.

(* a start-up in which a failing init_regular was called - by the initialization passes, by an
   event that arrived early, from a state being restored or from an init_async task - never
   succeeds *)
Theorem failing_regular_is_fatal s t :
  run_init T = (s, t, true) ->
  forall b, In (CRegular b) (ilog s) -> is_regular (spec_of T b) <> GRaises.
Proof.
  unfold run_init. cbv zeta.
  pose proof (sync_pass_Strong _ (pre_phase_Strong _ Strong0)) as H1.
  destruct (ierr (sync_pass T (pre_phase T istate0))) eqn:E1; [intros H; inversion H|].
  pose proof (async_phase_Strong _ H1) as H2.
  destruct (async_phase T (sync_pass T (pre_phase T istate0))) as [s2 tend]. simpl in H2.
  destruct (ierr s2) eqn:E2; [intros H; inversion H|].
  pose proof (sync_pass_Strong _ H2) as H3.
  intros H. injection H as Es Et Eok. subst s.
  apply andb_true_iff in Eok as [Eerr _]. apply negb_true_iff in Eerr.
  destruct H3 as [H3|H3]; [congruence|].
  intros b Hin Er. specialize (H3 b Hin). unfold raises_reg in H3. rewrite Er in H3. discriminate.
Qed.

(* a start-up that succeeds has given every block an output *)
Theorem success_all_initialised s t :
  run_init T = (s, t, true) -> forall b, (b < List.length T)%nat -> inited s b = true.
Proof.
  unfold run_init. cbv zeta.
  destruct (ierr (sync_pass T (pre_phase T istate0))); [intros H; inversion H|].
  destruct (async_phase T (sync_pass T (pre_phase T istate0))) as [s2 tend].
  destruct (ierr s2); [intros H; inversion H|].
  intros H. injection H as Es Et Eok. subst s.
  apply andb_true_iff in Eok as [_ Eall]. unfold all_inited in Eall.
  rewrite forallb_forall in Eall. intros b Hb. apply Eall. apply in_seq. lia.
Qed.

End Fatal.
