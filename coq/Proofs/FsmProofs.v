From Verif Require Import Values Fsm.
Open Scope string_scope.
Open Scope list_scope.
Open Scope nat_scope.

(* ---------- the transition table ---------- *)
(* a rule naming the current state beats a rule for any state; a None target or a missing
   rule means "no transition" *)
Theorem lookup_precedence d ev cur :
  next_state d ev cur =
  match tlookup (fd_trans d) ev (Some cur) with
  | Some (Some x) => Some x
  | Some None => None
  | None => match tlookup (fd_trans d) ev None with
            | Some (Some x) => Some x
            | _ => None
            end
  end.
Proof.
  unfold next_state. destruct (tlookup (fd_trans d) ev (Some cur)) as [[x|]|]; try reflexivity.
  destruct (tlookup (fd_trans d) ev None) as [[x|]|]; reflexivity.
Qed.

(* Goto bypasses the table and the conditions *)
Theorem goto_bypasses_table d i s x t :
  str_mem x (fd_states d) = true -> resolve_event d i s (EvGoto x) t = (s, Ok (Some x)).
Proof. intros H. simpl. now rewrite H. Qed.

Theorem goto_unknown_state d i s x t :
  str_mem x (fd_states d) = false -> resolve_event d i s (EvGoto x) t = (s, Err EValue).
Proof. intros H. simpl. now rewrite H. Qed.

Theorem unknown_event d i s ev t :
  str_mem ev (fd_events d) = false -> resolve_event d i s (EvName ev) t = (s, Err EUnknownEvent).
Proof. intros H. simpl. now rewrite H. Qed.

(* a table event: accepted exactly when a target exists and - on an initialised FSM - all
   conditions hold; conditions are not consulted otherwise *)
Theorem table_event_resolution d i s ev t cur :
  str_mem ev (fd_events d) = true -> f_state s = Some cur ->
  resolve_event d i s (EvName ev) t =
  match next_state d ev cur with
  | None => (st_log s (if i_on_notrans i then [LNoTrans ev cur] else []), Ok None)
  | Some nxt =>
      if initialized s
      then (st_log s (fst (cond_log i ev t)), Ok (if snd (cond_log i ev t) then Some nxt else None))
      else (s, Ok (Some nxt))
  end.
Proof.
  intros He Hs. simpl. rewrite He, Hs. simpl.
  destruct (next_state d ev cur); [|reflexivity].
  destruct (initialized s); [|reflexivity]. now destruct (cond_log i ev t).
Qed.

Theorem cond_all_must_hold i ev t :
  snd (cond_log i ev t) = true <->
  (forall r, assoc ev (i_cond_inst i) = Some r -> r = true) /\
  (forall r, assoc ev (i_cond_meth i) = Some r -> r = true).
Proof.
  unfold cond_log. simpl.
  destruct (assoc ev (i_cond_inst i)) as [a|], (assoc ev (i_cond_meth i)) as [b|]; simpl;
    split; intros H;
    try (apply andb_true_iff in H as [H1 H2]);
    try (split; intros r Hr; inversion Hr; subst; auto; fail);
    try (destruct H as [H1 H2]); try rewrite (H1 _ eq_refl); try rewrite (H2 _ eq_refl);
    try reflexivity; try (split; intros r Hr; discriminate).
Qed.

(* ---------- frames ---------- *)
Definition same_but_log (s s' : fstate) (l : list logent) : Prop :=
  f_state s' = f_state s /\ f_out s' = f_out s /\ f_next s' = f_next s /\
  f_aborted s' = f_aborted s /\ f_log s' = f_log s ++ l.

Definition pre_entry (e : logent) : bool :=
  match e with LCond _ _ _ | LNoTrans _ _ => true | _ => false end.

Lemma resolve_event_frame d i s e t s1 r :
  resolve_event d i s e t = (s1, r) ->
  exists l, same_but_log s s1 l /\ forallb pre_entry l = true.
Proof.
  unfold resolve_event. destruct e as [ev|x].
  - destruct (negb (str_mem ev (fd_events d))).
    { intros H; inversion H; subst. exists []. split; [|reflexivity].
      repeat split; auto. now rewrite app_nil_r. }
    destruct (f_state s) as [cur|] eqn:Hs.
    2:{ intros H; inversion H; subst. exists []. split; [|reflexivity].
        repeat split; auto. now rewrite app_nil_r. }
    destruct (next_state d ev cur) as [nxt|].
    + destruct (initialized s).
      * destruct (cond_log i ev t) as [l ok] eqn:Ec. intros H; inversion H; subst.
        exists l. split; [repeat split; reflexivity|].
        unfold cond_log in Ec. inversion Ec; subst.
        destruct (assoc ev (i_cond_inst i)), (assoc ev (i_cond_meth i)); reflexivity.
      * intros H; inversion H; subst. exists []. split; [|reflexivity].
        repeat split; auto. now rewrite app_nil_r.
    + intros H; inversion H; subst. eexists. split; [repeat split; reflexivity|].
      destruct (i_on_notrans i); reflexivity.
  - destruct (str_mem x (fd_states d)); intros H; inversion H; subst; exists [];
      (split; [repeat split; auto; now rewrite app_nil_r|reflexivity]).
Qed.

(* a rejected event changes nothing: state, output, pending transition and abort flag stay;
   the only trace is on_notrans (no transition) or the consulted conditions (vetoed) *)
Theorem reject_frame d i s e t s1 :
  resolve_event d i s e t = (s1, Ok None) ->
  fsm_event d i s e t = (s1, Ok false) /\
  exists l, same_but_log s s1 l /\ forallb pre_entry l = true.
Proof.
  intros H. split; [unfold fsm_event; now rewrite H|]. eapply resolve_event_frame; eassumption.
Qed.

Theorem unknown_event_frame d i s ev t :
  str_mem ev (fd_events d) = false -> fsm_event d i s (EvName ev) t = (s, Err EUnknownEvent).
Proof. intros H. unfold fsm_event. now rewrite (unknown_event d i s ev t H). Qed.

(* ---------- inside a chain of transitions nothing but callbacks is visible ---------- *)
Definition inner_entry (e : logent) : bool :=
  match e with LCond _ _ _ | LNoTrans _ _ | LEnter _ _ _ | LExit _ _ _ => true | _ => false end.

Definition log_ext (s s' : fstate) (P : logent -> bool) : Prop :=
  exists l, f_log s' = f_log s ++ l /\ forallb P l = true.

Lemma log_ext_refl s P : log_ext s s P.
Proof. exists []. split; [now rewrite app_nil_r|reflexivity]. Qed.
Lemma log_ext_trans a b c P : log_ext a b P -> log_ext b c P -> log_ext a c P.
Proof.
  intros (l1 & E1 & F1) (l2 & E2 & F2). exists (l1 ++ l2). split.
  - now rewrite E2, E1, app_assoc.
  - now rewrite forallb_app, F1, F2.
Qed.
Lemma log_ext_weaken s s' : log_ext s s' pre_entry -> log_ext s s' inner_entry.
Proof.
  intros (l & E & F). exists l. split; [exact E|].
  rewrite forallb_forall in *. intros x Hx. specialize (F x Hx). destruct x; auto; discriminate.
Qed.
Lemma log_ext_st_log s l P : forallb P l = true -> log_ext s (st_log s l) P.
Proof. intros H. exists l. split; [reflexivity|exact H]. Qed.

Lemma nested_event_log d i s e t s1 r :
  nested_event d i s e t = (s1, r) -> log_ext s s1 inner_entry.
Proof.
  unfold nested_event. destruct (resolve_event d i s e t) as [s0 [[nxt|]|k]] eqn:E;
    destruct (resolve_event_frame _ _ _ _ _ _ _ E) as (l & (_ & _ & _ & _ & Hl) & Hp);
    assert (X : log_ext s s0 inner_entry) by (apply log_ext_weaken; exists l; auto).
  - destruct (f_next s0); intros H; inversion H; subst; exact X.
  - intros H; inversion H; subst; exact X.
  - intros H; inversion H; subst; exact X.
Qed.

Lemma run_enter_script_log d i acts : forall s s1 r,
  run_enter_script d i s acts = (s1, r) -> log_ext s s1 inner_entry.
Proof.
  induction acts as [|a acts IH]; intros s s1 r; simpl.
  - intros H; inversion H; subst. apply log_ext_refl.
  - destruct a as [e t|].
    + destruct (nested_event d i s e t) as [s0 [b|k]] eqn:E;
        pose proof (nested_event_log _ _ _ _ _ _ _ E) as X.
      * intros H. eapply log_ext_trans; [exact X|eapply IH; exact H].
      * intros H; inversion H; subst. exact X.
    + intros H; inversion H; subst. apply log_ext_refl.
Qed.

Lemma run_enter_log d i s x vis s1 r :
  run_enter d i s x vis = (s1, r) -> log_ext s s1 inner_entry.
Proof.
  unfold run_enter.
  destruct (assoc x (i_enter_inst i)) as [a|].
  - destruct (run_enter_script d i (st_log s [LEnter x true vis]) a) as [s2 [k|]] eqn:E1;
      pose proof (run_enter_script_log _ _ _ _ _ _ E1) as X1;
      assert (X0 : log_ext s (st_log s [LEnter x true vis]) inner_entry)
        by (apply log_ext_st_log; reflexivity).
    + intros H; inversion H; subst. eapply log_ext_trans; eassumption.
    + destruct (assoc x (i_enter_meth i)) as [b|].
      * intros H. pose proof (run_enter_script_log _ _ _ _ _ _ H) as X2.
        eapply log_ext_trans; [exact X0|]. eapply log_ext_trans; [exact X1|].
        eapply log_ext_trans; [|exact X2]. apply log_ext_st_log; reflexivity.
      * intros H; inversion H; subst. eapply log_ext_trans; eassumption.
  - destruct (assoc x (i_enter_meth i)) as [b|].
    + intros H. pose proof (run_enter_script_log _ _ _ _ _ _ H) as X2.
      eapply log_ext_trans; [|exact X2]. apply log_ext_st_log; reflexivity.
    + intros H; inversion H; subst. apply log_ext_refl.
Qed.

Lemma run_exit_log i s x vis s1 r :
  run_exit i s x vis = (s1, r) -> log_ext s s1 inner_entry.
Proof.
  unfold run_exit.
  destruct (assoc x (i_exit_inst i)) as [[| |]|]; destruct (assoc x (i_exit_meth i)) as [[| |]|];
    intros H; inversion H; subst;
    first [apply log_ext_refl
          | unfold log_ext; simpl; eexists; split;
            [rewrite <- ?app_assoc; reflexivity|reflexivity]].
Qed.

(* chain_invisible: whatever happens inside the loop of chained transitions - intermediate
   states included - produces no output change, no on_enter and no on_exit events *)
Theorem chain_invisible n : forall d i s vis nxt s1 r,
  chain n d i s vis nxt = (s1, r) -> log_ext s s1 inner_entry.
Proof.
  induction n as [|k IH]; intros d i s vis nxt s1 r; simpl.
  - intros H; inversion H; subst. apply log_ext_refl.
  - destruct (run_enter d i (st_state s nxt) nxt vis) as [s2 [e|]] eqn:E1;
      pose proof (run_enter_log _ _ _ _ _ _ _ E1) as X1;
      assert (X1' : log_ext s s2 inner_entry) by exact X1.
    { intros H; inversion H; subst. exact X1'. }
    assert (CONT : forall s3, log_ext s s3 inner_entry ->
      match f_next s3 with
      | Some (t, nx) =>
          match k with
          | O => (s3, Some EHandler)
          | S _ => match run_exit i (st_next s3 None) nxt t with
                   | (s4, Some e) => (s4, Some e)
                   | (s4, None) => chain k d i s4 t nx
                   end
          end
      | None => (s3, None)
      end = (s1, r) -> log_ext s s1 inner_entry).
    { intros s3 X3. destruct (f_next s3) as [[t nx]|].
      - destruct k as [|k'].
        + intros H; inversion H; subst. exact X3.
        + destruct (run_exit i (st_next s3 None) nxt t) as [s4 [e|]] eqn:E4;
            pose proof (run_exit_log _ _ _ _ _ _ E4) as X4;
            assert (X4' : log_ext s s4 inner_entry) by (eapply log_ext_trans; [exact X3|exact X4]).
          * intros H; inversion H; subst. exact X4'.
          * intros H. eapply log_ext_trans; [exact X4'|]. eapply IH. exact H.
      - intros H; inversion H; subst. exact X3. }
    destruct (f_next s2) as [p|] eqn:En.
    + intros H. apply (CONT s2 X1'). now rewrite En.
    + destruct (assoc nxt (fd_timed d)) as [tev|].
      * destruct (assoc nxt (i_dur i)) as [[| | |]|].
        -- intros H; inversion H; subst. exact X1'.
        -- destruct (nested_event d i s2 tev None) as [s3 [b|e]] eqn:E3;
             pose proof (nested_event_log _ _ _ _ _ _ _ E3) as X3.
           ++ intros H. apply (CONT s3); [eapply log_ext_trans; eassumption|exact H].
           ++ intros H; inversion H; subst. eapply log_ext_trans; eassumption.
        -- intros H; inversion H; subst. exact X1'.
        -- intros H; inversion H; subst. exact X1'.
        -- intros H; inversion H; subst. exact X1'.
      * intros H; inversion H; subst. exact X1'.
Qed.

(* ---------- which event data an action sees ---------- *)
Lemma run_exit_tags i s x vis s1 r :
  run_exit i s x vis = (s1, r) ->
  exists l, f_log s1 = f_log s ++ l /\
            forallb (fun e => match e with LExit y _ t => String.eqb y x && tag_eqb t vis | _ => false end) l = true.
Proof.
  unfold run_exit.
  assert (T : tag_eqb vis vis = true) by (destruct vis; simpl; [apply Z.eqb_refl|reflexivity]).
  destruct (assoc x (i_exit_inst i)) as [[| |]|]; destruct (assoc x (i_exit_meth i)) as [[| |]|];
    intros H; inversion H; subst; simpl;
    first [ exists []; split; [now rewrite app_nil_r|reflexivity]
          | eexists; split; [rewrite <- ?app_assoc; reflexivity
                            |simpl; rewrite ?String.eqb_refl, ?T; reflexivity] ].
Qed.

(* the entry callbacks of a state log exactly the visible event data they were started with *)
Lemma run_enter_first_entry d i s x vis :
  (exists a, assoc x (i_enter_inst i) = Some a) ->
  exists s1 r l, run_enter d i s x vis = (s1, r) /\ f_log s1 = f_log s ++ LEnter x true vis :: l.
Proof.
  intros [a Ha]. unfold run_enter. rewrite Ha.
  destruct (run_enter_script d i (st_log s [LEnter x true vis]) a) as [s2 [k|]] eqn:E1;
    destruct (run_enter_script_log _ _ _ _ _ _ E1) as (l1 & L1 & _).
  - do 3 eexists. split; [reflexivity|]. rewrite L1. simpl. now rewrite <- app_assoc.
  - destruct (assoc x (i_enter_meth i)) as [b|].
    + destruct (run_enter_script d i (st_log s2 [LEnter x false vis]) b) as [s3 r3] eqn:E2.
      destruct (run_enter_script_log _ _ _ _ _ _ E2) as (l2 & L2 & _).
      do 3 eexists. split; [reflexivity|]. rewrite L2. simpl. rewrite L1. simpl.
      rewrite <- !app_assoc. reflexivity.
    + do 3 eexists. split; [reflexivity|]. rewrite L1. simpl. now rewrite <- app_assoc.
Qed.

(* one unfolding of the loop: a pending chained event makes ITS data the visible one for
   the exit action of the intermediate state and for everything that follows *)
Theorem chain_passes_chained_data k d i s vis nxt s2 t nx :
  run_enter d i (st_state s nxt) nxt vis = (s2, None) -> f_next s2 = Some (t, nx) ->
  chain (S (S k)) d i s vis nxt =
  match run_exit i (st_next s2 None) nxt t with
  | (s4, Some e) => (s4, Some e)
  | (s4, None) => chain (S k) d i s4 t nx
  end.
Proof. intros H1 H2. simpl. rewrite H1, H2. reflexivity. Qed.

(* more than one chained request while handling one event is an error *)
Theorem chain_twice_error d i s e t p :
  f_next s = Some p -> (exists nxt s1, resolve_event d i s e t = (s1, Ok (Some nxt)) ) ->
  exists s1, nested_event d i s e t = (s1, Err EHandler).
Proof.
  intros Hn (nxt & s1 & Hr). unfold nested_event. rewrite Hr.
  destruct (resolve_event_frame _ _ _ _ _ _ _ Hr) as (l & (_ & _ & Hnx & _) & _).
  rewrite Hnx, Hn. eexists. reflexivity.
Qed.

Theorem chain_limit_error d i s vis nxt : chain 0 d i s vis nxt = (s, Some EHandler).
Proof. reflexivity. Qed.

(* ---------- the documented order of an accepted, unchained transition ---------- *)
Theorem transition_log d i s e t s1 cur nxt s2 s3 k :
  initialized s = true -> f_state s = Some cur ->
  resolve_event d i s e t = (s1, Ok (Some nxt)) ->
  run_exit i s1 cur t = (s2, None) -> str_mem cur (i_on_exit_bad i) = false -> f_next s2 = None ->
  run_enter d i (st_state (st_log s2 (if str_mem cur (i_on_exit i) then [LOnExit cur (f_out s2)] else [])) nxt)
            nxt t = (s3, None) ->
  f_next s3 = None -> assoc nxt (fd_timed d) = None -> chain_limit d = S k ->
  f_state s3 = Some nxt ->
  exists final, fsm_event d i s e t = (final, Ok true) /\
    f_state final = Some nxt /\ f_out final = (if py_eq (f_out s3) (calc_out i s3 nxt) then f_out s3 else calc_out i s3 nxt) /\
    f_log final = f_log s3
      ++ (if py_eq (f_out s3) (calc_out i s3 nxt) then [] else [LOut (f_out s3) (calc_out i s3 nxt)])
      ++ (if str_mem nxt (i_on_enter i)
          then [LOnEnter nxt (if py_eq (f_out s3) (calc_out i s3 nxt) then f_out s3 else calc_out i s3 nxt)] else []).
Proof.
  intros Hi Hs Hr Hx Hbad Hn2 He Hn Ht Hl Hs3.
  destruct (resolve_event_frame _ _ _ _ _ _ _ Hr) as (l & (Hst & Hout & _ & _ & _) & _).
  unfold fsm_event. rewrite Hr.
  assert (Hi1 : initialized s1 = true) by (unfold initialized in *; now rewrite Hout).
  rewrite Hi1, Hst, Hs, Hx, Hbad. cbn [f_next st_log]. rewrite Hn2, Hl. simpl. rewrite He, Hn, Ht. rewrite Hs3.
  eexists. split; [reflexivity|].
  destruct (py_eq (f_out s3) (calc_out i s3 nxt)) eqn:Ep; simpl.
  - repeat split; try reflexivity; try exact Hs3.
  - repeat split; try reflexivity; try exact Hs3.
    destruct (str_mem nxt (i_on_enter i)); simpl; rewrite <- ?app_assoc; reflexivity.
Qed.
