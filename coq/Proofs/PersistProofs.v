From Verif Require Import Values Persist.
Open Scope string_scope.
Open Scope list_scope.
Open Scope Z_scope.

Lemma sget_sset_same s k v : sget (sset s k v) k = Some v.
Proof. unfold sset. simpl. now rewrite String.eqb_refl. Qed.

Lemma sget_sdel_other s k k2 : k2 <> k -> sget (sdel s k) k2 = sget s k2.
Proof.
  intros Hne. unfold sdel. induction s as [|[k' v] r IH]; simpl; [reflexivity|].
  destruct (String.eqb k' k) eqn:E; simpl.
  - apply String.eqb_eq in E. subst k'. apply String.eqb_neq in Hne. now rewrite Hne.
  - destruct (String.eqb k2 k'); [reflexivity|exact IH].
Qed.

Lemma sget_sset_other s k v k2 : k2 <> k -> sget (sset s k v) k2 = sget s k2.
Proof.
  intros Hne. unfold sset. simpl. apply String.eqb_neq in Hne as Hb. rewrite Hb.
  now apply sget_sdel_other.
Qed.

(* ---------- saving after events ---------- *)
(* a successfully handled event of a persistent sync_state block: the storage holds exactly
   the new state under the block's key and nothing else changes *)
Theorem event_saves cfgs s blk after c :
  nth_error cfgs blk = Some c -> nth_error (ps_persist s) blk = Some true -> p_sync c = true ->
  let s' := pstep_do cfgs s (PEvent blk true after) in
  sget (ps_store s') (p_key c) = Some after /\
  (forall k, k <> p_key c -> sget (ps_store s') k = sget (ps_store s) k) /\
  ps_stop_ts s' = ps_stop_ts s /\ ps_persist s' = ps_persist s.
Proof.
  intros Hc Hp Hs. simpl. rewrite Hc, Hp, Hs. simpl. repeat split.
  - apply sget_sset_same.
  - intros k Hk. now apply sget_sset_other.
Qed.

Theorem no_sync_no_write cfgs s blk after c ok :
  nth_error cfgs blk = Some c -> p_sync c = false -> ok = true ->
  pstep_do cfgs s (PEvent blk ok after) = s.
Proof.
  intros Hc Hs ->. simpl. rewrite Hc, Hs. destruct (nth_error (ps_persist s) blk) as [[|]|]; reflexivity.
Qed.

(* once a handler of the block has failed nothing is written for it any more *)
Theorem no_write_after_handler_error cfgs s blk ok after :
  nth_error (ps_persist s) blk = Some false -> pstep_do cfgs s (PEvent blk ok after) = s.
Proof. intros H. simpl. rewrite H. now destruct (nth_error cfgs blk). Qed.

Lemma nth_error_set_nth {A} (l : list A) n v : (n < List.length l)%nat ->
  nth_error (set_nth l n v) n = Some v.
Proof.
  revert n. induction l as [|x r IH]; intros n H; simpl in *; [lia|].
  destruct n; simpl; [reflexivity|]. apply IH. lia.
Qed.

Theorem handler_error_switches_off cfgs s blk after c :
  nth_error cfgs blk = Some c -> nth_error (ps_persist s) blk = Some true ->
  let s' := pstep_do cfgs s (PEvent blk false after) in
  nth_error (ps_persist s') blk = Some false /\ ps_store s' = ps_store s.
Proof.
  intros Hc Hp. simpl. rewrite Hc, Hp. simpl. split; [|reflexivity].
  apply nth_error_set_nth. apply nth_error_Some. congruence.
Qed.

Lemma save_all_skip cfgs : forall on states st k,
  (forall i c, nth_error cfgs i = Some c -> p_key c = k -> nth_error on i <> Some true) ->
  sget (save_all cfgs on states st) k = sget st k.
Proof.
  induction cfgs as [|c cr IH]; intros on states st k H; simpl; [reflexivity|].
  destruct on as [|b br]; [reflexivity|]. destruct states as [|x xr]; [reflexivity|].
  rewrite IH.
  - destruct b; [|reflexivity]. apply sget_sset_other. intros E.
    apply (H 0%nat c eq_refl (eq_sym E)). reflexivity.
  - intros i c' Hi Hk. exact (H (S i) c' Hi Hk).
Qed.

(* at a regular stop: the time stamp is written ... *)
Theorem stop_writes_timestamp cfgs s t states :
  ps_stop_ts (pstep_do cfgs s (PStop t states)) = Some t.
Proof. reflexivity. Qed.

(* ... and a block whose handler failed (or which is not persistent) is not saved *)
Theorem stop_skips_disabled cfgs s t states k :
  (forall i c, nth_error cfgs i = Some c -> p_key c = k -> nth_error (ps_persist s) i <> Some true) ->
  sget (ps_store (pstep_do cfgs s (PStop t states))) k = sget (ps_store s) k.
Proof. intros H. simpl. now apply save_all_skip. Qed.

Theorem failed_start_writes_nothing cfgs s : pstep_do cfgs s PFailedStart = s.
Proof. reflexivity. Qed.

(* entries of blocks that no longer exist are removed at start, reserved entries are kept *)
Theorem check_data_spec cfgs s k :
  In k (ps_extra (check_data cfgs s)) <-> In k (ps_extra s) /\ is_reserved k = true.
Proof. simpl. apply filter_In. Qed.

Theorem check_data_removes_unused cfgs s k :
  (forall c, In c cfgs -> p_persistent c = true -> p_key c <> k) ->
  sget (ps_store (check_data cfgs s)) k = None.
Proof.
  intros H. simpl. induction (ps_store s) as [|[k' v] r IH]; simpl; [reflexivity|].
  destruct (existsb (String.eqb k') (map p_key (filter p_persistent cfgs))) eqn:E; simpl; [|exact IH].
  destruct (String.eqb k k') eqn:Ek; [|exact IH].
  apply String.eqb_eq in Ek. subst k'. exfalso.
  apply existsb_exists in E as (x & Hx & Ex). apply String.eqb_eq in Ex. subst x.
  apply in_map_iff in Hx as (c & Hc & Hin). apply filter_In in Hin as [Hin Hp].
  exact (H c Hin Hp Hc).
Qed.

(* ---------- the restore decision ---------- *)
Theorem expiration_rules c ts now st :
  p_persistent c = true ->
  (p_exp c = None -> b_expiry st = None -> restore_decision c ts now (Some st) = Some st) /\
  (forall e, p_exp c = Some e -> e <= 0 -> restore_decision c ts now (Some st) = None) /\
  (forall e t0, p_exp c = Some e -> 0 < e -> ts = Some t0 -> t0 + e < now ->
                restore_decision c ts now (Some st) = None) /\
  (forall e, p_exp c = Some e -> 0 < e -> ts = None -> b_expiry st = None ->
             restore_decision c ts now (Some st) = Some st) /\
  (forall e t0, p_exp c = Some e -> 0 < e -> ts = Some t0 -> now <= t0 + e -> b_expiry st = None ->
                restore_decision c ts now (Some st) = Some st).
Proof.
  intros Hp. unfold restore_decision. rewrite Hp. simpl. repeat split.
  - intros -> ->. reflexivity.
  - intros e -> He. apply Z.leb_le in He. now rewrite He.
  - intros e t0 -> He -> Hlt. apply Z.leb_gt in He. rewrite He. apply Z.ltb_lt in Hlt. now rewrite Hlt.
  - intros e -> He -> ->. apply Z.leb_gt in He. now rewrite He.
  - intros e t0 -> He -> Hle ->. apply Z.leb_gt in He. rewrite He.
    assert (E : (t0 + e <? now) = false) by (apply Z.ltb_ge; lia). now rewrite E.
Qed.

Theorem nothing_saved_nothing_restored c ts now : restore_decision c ts now None = None.
Proof. unfold restore_decision. now destruct (p_persistent c). Qed.

(* an FSM state whose timer ran out during the downtime is discarded; otherwise it is restored
   as it was - same state, same ABSOLUTE expiration time *)
Theorem timer_rules c ts now repr w :
  p_persistent c = true -> p_exp c = None ->
  (w <= now -> restore_decision c ts now (Some {| b_repr := repr; b_expiry := Some w |}) = None) /\
  (now < w -> restore_decision c ts now (Some {| b_repr := repr; b_expiry := Some w |})
              = Some {| b_repr := repr; b_expiry := Some w |}).
Proof.
  intros Hp He. unfold restore_decision. rewrite Hp, He. simpl. split; intros H.
  - assert (E : (w - now <=? 0) = true) by (apply Z.leb_le; lia). now rewrite E.
  - assert (E : (w - now <=? 0) = false) by (apply Z.leb_gt; lia). now rewrite E.
Qed.

(* crash and restart: for every history prefix ending with a successfully handled event of a
   persistent sync_state block, restarting from the storage as it is then gives the block the
   state it had - unless the expiration rules or the timer say otherwise *)
Theorem crash_restart cfgs s blk after c ts now :
  nth_error cfgs blk = Some c -> nth_error (ps_persist s) blk = Some true ->
  p_sync c = true -> p_persistent c = true -> p_exp c = None ->
  (match b_expiry after with Some w => now < w | None => True end) ->
  restore_decision c ts now (sget (ps_store (pstep_do cfgs s (PEvent blk true after))) (p_key c))
  = Some after.
Proof.
  intros Hc Hp Hs Hper He Hw.
  destruct (event_saves cfgs s blk after c Hc Hp Hs) as (E & _). cbv zeta in E. rewrite E.
  unfold restore_decision. rewrite Hper, He. simpl.
  destruct (b_expiry after) as [w|] eqn:Ew; [|reflexivity].
  assert (X : (w - now <=? 0) = false) by (apply Z.leb_gt; lia). now rewrite X.
Qed.

(* ---------- link ---------- *)
Lemma bst_eqb_sym a b : bst_eqb a b = true -> bst_eqb b a = true.
Proof.
  unfold bst_eqb. intros H. apply andb_true_iff in H as [H1 H2]. apply andb_true_iff. split.
  - apply String.eqb_eq in H1. rewrite H1. apply String.eqb_refl.
  - destruct (b_expiry a), (b_expiry b); try discriminate; try reflexivity.
    apply Z.eqb_eq in H2. subst. apply Z.eqb_refl.
Qed.

Lemma storage_eqb_keys_in keys a b k :
  storage_eqb_keys keys a b = true -> In k keys ->
  match sget a k, sget b k with
  | Some x, Some y => bst_eqb x y = true
  | None, None => True
  | _, _ => False
  end.
Proof.
  induction keys as [|k0 r IH]; simpl; [intros _ []|].
  intros H [->|Hin]; apply andb_true_iff in H as [H1 H2].
  - destruct (sget a k), (sget b k); try discriminate; auto.
  - now apply IH.
Qed.

Lemma psteps_monitor cfgs xs : forall s,
  psteps_agree cfgs s xs = true -> sync_monitor cfgs (ps_persist s) xs = true.
Proof.
  induction xs as [|[x o] r IH]; intros s; simpl; [reflexivity|].
  intros H. apply andb_true_iff in H as [Ha Hr]. specialize (IH _ Hr).
  destruct x as [states|blk ok after|t states|].
  - exact IH.
  - simpl in *. destruct (nth_error cfgs blk) as [c|] eqn:Hc; [|exact IH].
    destruct (nth_error (ps_persist s) blk) as [[|]|] eqn:Hp; try exact IH.
    destruct ok.
    + destruct (p_sync c) eqn:Hs.
      * simpl in IH. rewrite IH, andb_true_r.
        unfold snap_agree in Ha. apply andb_true_iff in Ha as [Ha _]. apply andb_true_iff in Ha as [Ha _].
        simpl in Ha.
        assert (Hin : In (p_key c) (map p_key cfgs ++ map fst (sn_store o))).
        { apply in_or_app. left. apply in_map. eapply nth_error_In; eassumption. }
        pose proof (storage_eqb_keys_in _ _ _ _ Ha Hin) as G.
        rewrite sget_sset_same in G. destruct (sget (sn_store o) (p_key c)); [|destruct G].
        now apply bst_eqb_sym.
      * exact IH.
    + exact IH.
  - simpl in *. rewrite IH, andb_true_r.
    unfold snap_agree in Ha. apply andb_true_iff in Ha as [Ha _]. apply andb_true_iff in Ha as [_ Ha].
    simpl in Ha. destruct (sn_stop_ts o); simpl in *; [|discriminate].
    apply Z.eqb_eq in Ha. subst. apply Z.eqb_refl.
  - exact IH.
Qed.

Lemma sget_filter_key (f : string -> bool) s k :
  sget (filter (fun kv => f (fst kv)) s) k = if f k then sget s k else None.
Proof.
  induction s as [|[k' v] r IH]; simpl; [now destruct (f k)|].
  destruct (f k') eqn:E; simpl.
  - destruct (String.eqb k k') eqn:Ek; [|exact IH].
    apply String.eqb_eq in Ek. subst. now rewrite E.
  - rewrite IH. destruct (String.eqb k k') eqn:Ek; [|reflexivity].
    apply String.eqb_eq in Ek. subst. now rewrite E.
Qed.

Lemma failed_start_link k :
  pcase_agree k = true -> failed_start_monitor k = true.
Proof.
  unfold pcase_agree, failed_start_monitor. intros H. apply andb_true_iff in H as [H _].
  destruct (pc_steps k) as [|[x o] [|y r]]; try reflexivity; [|destruct x; reflexivity].
  destruct x; try reflexivity.
  simpl in H. rewrite andb_true_r in H. unfold snap_agree in H.
  apply andb_true_iff in H as [H He]. apply andb_true_iff in H as [Hs Ht]. simpl in Hs, Ht.
  unfold nothing_written. apply andb_true_iff. split; [exact Ht|].
  apply forallb_forall. intros key Hin.
  set (pkeys := map p_key (filter p_persistent (pc_cfgs k))) in *.
  assert (Hin2 : In key (map p_key (pc_cfgs k) ++ map fst (sn_store o))).
  { apply in_app_or in Hin as [Hp|Ho]; apply in_or_app; [left|right; exact Ho].
    unfold pkeys in Hp. apply in_map_iff in Hp as (c & <- & Hc). apply filter_In in Hc as [Hc _].
    now apply in_map. }
  pose proof (storage_eqb_keys_in _ _ _ _ Hs Hin2) as G.
  change (filter (fun kv : string * bst => existsb (String.eqb (fst kv)) pkeys) (sn_store (pc_init k)))
    with (filter (fun kv => (fun x => existsb (String.eqb x) pkeys) (fst kv)) (sn_store (pc_init k))) in G.
  rewrite sget_filter_key in G.
  destruct (existsb (String.eqb key) pkeys) eqn:Ep.
  - destruct (sget (sn_store (pc_init k)) key), (sget (sn_store o) key); auto; destruct G.
  - destruct (sget (sn_store o) key) eqn:Eo; [destruct G|].
    destruct (sget (sn_store (pc_init k)) key); reflexivity.
Qed.

Theorem persist_agree_implies_monitor k : pcase_agree k = true -> pcase_monitor k = true.
Proof.
  intros H0. unfold pcase_monitor. rewrite (failed_start_link k H0), andb_true_r.
  unfold pcase_agree in H0. apply andb_true_iff in H0 as [H _].
  apply psteps_monitor in H. exact H.
Qed.
