From Verif Require Import Values Validate.
Open Scope Z_scope.

Lemma validate_decomp V v :
  validate V v = if allowed_ok V v && check_ok V v then schema_res V v else None.
Proof.
  unfold validate, allowed_ok, check_ok, schema_res.
  destruct (v_allowed V) as [a|]; destruct (v_check V) as [c|];
    try destruct (a v); try destruct (c v); reflexivity.
Qed.

(* accepted iff all given validators accept; the result is schema(value) or the value *)
Theorem put_accept_iff V out v :
  fst (input_put V out v) = true <->
  (allowed_ok V v = true /\ check_ok V v = true /\ exists v', schema_res V v = Some v').
Proof.
  unfold input_put. rewrite validate_decomp.
  destruct (allowed_ok V v), (check_ok V v); simpl;
    try (split; [discriminate | intros (H1 & H2 & _); discriminate]).
  destruct (schema_res V v) as [v'|]; simpl; split; intros H; try discriminate; auto.
  - repeat split; eauto.
  - destruct H as (_ & _ & v' & Hv). discriminate.
Qed.

Theorem put_accept_output V out v v' :
  allowed_ok V v = true -> check_ok V v = true -> schema_res V v = Some v' ->
  input_put V out v = (true, v').
Proof. intros Ha Hc Hs. unfold input_put. now rewrite validate_decomp, Ha, Hc, Hs. Qed.

Theorem put_reject_frame V out v :
  fst (input_put V out v) = false -> input_put V out v = (false, out).
Proof. unfold input_put. destruct (validate V v); simpl; [discriminate|reflexivity]. Qed.

(* the schema is never consulted for a value that allowed/check reject *)
Theorem schema_last V v :
  allowed_ok V v && check_ok V v = false -> validate V v = None.
Proof. intros H. now rewrite validate_decomp, H. Qed.

Theorem schema_no_validators v :
  validate {| v_allowed := None; v_check := None; v_schema := None |} v = Some v.
Proof. reflexivity. Qed.

(* the output after ANY put sequence is the result of the last accepted put *)
Theorem input_final_last_accepted V vs : forall out,
  input_final V out vs = match last_accepted V vs with Some o => o | None => out end.
Proof.
  induction vs as [|v r IH]; intros out; simpl; [reflexivity|].
  unfold input_final in *. simpl. rewrite IH.
  destruct (last_accepted V r); [reflexivity|].
  unfold input_put. destruct (validate V v); reflexivity.
Qed.

Lemma last_accepted_in V vs o :
  last_accepted V vs = Some o -> exists v, In v vs /\ validate V v = Some o.
Proof.
  induction vs as [|v r IH]; simpl; [discriminate|].
  destruct (last_accepted V r) as [o'|] eqn:E.
  - intros H. inversion H; subst. destruct (IH eq_refl) as (w & Hw & Hv). exists w. auto.
  - intros H. exists v. auto.
Qed.

(* invariant: the output is the start value or schema(v) of a value v that was put and that
   passes every validator *)
Theorem output_always_accepted V vs out :
  input_final V out vs = out \/
  exists v, In v vs /\ allowed_ok V v = true /\ check_ok V v = true /\
            schema_res V v = Some (input_final V out vs).
Proof.
  rewrite input_final_last_accepted.
  destruct (last_accepted V vs) as [o|] eqn:E; [right|left; reflexivity].
  destruct (last_accepted_in _ _ _ E) as (v & Hin & Hv). exists v. split; [exact Hin|].
  rewrite validate_decomp in Hv.
  destruct (allowed_ok V v), (check_ok V v); simpl in Hv; try discriminate. auto.
Qed.

Theorem initdef_refused V i :
  i <> VUndef -> validate V i = None -> input_create V i = Err EValue.
Proof. intros Hn Hv. destruct i; try congruence; simpl; now rewrite Hv. Qed.

Theorem initdef_accepted V i : validate V i <> None -> input_create V i = Ok tt.
Proof. intros H. destruct i; simpl; try reflexivity; destruct (validate V _); congruence. Qed.

(* a restored value goes through the same validation as a put *)
Theorem restore_validated V i r :
  validate V r = None -> input_start V i (Some r) = input_start V i None.
Proof. intros H. unfold input_start, input_put. now rewrite H. Qed.

Theorem restore_accepted V i r r' :
  validate V r = Some r' -> r' <> VUndef -> input_start V i (Some r) = r'.
Proof. intros H Hn. unfold input_start, input_put. rewrite H. simpl. destruct r'; congruence. Qed.

Theorem expired_refused V i e : validate V e = None -> iexp_create V i e = Err EValue.
Proof. intros H. unfold iexp_create. now rewrite H. Qed.

Theorem iexp_put_spec V s v :
  match validate V v with
  | Some v' => iexp_put V s v = (true, IValid v')
  | None => iexp_put V s v = (false, s)
  end.
Proof. unfold iexp_put. destruct (validate V v); reflexivity. Qed.

Theorem iexp_restore_validated V s0 r :
  (validate V r = None -> iexp_start V s0 (Some r) = s0) /\
  (forall r', validate V r = Some r' -> iexp_start V s0 (Some r) = IValid r').
Proof. unfold iexp_start. split; [intros ->; reflexivity|intros r' ->; reflexivity]. Qed.

(* ---- link: agreement with the model implies the monitor ---- *)
Lemma run_monitor V vs : forall obs s prev,
  py_eq s prev = true ->
  obs_eqb (input_run V s vs) obs = true -> imonitor V prev vs obs = true.
Proof.
  induction vs as [|v r IH]; intros obs s prev Hs.
  - destruct obs; simpl; [reflexivity|discriminate].
  - simpl. unfold input_put. rewrite validate_decomp.
    destruct obs as [|[b o] r']; simpl.
    { destruct (allowed_ok V v && check_ok V v); [destruct (schema_res V v)|]; discriminate. }
    destruct (allowed_ok V v && check_ok V v); simpl.
    + destruct (schema_res V v) as [v'|]; simpl; intros H;
        apply andb_true_iff in H as [H H3]; apply andb_true_iff in H as [H1 H2];
        destruct b; simpl in H1; try discriminate; simpl.
      * rewrite py_eq_sym, H2. simpl. eapply IH; [exact H2|exact H3].
      * assert (Ho : py_eq o prev = true)
          by (eapply py_eq_trans; [rewrite py_eq_sym; exact H2|exact Hs]).
        rewrite Ho. simpl. eapply IH; [exact H2|exact H3].
    + intros H; apply andb_true_iff in H as [H H3]; apply andb_true_iff in H as [H1 H2];
        destruct b; simpl in H1; try discriminate; simpl.
      assert (Ho : py_eq o prev = true)
        by (eapply py_eq_trans; [rewrite py_eq_sym; exact H2|exact Hs]).
      rewrite Ho. simpl. eapply IH; [exact H2|exact H3].
Qed.

Theorem input_agree_implies_monitor k : icase_agree k = true -> icase_monitor k = true.
Proof.
  unfold icase_agree, icase_monitor. set (V := mkV (i_tables k)).
  unfold input_create. 
  destruct (i_initdef k) eqn:Ei; destruct (i_created k) eqn:Ec; try discriminate;
    try (rewrite validate_decomp;
         destruct (allowed_ok V _ && check_ok V _) eqn:Eac; simpl;
         [destruct (schema_res V _) eqn:Es; simpl|]; try discriminate; intros H;
         try reflexivity);
    try (intros H);
    try (apply andb_true_iff in H as [H1 H2]; simpl;
         eapply run_monitor; [exact H1|exact H2]).
Qed.
