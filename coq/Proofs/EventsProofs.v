From Verif Require Import Values Filters Events.
Open Scope string_scope.
Open Scope list_scope.

Lemma filter_map_seq_out (f : nat -> emission) (P : emission -> bool) n :
  (forall i, P (f i) = false) -> filter P (map f (seq 0 n)) = [].
Proof.
  intros H. generalize 0%nat. induction n as [|n IH]; intros s; simpl; [reflexivity|].
  now rewrite H, IH.
Qed.

Lemma filter_is_out_seq i nout prev v : (i < nout)%nat ->
  filter (is_out i) (map (fun i0 => {| em_kind := EOut i0; em_prev := prev; em_val := v |}) (seq 0 nout))
  = [{| em_kind := EOut i; em_prev := prev; em_val := v |}].
Proof.
  intros Hi.
  assert (G : forall s n, (s <= i < s + n)%nat ->
    filter (is_out i) (map (fun i0 => {| em_kind := EOut i0; em_prev := prev; em_val := v |}) (seq s n))
    = [{| em_kind := EOut i; em_prev := prev; em_val := v |}]).
  { intros s n. revert s. induction n as [|n IH]; intros s Hs; [lia|]. simpl.
    unfold is_out at 1. simpl. destruct (Nat.eqb_spec i s) as [->|Hne].
    - f_equal. clear IH Hs.
      assert (Z : forall m t, (s < t)%nat ->
        filter (is_out s) (map (fun i0 => {| em_kind := EOut i0; em_prev := prev; em_val := v |}) (seq t m)) = []).
      { induction m as [|m IHm]; intros t Ht; simpl; [reflexivity|].
        unfold is_out at 1. simpl. destruct (Nat.eqb_spec s t); [lia|]. apply IHm. lia. }
      apply Z. lia.
    - apply IH. lia. }
  apply G. lia.
Qed.

Lemma filter_is_every_seq j nevery prev v : (j < nevery)%nat ->
  filter (is_every j) (map (fun j0 => {| em_kind := EEvery j0; em_prev := prev; em_val := v |}) (seq 0 nevery))
  = [{| em_kind := EEvery j; em_prev := prev; em_val := v |}].
Proof.
  intros Hj.
  assert (G : forall s n, (s <= j < s + n)%nat ->
    filter (is_every j) (map (fun j0 => {| em_kind := EEvery j0; em_prev := prev; em_val := v |}) (seq s n))
    = [{| em_kind := EEvery j; em_prev := prev; em_val := v |}]).
  { intros s n. revert s. induction n as [|n IH]; intros s Hs; [lia|]. simpl.
    unfold is_every at 1. simpl. destruct (Nat.eqb_spec j s) as [->|Hne].
    - f_equal. clear IH Hs.
      assert (Z : forall m t, (s < t)%nat ->
        filter (is_every s) (map (fun j0 => {| em_kind := EEvery j0; em_prev := prev; em_val := v |}) (seq t m)) = []).
      { induction m as [|m IHm]; intros t Ht; simpl; [reflexivity|].
        unfold is_every at 1. simpl. destruct (Nat.eqb_spec s t); [lia|]. apply IHm. lia. }
      apply Z. lia.
    - apply IH. lia. }
  apply G. lia.
Qed.

(* on_output event i: over the whole history exactly the successive changes, in order *)
Theorem on_output_values nout nevery i vs : forall out, (i < nout)%nat ->
  map pv (filter (is_out i) (List.concat (history nout nevery out vs))) = changes out vs.
Proof.
  induction vs as [|v r IH]; intros out Hi; simpl; [reflexivity|].
  unfold set_output. destruct (py_eq out v) eqn:E; simpl.
  - rewrite filter_app, filter_map_seq_out by reflexivity. simpl. now apply IH.
  - rewrite !filter_app, filter_is_out_seq by exact Hi.
    rewrite filter_map_seq_out by reflexivity. simpl. f_equal. now apply IH.
Qed.

(* on_every_output event j: exactly one event per assignment, changed or not *)
Theorem every_output_values nout nevery j vs : forall out, (j < nevery)%nat ->
  map pv (filter (is_every j) (List.concat (history nout nevery out vs))) = every_pairs out vs.
Proof.
  induction vs as [|v r IH]; intros out Hj; simpl; [reflexivity|].
  unfold set_output. destruct (py_eq out v) eqn:E; simpl.
  - rewrite filter_app, filter_is_every_seq by exact Hj. simpl. f_equal. now apply IH.
  - rewrite !filter_app, filter_map_seq_out by reflexivity.
    rewrite filter_is_every_seq by exact Hj. simpl. f_equal. now apply IH.
Qed.

Theorem every_output_count out vs : List.length (every_pairs out vs) = List.length vs.
Proof. revert out. induction vs as [|v r IH]; intros out; simpl; [reflexivity|]. now rewrite IH. Qed.

(* the chain: first previous is the initial output; each later previous IS the preceding value;
   previous and value of one event never compare equal *)
Inductive chained : val -> list (val * val) -> Prop :=
| ch_nil o : chained o []
| ch_cons o v r : py_eq o v = false -> chained v r -> chained o ((o, v) :: r).

Theorem on_output_chain vs : forall out, chained out (changes out vs).
Proof.
  induction vs as [|v r IH]; intros out; simpl; [constructor|].
  destruct (py_eq out v) eqn:E; [apply IH|]. constructor; [exact E|apply IH].
Qed.

(* the values of the change events are the assigned values minus those equal to the value
   currently stored; the last one is the final output *)
Theorem changes_final vs : forall out,
  final_output out vs = match rev (changes out vs) with (_, v) :: _ => v | [] => out end.
Proof.
  induction vs as [|v r IH]; intros out; simpl; [reflexivity|].
  unfold final_output in *. simpl. destruct (py_eq out v) eqn:E; [apply IH|].
  rewrite IH. simpl. destruct (rev (changes v r)) as [|[p w] l]; reflexivity.
Qed.

(* order inside one assignment: all on_output events in configuration order, then all
   on_every_output events in configuration order, each exactly once *)
Theorem emission_order nout nevery out v :
  py_eq out v = false ->
  map em_kind (snd (set_output nout nevery out v)) = map EOut (seq 0 nout) ++ map EEvery (seq 0 nevery).
Proof.
  intros E. unfold set_output. rewrite E. simpl. rewrite map_app, !map_map. reflexivity.
Qed.

Theorem emission_unchanged nout nevery out v :
  py_eq out v = true ->
  set_output nout nevery out v =
  (out, map (fun j => {| em_kind := EEvery j; em_prev := out; em_val := v |}) (seq 0 nevery)).
Proof. intros E. unfold set_output. now rewrite E. Qed.

(* every emission carries the output before the assignment and the assigned value *)
Theorem emission_data nout nevery out v e :
  In e (snd (set_output nout nevery out v)) -> em_prev e = out /\ em_val e = v.
Proof.
  unfold set_output. destruct (py_eq out v); simpl; rewrite ?in_app_iff, !in_map_iff;
    intros H; repeat destruct H as [H|H]; destruct H as (x & <- & _); auto.
Qed.

(* the destination receives exactly what left the filters; a veto delivers nothing *)
Theorem delivery_is_pipeline_result src prev v e :
  deliver_one src prev v e =
  match send src (map run_filt (ev_filters e)) (base_data prev v) with
  | Ok (Some d) => [(ev_dest e, d)] | _ => [] end.
Proof. reflexivity. Qed.

Theorem unfiltered_delivery src prev v dest :
  deliver_one src prev v {| ev_filters := []; ev_dest := dest |} =
  [(dest, [("trigger", VStr "output"); ("previous", prev); ("value", v); ("source", VStr src)])].
Proof. reflexivity. Qed.
