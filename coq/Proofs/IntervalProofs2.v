(* Further consequences of the membership specification (C13): time-of-day ranges (a,b) and (b,a)
   partition the day.  Proofs only. *)
From Verif Require Import Values Interval IntervalParse IntervalProofs.
From Coq Require Import ZArith Lia ZifyBool Bool.
Open Scope Z_scope.

Lemma mod_diff D p q : 0 < D -> 0 <= p < D -> 0 <= q < D ->
  (p - q) mod D = if p <? q then p - q + D else p - q.
Proof.
  intros HD Hp Hq. destruct (p <? q) eqn:E.
  - rewrite <- (Z.mod_add (p - q) 1 D) by lia. rewrite Z.mul_1_l. apply Z.mod_small; lia.
  - apply Z.mod_small; lia.
Qed.

Lemma cyc_open_complement D a b x : 0 < D -> 0 <= a < D -> 0 <= b < D -> 0 <= x < D -> a <> b ->
  cyc_open D a b x = negb (cyc_open D b a x).
Proof.
  intros HD Ha Hb Hx Hab. unfold cyc_open.
  destruct (a =? b) eqn:E1; [lia|]. destruct (b =? a) eqn:E2; [lia|].
  rewrite !mod_diff by assumption.
  destruct (x <? a) eqn:C1; destruct (x <? b) eqn:C2; destruct (b <? a) eqn:C3; destruct (a <? b) eqn:C4; lia.
Qed.

Theorem time_ranges_partition_day a b x :
  valid_time a = true -> valid_time b = true -> valid_time x = true -> time_key a <> time_key b ->
  in_range_k KTime (a, b) x = negb (in_range_k KTime (b, a) x).
Proof.
  intros Va Vb Vx Hne.
  rewrite (time_contains_spec a b x Va Vb Vx), (time_contains_spec b a x Vb Va Vx).
  apply cyc_open_complement; try (apply time_key_range; assumption); [unfold day_us; lia|exact Hne].
Qed.
