From Verif Require Import Values ExtEvent.
Open Scope string_scope.

Lemma prefix_app p s : String.prefix p (p ++ s) = true.
Proof.
  induction p as [|c p IH]; simpl; [now destruct s|].
  destruct (Ascii.ascii_dec c c) as [_|N]; [exact IH|congruence].
Qed.

Lemma add_ext_prefix_has s : has_ext_prefix (add_ext_prefix s) = true.
Proof.
  unfold add_ext_prefix. destruct (has_ext_prefix s) eqn:E; [exact E|].
  unfold has_ext_prefix. apply prefix_app.
Qed.

Theorem ready_phases p : is_ready p = true <-> (p = PInitialising \/ p = PRunning).
Proof. destruct p; simpl; split; intros H; try discriminate; auto; destruct H; discriminate. Qed.

Theorem send_iff_ready p dflt v src items :
  (exists d, ext_send p dflt v src items = Delivered d) <-> (is_ready p = true /\ src <> SrcOther).
Proof.
  unfold ext_send. destruct (is_ready p); split.
  - destruct src; intros [d H]; try discriminate; split; auto; discriminate.
  - intros [_ Hs]. destruct src; try congruence; eexists; reflexivity.
  - intros [d H]. discriminate.
  - intros [H _]. discriminate.
Qed.

Theorem not_ready_refused p dflt v src items :
  is_ready p = false -> ext_send p dflt v src items = Refused EInvalidState.
Proof. unfold ext_send. now intros ->. Qed.

Theorem delivered_source_prefixed p dflt v src items d :
  ext_send p dflt v src items = Delivered d ->
  exists s, dget d "source" = Some (VStr s) /\ has_ext_prefix s = true.
Proof.
  unfold ext_send. destruct (is_ready p); [|discriminate].
  destruct src; intros H; inversion H; subst; clear H.
  - eexists. split; [apply dget_dset_same|apply add_ext_prefix_has].
  - eexists. split; [apply dget_dset_same|apply add_ext_prefix_has].
Qed.

Theorem delivered_source_kept p dflt v s items d :
  ext_send p dflt v (SrcStr s) items = Delivered d -> has_ext_prefix s = true ->
  dget d "source" = Some (VStr s).
Proof.
  unfold ext_send. destruct (is_ready p); [|discriminate]. intros H Hp. inversion H.
  unfold add_ext_prefix. rewrite Hp. apply dget_dset_same.
Qed.

Theorem value_item p dflt x src items d :
  ext_send p dflt (Some x) src items = Delivered d -> dget d "value" = Some x.
Proof.
  unfold ext_send. destruct (is_ready p); [|discriminate].
  destruct src; intros H; inversion H; subst; clear H;
    (rewrite dget_dset_other by discriminate); apply dget_dset_same.
Qed.

Theorem other_items_unchanged p dflt v src items d k :
  ext_send p dflt v src items = Delivered d -> k <> "source" ->
  (k <> "value" \/ v = None) -> dget d k = dget items k.
Proof.
  unfold ext_send. destruct (is_ready p); [|discriminate]. intros H Hs Hv.
  assert (G : dget (match v with Some x => dset items "value" x | None => items end) k = dget items k).
  { destruct v as [x|]; [|reflexivity]. destruct Hv as [Hv|Hv]; [|discriminate].
    now apply dget_dset_other. }
  destruct src; inversion H; subst; clear H; rewrite dget_dset_other by exact Hs; exact G.
Qed.

(* ---- names ---- *)
Lemma starts_underscore_spec c s : starts_underscore (String c s) = Ascii.eqb c "_"%char.
Proof. destruct c as [[] [] [] [] [] [] [] []]; reflexivity. Qed.

Theorem user_name_not_ext s : user_name_ok s = true -> has_ext_prefix s = false.
Proof.
  unfold user_name_ok, has_ext_prefix, ext_prefix. intros H.
  apply andb_true_iff in H as [_ H]. apply negb_true_iff in H.
  destruct s as [|c s]; [reflexivity|].
  rewrite starts_underscore_spec in H.
  change (String.prefix "_ext_" (String c s))
    with (if Ascii.ascii_dec "_"%char c then String.prefix "ext_" s else false).
  destruct (Ascii.ascii_dec "_"%char c) as [E|N]; [|reflexivity].
  subst c. discriminate.
Qed.

Theorem auto_name_ext cls n : has_ext_prefix (auto_name cls n) = String.prefix "ext_" (cls ++ "_" ++ n).
Proof. reflexivity. Qed.

Lemma prefix_app_l p a b : String.prefix p a = true -> String.prefix p (a ++ b) = true.
Proof.
  revert a. induction p as [|c p IH]; intros a; simpl; [now destruct (a ++ b)|].
  destruct a as [|c' a]; [discriminate|]. simpl.
  destruct (Ascii.ascii_dec c c'); [apply IH|discriminate].
Qed.

(* the corner: a block CLASS whose name starts with "ext_" gets automatic names with the prefix *)
Theorem auto_name_ext_class cls n :
  String.prefix "ext_" cls = true -> has_ext_prefix (auto_name cls n) = true.
Proof. intros H. rewrite auto_name_ext. now apply prefix_app_l. Qed.

Lemma prefix_app_short p a b :
  String.prefix p a = false -> (String.length p <= String.length a)%nat -> String.prefix p (a ++ b) = false.
Proof.
  revert a. induction p as [|c p IH]; intros a; simpl; [now destruct a|].
  destruct a as [|c' a]; simpl; [lia|].
  destruct (Ascii.ascii_dec c c'); [intros H L; apply IH; [exact H|lia]|reflexivity].
Qed.

Theorem auto_name_not_ext cls n :
  String.prefix "ext_" cls = false -> (4 <= String.length cls)%nat ->
  has_ext_prefix (auto_name cls n) = false.
Proof. intros H L. rewrite auto_name_ext. apply prefix_app_short; assumption. Qed.

(* ---- link ---- *)
Theorem xcase_agree_implies_monitor c : xcase_agree c = true -> xcase_monitor c = true.
Proof.
  unfold xcase_agree, xcase_monitor.
  destruct (ext_send (x_phase c) (x_dflt c) (x_value c) (x_src c) (x_items c)) as [d|k] eqn:E;
    destruct (x_obs c) as [d'|k']; try discriminate.
  - intros Heq.
    assert (Hr : is_ready (x_phase c) = true).
    { eapply (proj1 (send_iff_ready (x_phase c) (x_dflt c) (x_value c) (x_src c) (x_items c))). eauto. }
    rewrite Hr. simpl.
    destruct (delivered_source_prefixed _ _ _ _ _ _ E) as (s & Hs & Hp).
    pose proof (data_equiv_get _ _ "source" Heq) as G. rewrite Hs in G.
    destruct (dget d' "source") as [[]|]; simpl in G; try discriminate.
    apply String.eqb_eq in G. subst. rewrite Hp. simpl.
    assert (Hv : match x_value c with Some v => oval_eqb (dget d' "value") (Some v) | None => true end = true).
    { destruct (x_value c) as [v|] eqn:Ev; [|reflexivity].
      pose proof (value_item _ _ _ _ _ _ E) as V.
      pose proof (data_equiv_get _ _ "value" Heq) as G2. rewrite V in G2.
      now apply oval_eqb_sym. }
    rewrite Hv. simpl.
    apply forallb_forall. intros [k v] Hin. simpl.
    destruct (String.eqb k "source") eqn:E1; [reflexivity|].
    apply String.eqb_neq in E1.
    destruct (String.eqb k "value" && match x_value c with Some _ => true | None => false end) eqn:E2;
      [reflexivity|].
    assert (Hc : k <> "value" \/ x_value c = None).
    { apply andb_false_iff in E2 as [E2|E2].
      - left. now apply String.eqb_neq.
      - right. now destruct (x_value c). }
    pose proof (other_items_unchanged _ _ _ _ _ _ k E E1 Hc) as O.
    pose proof (data_equiv_get _ _ k Heq) as G2. rewrite O in G2. now apply oval_eqb_sym.
  - intros Hk. unfold ext_send in E. destruct (is_ready (x_phase c)) eqn:Hr.
    + destruct (x_src c) eqn:Hs; try discriminate. inversion E; subst k.
      destruct k'; try discriminate. reflexivity.
    + inversion E; subst k. destruct k'; try discriminate. reflexivity.
Qed.

Theorem ncase_user_agree_implies_monitor s acc :
  ncase_agree (NUser s acc) = true -> ncase_monitor (NUser s acc) = true.
Proof.
  simpl. intros H. apply Bool.eqb_prop in H. subst acc.
  destruct (user_name_ok s) eqn:E; [|reflexivity]. now rewrite (user_name_not_ext s E).
Qed.

(* every automatic name that is handed out is free of the reserved prefix *)
Theorem auto_name_checked_not_ext cls n s :
  auto_name_checked cls n = Ok s -> has_ext_prefix s = false.
Proof.
  unfold auto_name_checked. destruct (has_ext_prefix (auto_name cls n)) eqn:E; [discriminate|].
  intros H. inversion H. subst. exact E.
Qed.

Theorem ncase_auto_agree_implies_monitor cls n obs :
  ncase_agree (NAuto cls n obs) = true -> ncase_monitor (NAuto cls n obs) = true.
Proof.
  simpl. destruct (auto_name_checked cls n) as [a|e] eqn:E; destruct obs as [b|e']; try discriminate;
    [|reflexivity].
  intros H. apply String.eqb_eq in H. subst b. now rewrite (auto_name_checked_not_ext _ _ _ E).
Qed.
